#!/bin/bash
# usage: confirm_mutant.sh <worktree dir with _mut/> <seeded name>
# confirms: patch applies on clean HEAD, tests pass with it, demo fails with it and passes on /repo; then stores it under /verif/seeded/<name>
set -u
WT=$1; NAME=$2
OUT=/verif/seeded/$NAME
S=$(mktemp -d /tmp/confirm.XXXXXX)
git -C /repo worktree add -q --detach $S/wt HEAD || exit 9
cd $S/wt
ok=1
git apply $WT/_mut/patch.diff || { echo "patch does not apply"; ok=0; }
if [ $ok = 1 ]; then
  /venv/bin/python -m pytest -q -p no:cacheprovider --timeout=900 -x > $S/pytest.log 2>&1; prc=$?
  tail -1 $S/pytest.log
  ( cd $WT/_mut && timeout 600 /venv/bin/python demo.py $S/wt > $S/demo_mut.log 2>&1 ); drc_mut=$?
  ( cd $WT/_mut && timeout 600 /venv/bin/python demo.py /repo > $S/demo_repo.log 2>&1 ); drc_repo=$?
  echo "pytest_rc=$prc demo_on_mutant_rc=$drc_mut demo_on_repo_rc=$drc_repo"
  if [ $prc = 0 ] && [ $drc_mut != 0 ] && [ $drc_repo = 0 ]; then
    mkdir -p $OUT
    cp -r $WT/_mut/. $OUT/
    rm -rf $OUT/__pycache__ $OUT/*.o $OUT/a.out
    python3 - "$OUT" "$prc" "$drc_mut" "$drc_repo" "$(tail -1 $S/pytest.log)" <<'PY'
import json,sys
out,prc,dm,dr,pt=sys.argv[1:6]
p=out+"/meta.json"
try: m=json.load(open(p))
except Exception: m={}
m["confirmed_by_main_session"]={"pytest_with_patch":pt,"demo_rc_with_patch":int(dm),"demo_rc_on_repo":int(dr),
  "commands":["git apply patch.diff (scratch worktree of /repo HEAD)","/venv/bin/python -m pytest -q -p no:cacheprovider --timeout=900 -x","python demo.py <scratch>","python demo.py /repo"]}
json.dump(m,open(p,"w"),indent=1)
PY
    echo "CONFIRMED -> $OUT"
  else
    echo "NOT CONFIRMED"; tail -5 $S/demo_mut.log; tail -5 $S/demo_repo.log
  fi
fi
cd /; git -C /repo worktree remove --force $S/wt; rm -rf $S
