#!/bin/bash
# every seeded change against the check of its own property, N at a time (default 3); one line per change: rc=1 means detected
cd /verif
N=${1:-3}
ls seeded | grep -E '^C[0-9]+-[0-9]+$' | xargs -P $N -I{} bash -c 'n={}; p=${n%%-*}; tools/run_seeded.sh $n $p 2>&1 | grep "rc=" | cut -c1-220' | sort
