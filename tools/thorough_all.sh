#!/bin/bash
# every claimed check once in the thorough tier on the clean tree (evidence goes to a scratch directory: the committed evidence is the quick tier's)
cd /verif
E=$(mktemp -d /tmp/thorough_ev.XXXXXX)
ids=$(python3 -c "import json; print(' '.join(c['property_id'] for c in json.load(open('MANIFEST.json'))['checks']))")
for p in ${@:-$ids}; do
  s=$(date +%s)
  out=$(VERIF_EVIDENCE_DIR=$E ./check $p --tier thorough 2>&1); rc=$?
  echo "$p rc=$rc $(( $(date +%s) - s ))s $(echo "$out" | tail -1 | cut -c1-170)"
  [ $rc != 0 ] && echo "$out" | grep -B1 -A1 "^VIOLATION\|^UNDECIDED\|Traceback" | head -12
done
rm -rf $E
