#!/bin/bash
# runs every seeded change against the check of the property it targets and the checks that were found (or expected) to notice it too;
# prints one line per (change, check): rc=1 means detected
cd /verif
declare -A extra=( [C01-1]="C09 C05" [C01-2]="" [C02-1]="C06" [C02-2]="C06 C10" [C03-2]="" [C04-2]="C02 C06" [C05-1]="C01" [C05-2]="C06 C01" [C06-1]="C02" [C06-2]="C01" [C07-1]="C17" [C08-1]="C09" [C08-2]="C01" [C09-2]="C08" [C10-2]="C06" [C12-1]="C06" [C12-2]="C03 C06" [C16-2]="C05 C01" [C17-1]="C07" [C17-2]="C05 C01" )
for d in seeded/*/; do
  n=$(basename $d); p=${n%%-*}
  tools/run_seeded.sh $n $p ${extra[$n]} 2>&1 | grep "rc="
done
