#!/bin/bash
# runs every seeded change against the check of the property it targets (and a few neighbours); prints a table
cd /verif
declare -A extra=( [C06-1]="C02" [C02-1]="C06" [C17-1]="C07" [C07-1]="C17" [C08-1]="C09" [C12-1]="C06" [C01-1]="C09 C05" )
for d in seeded/*/; do
  n=$(basename $d); p=${n%%-*}
  tools/run_seeded.sh $n $p ${extra[$n]} 2>&1 | grep "rc="
done
