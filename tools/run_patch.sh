#!/bin/bash
# usage: run_patch.sh <patch file> <property ids...>   - like run_seeded.sh for an arbitrary patch (e.g. a behaviour-preserving refactoring)
P=$1; shift
S=$(mktemp -d /tmp/patchrun.XXXXXX)
cp -r /repo/nmfu.py /repo/example /repo/tests $S/ 2>/dev/null
( cd $S && git init -q . && git add -A >/dev/null && git -c user.email=x -c user.name=x commit -qm base && git apply $P ) || { echo "$P patch failed"; rm -rf $S; exit 9; }
cd /verif
for p in "$@"; do
  out=$(NMFU_REPO=$S VERIF_EVIDENCE_DIR=$S/evidence ./check $p 2>&1); rc=$?
  echo "$(basename $P) $p rc=$rc $(echo "$out" | grep -c '^VIOLATION') violation lines; $(echo "$out" | tail -1 | cut -c1-200)"
  [ $rc != 0 ] && echo "$out" | grep -B1 -A2 '^VIOLATION\|^UNDECIDED\|Traceback' | head -12
done
rm -rf $S
