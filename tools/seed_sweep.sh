#!/bin/bash
# usage: seed_sweep.sh <seed>...   runs every claimed quick check at the given seeds (evidence redirected to a scratch dir), prints the ones that do not exit 0
cd /verif
ids=$(python3 -c "import json; print(' '.join(c['property_id'] for c in json.load(open('MANIFEST.json'))['checks']))")
for s in "$@"; do
  E=$(mktemp -d /tmp/sweepev.XXXXXX)
  for p in $ids; do
    out=$(VERIF_SEED=$s VERIF_TIER=quick VERIF_EVIDENCE_DIR=$E ./check $p 2>&1); rc=$?
    if [ $rc != 0 ]; then echo "seed $s $p rc=$rc"; echo "$out" | grep -v '^VIOLATION' | tail -4 | cut -c1-400; fi
  done
  rm -rf $E
  echo "seed $s done"
done
