#!/bin/bash
# run every claimed check (quick tier) on the clean tree, validate evidence files against the schema
cd /verif
if [ -n "$(git -C /repo status --porcelain --untracked-files=no)" ]; then echo "repo dirty"; exit 9; fi
ids=$(python3 -c "import json; print(' '.join(c['property_id'] for c in json.load(open('MANIFEST.json'))['checks']))")
fail=0
for p in $ids; do
  out=$(VERIF_TIER=quick ./check $p 2>&1); rc=$?
  echo "$p rc=$rc $(echo "$out" | tail -1 | cut -c1-160)"
  [ $rc != 0 ] && fail=1
  python3-vt -c "
import json, jsonschema
jsonschema.validate(json.load(open('evidence/$p.json')), json.load(open('/root/.vp/EVIDENCE.schema.json')))" || { echo "$p evidence INVALID"; fail=1; }
done
exit $fail
