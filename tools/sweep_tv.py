import sys, time, json, re, os; sys.path.insert(0, os.path.dirname(os.path.dirname(os.path.abspath(__file__))))
from vf.props import _tvcommon as T
from vf import gen
from collections import Counter
t=time.time()
fams={"endfx","refine","coherence","memsafe","protocol","end","wellformed","term"}
N=int(sys.argv[1]); seeds=[int(x) for x in sys.argv[2:]]
from vf import common
allf=[]; recs=[]
for seed in seeds:
    rep, r = T.run("CXX", fams, "other", "probe", programs=gen.generated_programs(N, seed))
    recs += r
    allf += [f for f in rep.findings if not (common.known_match("C10", f.signature) or common.known_match("C04", f.signature))]
    print("seed", seed, "findings(new)", len(allf), flush=True)
class R: pass
rep.findings = allf
print("wall", time.time()-t)
c=Counter()
for r in recs:
    if r["error"]: print("ERR", r["prog"], r["opt"], r["error"][0], r["error"][1][-400:])
    if r["rejected"]: c[("rejected", r["rejected"])]+=1
    else: c["accepted"]+=1
kinds=Counter(); ex={}
for f in rep.findings:
    w=f.what.split(": ",1)[1]
    k=(f.details["family"], re.sub(r"\d+","N",f.signature.split("|")[-1]), re.sub(r"\d+","N",w)[:110])
    kinds[k]+=1; ex.setdefault(k, f.signature)
for k,v in kinds.most_common(): print(v, k, "\n      e.g.", ex[k])
print(c, "obligations", rep.obligations, "discharged", rep.discharged, "undecided", len(rep.undecided))
for u in rep.undecided[:5]: print(u)
