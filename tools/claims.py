ENGINES = [
    {"name": "pyvc", "path": "vf/pyvc", "serves_properties": ["C19"], "kind_free_text": "VC generator: predicated symbolic interpreter over the real AST of /repo/nmfu.py (re-read every run) + z3 (cvc5 for unknowns); sidecar contracts"},
]
NOT_APPLICABLE = {
    "C20": "quantifies over histories of earlier compilations and allocation/hash layouts; a function contract relates one call's arguments to its result and cannot speak about two runs that differ only in id()/set iteration order (DESIGN.md section 6)",
}
CLAIMS = {
    "C19": {
        "engine": "pyvc", "category": "proof",
        "technique": "contract-based deductive verification: VCs generated from the real AST of load_commandline_flags/_reset_flags, discharged by z3 for all levels and all override maps",
        "text": "Post-conditions (consistency of implies/exclusive, override precedence, cumulative levels, explicit conflicts are errors, order independence, reset) proved for every -O level and every assignment of on/off/absent to all flags; finite flag universe, no bound. Counter-models are turned into command lines and replayed on the real function.",
        "note": "trusted: pyvc's semantics of the Python subset; z3. Token-level option parsing (the loop before the resolution tail) is outside the proved slice and reported as such in the evidence.",
    },
}
