ENGINES = [
    {"name": "csem", "path": "vf/csem + vf/amach.py", "serves_properties": ["C02", "C03", "C04", "C06", "C10", "C17"], "kind_free_text": "deductive verification of the emitted C per program: parser + symbolic executor for the emitted C subset, abstract machine over the DFA as specification, obligations discharged by z3"},
    {"name": "pyvc", "path": "vf/pyvc", "serves_properties": ["C19"], "kind_free_text": "VC generator: predicated symbolic interpreter over the real AST of /repo/nmfu.py (re-read every run) + z3 (cvc5 for unknowns); sidecar contracts"},
]
NOT_APPLICABLE = {
    "C20": "quantifies over histories of earlier compilations and allocation/hash layouts; a function contract relates one call's arguments to its result and cannot speak about two runs that differ only in id()/set iteration order (DESIGN.md section 6)",
}
CLAIMS = {
    "C19": {
        "engine": "pyvc", "category": "proof",
        "technique": "contract-based deductive verification: VCs generated from the real AST of load_commandline_flags/_reset_flags, discharged by z3 for all levels and all override maps",
        "text": "Post-conditions (consistency of implies/exclusive, override precedence, cumulative levels, explicit conflicts are errors, order independence, reset) proved for every -O level and every assignment of on/off/absent to all flags; finite flag universe, no bound. Counter-models are turned into command lines and replayed on the real function.",
        "note": "trusted: pyvc's semantics of the Python subset; z3. Token-level option parsing (the loop before the resolution tail) is outside the proved slice and reported as such in the evidence.",
    },
    "C06": {"engine": "csem", "category": "translation_validation",
        "technique": "contract-based deductive verification of the emitted C: the compiled DFA is the contract of every case block; obligations per state x byte class x symbolic data discharged by z3",
        "text": "Every obligation generated from the C text that the real generator emits for a program is discharged for all inputs and data states; the set of programs (corpus + generated) x option sets is finite, so the quantifier over programs is bounded and reported as such.",
        "note": "trusted: csem's semantics of the emitted C subset, the abstract machine (spec), z3; + - * as ring operations, other C operators uninterpreted but identical on both sides"},
    "C02": {"engine": "csem", "category": "proof",
        "technique": "contract-based deductive verification of the emitted feed(): label/state coherence, dispatch preconditions and yield/advance obligations discharged by z3 per program; chunking independence follows by induction on cuts",
        "text": "Proof per emitted program (all inputs, all data states, all chunkings of that parser); bounded over programs x option sets.",
        "note": "trusted: csem C semantics, z3; the code-independent induction lemma (cuts only happen at return-OK sites, where start==end and state is stored) is stated in DESIGN.md, not machine-checked"},
    "C03": {"engine": "csem", "category": "proof",
        "technique": "contract-based deductive verification: inductive memory invariant + per-access safety obligations on emitted start/feed/end/free, discharged by z3",
        "text": "Proof per emitted program and storage option set for all inputs; bounded over programs x option sets.",
        "note": "trusted: csem C semantics (malloc never fails, memcpy/free per ISO C), z3. Unsafe indexing mode is verified only under its documented in-range precondition (thorough tier)."},
    "C10": {"engine": "csem", "category": "proof",
        "technique": "contract-based deductive verification: protocol obligations at every return site of emitted feed/end, discharged by z3",
        "text": "Proof per emitted program; bounded over programs x option sets. One recorded finding (F-10b).",
        "note": "trusted: csem C semantics, z3"},
    "C17": {"engine": "csem", "category": "proof",
        "technique": "contract-based deductive verification: emitted end() against the abstract machine's end-of-input step, per state, discharged by z3",
        "text": "Proof per emitted program with EOF support; bounded over programs x option sets.",
        "note": "trusted: csem C semantics, abstract machine, z3. That data patterns never list End is checked at DFA level under C07 (not here)."},
    "C04": {"engine": "csem", "category": "proof",
        "technique": "contract-based deductive verification: cycle-infeasibility / ranking obligations on the non-consuming moves of emitted feed/end, discharged by z3; recurrence counterexamples replayed on the compiled C",
        "text": "Per emitted program, all (state, byte, data) triples; bounded over programs. Soundness of the compile-time rejection (_verify_fallthrough_loop) for all programs is NOT proved; it is exercised through the accepted programs only.",
        "note": "trusted: csem C semantics, z3; termination of hooks assumed"},
}
