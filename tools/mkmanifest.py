#!/usr/bin/env python3
"""Regenerates MANIFEST.json from the table below (single source of truth for what is claimed)."""
import json, os
ROOT = os.path.dirname(os.path.dirname(os.path.abspath(__file__)))
props = [json.loads(l) for l in open(os.path.join(ROOT, "properties.jsonl"))]
from claims import CLAIMS, NOT_APPLICABLE, ENGINES
checks = []
for pid, c in sorted(CLAIMS.items()):
    checks.append({
        "property_id": pid,
        "quick_cmd": f"./check {pid} --tier quick",
        "thorough_cmd": f"./check {pid} --tier thorough",
        "evidence_file": f"/verif/evidence/{pid}.json",
        "replay_cmd_template": f"./check {pid} --replay {{path}}",
        "engine": c["engine"],
        "level_claimed": {"category": c["category"], "text": c["text"], "design_ref": c.get("design_ref", "DESIGN.md section 4 " + pid)},
        "level_note": c["note"],
        "technique": c["technique"],
    })
na = []
for p in props:
    if p["id"] not in CLAIMS:
        na.append({"property_id": p["id"], "reason": NOT_APPLICABLE.get(p["id"], "engine for this property not built yet (DESIGN.md section 5 build order); not claimed on thinner evidence")})
m = {
    "version": 1,
    "setup_cmd": "python3-vt -m compileall -q vf >/dev/null 2>&1; ./check selftest",
    "hooks": {"guard": "NMFU_VERIF", "enable": "no source hooks: contracts are sidecar files under /verif/vf; run-time contracts wrap the imported module's attributes in the checking process only",
              "baseline_off_cmd": "cd /repo && /venv/bin/python -m pytest -ra -q -p no:cacheprovider --timeout=900 --continue-on-collection-errors",
              "source_commits": [], "add_only": True},
    "engines": ENGINES,
    "checks": checks,
    "not_applicable": na,
    "notes": "Contract-based deductive verification; see DESIGN.md. Exit codes: 0 held, 1 violation (VIOLATION line), 2 undecided, 3 checker crash.",
}
json.dump(m, open(os.path.join(ROOT, "MANIFEST.json"), "w"), indent=1)
print("claimed:", sorted(CLAIMS), "n/a:", [x["property_id"] for x in na])
