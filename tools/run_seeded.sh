#!/bin/bash
# usage: run_seeded.sh <seeded name> <property ids...>
# applies the seeded change to a scratch copy of /repo's working tree (outside /repo and /verif), runs the checks against it
# (NMFU_REPO selects the tree the checks read), removes the copy.  Equivalent to `git -C /repo apply` + run + `git checkout -- .`.
N=$1; shift
S=$(mktemp -d /tmp/seedrun.XXXXXX)
cp -r /repo/nmfu.py /repo/example /repo/tests $S/ 2>/dev/null
( cd $S && git init -q . && git add -A >/dev/null && git -c user.email=x -c user.name=x commit -qm base && (git apply /verif/seeded/$N/patch.diff || git apply -3 /verif/seeded/$N/patch.diff) ) || { echo "$N patch failed"; rm -rf $S; exit 9; }
cd /verif
for p in "$@"; do
  out=$(NMFU_REPO=$S VERIF_EVIDENCE_DIR=$S/evidence ./check $p 2>&1); rc=$?
  echo "$N $p rc=$rc $(echo "$out" | grep -c '^VIOLATION') violation lines; $(echo "$out" | tail -1)"
  echo "$out" | grep -A1 '^VIOLATION' | head -4
done
rm -rf $S
