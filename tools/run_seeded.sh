#!/bin/bash
# usage: run_seeded.sh <seeded name> <property ids...> : apply the seeded change to /repo, run the checks, undo it
N=$1; shift
cd /repo || exit 9
if [ -n "$(git status --porcelain --untracked-files=no)" ]; then echo "repo dirty"; exit 9; fi
git apply /verif/seeded/$N/patch.diff || git apply -3 /verif/seeded/$N/patch.diff || { echo "patch failed"; git checkout -- .; exit 9; }
cd /verif
for p in "$@"; do
  out=$(./check $p 2>&1); rc=$?
  echo "$N $p rc=$rc $(echo "$out" | grep -c '^VIOLATION') violation lines; $(echo "$out" | tail -1)"
  echo "$out" | grep -A1 '^VIOLATION' | head -4
done
git -C /repo checkout -- .
git -C /repo status --porcelain --untracked-files=no
