"""Shared plumbing: exit codes, evidence, known findings, replay files, nmfu loading."""
import json, os, sys, time, hashlib, traceback, re

ROOT = os.path.dirname(os.path.dirname(os.path.abspath(__file__)))
REPO = os.environ.get("NMFU_REPO", "/repo")
EVID = os.environ.get("VERIF_EVIDENCE_DIR") or os.path.join(ROOT, "evidence")   # (the seeded-mutant runner redirects evidence so that committed evidence stays from clean runs)
REPLAYS = os.path.join(ROOT, "replays")
KNOWN = os.path.join(ROOT, "known_findings.json")

EXIT_OK, EXIT_VIOLATION, EXIT_UNDECIDED, EXIT_CRASH = 0, 1, 2, 3

STANDING_ASSUMPTIONS = {
    "lark": "Lark parses sources according to nmfu.grammar (external dependency, unverified)",
    "debug": "ProgramData.imbue/lookup with NAME/SOURCE_*/PARENT/MACRO_INSTANCE tags have no semantic effect (debug bookkeeping)",
    "csem": "meaning given to the emitted C subset by vf/csem (about 25 statement forms; ISO C memcpy/malloc/free; malloc never returns NULL)",
    "hooks": "user hook functions do not modify the state struct",
    "smt": "z3 / cvc5 are sound",
    "arith": "C integer + - * treated as mathematical ring operations on both sides of every comparison; / % << >> & | ^ uninterpreted but identical on both sides",
}


def tier():
    return os.environ.get("VERIF_TIER", "quick")


def seed():
    try:
        return int(os.environ.get("VERIF_SEED", "0"))
    except ValueError:
        return 0


_nmfu = None


def load_nmfu():
    """Import nmfu from the *current working tree* of REPO (never a cached copy)."""
    global _nmfu
    if _nmfu is None:
        if REPO not in sys.path:
            sys.path.insert(0, REPO)
        sys.dont_write_bytecode = True
        import importlib
        if "nmfu" in sys.modules:
            del sys.modules["nmfu"]
        _nmfu = importlib.import_module("nmfu")
        assert os.path.realpath(_nmfu.__file__) == os.path.realpath(os.path.join(REPO, "nmfu.py")), _nmfu.__file__
    return _nmfu


def repo_source():
    with open(os.path.join(REPO, "nmfu.py")) as f:
        return f.read()


class Finding:
    """One failed obligation / fired contract."""

    def __init__(self, prop, obligation, signature, what, replay=None, replayed=True, details=None):
        self.prop = prop
        self.obligation = obligation      # obligation identifier
        self.signature = signature        # stable identity of the failing input / call site (matched with known findings)
        self.what = what                  # human text
        self.replay = replay or {}        # json-able replay payload
        self.replayed = replayed          # False => "no-failing-input-found"
        self.details = details or {}


def load_known():
    if not os.path.exists(KNOWN):
        return []
    with open(KNOWN) as f:
        return json.load(f).get("entries", [])


def known_match(prop, signature):
    for e in load_known():
        if e.get("kind") != "finding":
            continue
        if e.get("property") != prop:
            continue
        pat = e.get("signature")
        if pat == signature:
            return e
        if e.get("signature_regex") and re.fullmatch(e["signature_regex"], signature):
            return e
    return None


def write_replay(f: Finding):
    os.makedirs(REPLAYS, exist_ok=True)
    h = hashlib.sha1((f.obligation + "|" + f.signature).encode()).hexdigest()[:12]
    path = os.path.join(REPLAYS, f"{f.prop}_{h}.json")
    payload = {
        "property": f.prop,
        "obligation": f.obligation,
        "signature": f.signature,
        "what": f.what,
        "replayed_on_real_code": f.replayed,
        "input": f.replay,
        "details": f.details,
    }
    with open(path, "w") as fp:
        json.dump(payload, fp, indent=1, default=str)
    return path


class Report:
    """Collects obligations, findings and coverage for one property run, writes evidence, decides exit code."""

    def __init__(self, prop, level):
        self.prop = prop
        self.level = level
        self.t0 = time.time()
        self.obligations = 0
        self.discharged = 0
        self.by_backend = {}
        self.solver_s = 0.0
        self.findings = []
        self.undecided = []
        self.unavail = []
        self.functions = []
        self.samples = []
        self.assumptions = []
        self.trusted = []
        self.coverage = {}
        self.bounded = {}
        self.notes = []
        self.programs = 0

    # --- obligations (proved grade) ---
    def discharged_ob(self, oid, backend="z3", seconds=0.0, sample=None):
        self.obligations += 1
        self.discharged += 1
        self.by_backend[backend] = self.by_backend.get(backend, 0) + 1
        self.solver_s += seconds
        if sample is not None and len(self.samples) < 12:
            self.samples.append(sample)
        elif len(self.samples) < 6:
            self.samples.append(oid)

    def failed_ob(self, finding: Finding):
        self.obligations += 1
        finding.counted = True
        self.findings.append(finding)

    def bounded_violation(self, finding: Finding):
        """a violation found by a bounded / run-time contract check: reported, but never part of the obligation count"""
        finding.counted = False
        self.findings.append(finding)

    def undecided_ob(self, oid, why):
        self.obligations += 1
        self.undecided.append((oid, why))

    def unavailable(self, oid, why):
        """an *additional* proved part cannot be generated for the current shape of the code (engine limit: construct outside the modelled
        subset, e.g. after a harmless restructuring).  Nothing is claimed for it: it is not an obligation, it is reported (stdout and
        evidence) and the verdict of the check rests on the parts that did run.  Never used for a part that is the check's only decider."""
        self.unavail.append((oid, why))

    # --- bounded grade ---
    def bounded_count(self, key, n=1):
        self.bounded[key] = self.bounded.get(key, 0) + n

    def fn(self, *names):
        for n in names:
            if n not in self.functions:
                self.functions.append(n)

    def assume(self, *keys_or_text):
        for k in keys_or_text:
            t = STANDING_ASSUMPTIONS.get(k, k)
            if k == "debug":
                # no longer a bare assumption: the frame lemma is discharged from the real AST on this run (vf/props/debug_frame.py)
                from .props import debug_frame
                t = debug_frame.check(self, self.prop)
            if t not in self.assumptions:
                self.assumptions.append(t)

    def trust(self, *texts):
        for t in texts:
            if t not in self.trusted:
                self.trusted.append(t)

    def finish(self, explanation, checker_cmd=None, extra=None, require_obligations=True):
        wall = time.time() - self.t0
        lines = []
        new_violations = []
        known_seen = []
        for f in self.findings:
            k = known_match(self.prop, f.signature)
            if k:
                known_seen.append((k, f))
                if os.environ.get("VERIF_SHOW_KNOWN"):
                    print(f"known {k['id']}: {f.signature}")
            else:
                new_violations.append(f)
        seen_ids = set()
        for k, f in known_seen:
            if k["id"] in seen_ids:
                continue
            seen_ids.add(k["id"])
            lines.append(f"KNOWN-FINDING: property={self.prop} {k['id']}: {k['what']}")
        vio_lines = []
        for i, f in enumerate(new_violations):
            if i >= 25:
                lines.append(f"  ... and {len(new_violations) - 25} further failed obligations (listed in the evidence file)")
                break
            path = write_replay(f)
            suffix = "" if f.replayed else " no-failing-input-found"
            vio_lines.append(f"VIOLATION property={self.prop} replay={path}{suffix}")
            lines.append(f"  obligation {f.obligation}: {f.what[:400]}")
        # obligations that fail only because of a recorded (known) finding are reported apart: they are neither discharged nor new
        n_known_ob = sum(1 for _, f in known_seen if getattr(f, 'counted', True))
        cov = {
            "obligations": self.obligations - n_known_ob,
            "known_finding_obligations": n_known_ob,
            "discharged": self.discharged,
            "discharged_by_backend": self.by_backend,
            "solver_seconds": round(self.solver_s, 3),
            "checker_cmd": checker_cmd or f"./check {self.prop}",
            "trusted_base": self.trusted,
            "functions_under_contract": self.functions,
            "samples": self.samples[:12] or ["(none)"],
            "explanation": explanation,
            "undecided": [list(u) for u in self.undecided[:20]],
            "proved_part_unavailable": [list(u) for u in self.unavail[:20]],
            "known_findings_seen": sorted(seen_ids),
            "new_violations": [f.obligation for f in new_violations][:50],
        }
        if self.programs:
            cov["programs"] = self.programs
            cov["disagreements_checked"] = len(self.findings)
        if self.bounded:
            cov["bounded"] = self.bounded
            cov["bounded_note"] = "counts under 'bounded' are run-time/bounded contract evaluations; they are NOT included in obligations/discharged"
        cov.update(self.coverage)
        if extra:
            cov.update(extra)
        # evaluations/distinct_nontrivial fallback keys (measured)
        cov.setdefault("evaluations", max(1, self.obligations + sum(self.bounded.values())))
        cov.setdefault("distinct_nontrivial", max(0, self.discharged + sum(self.bounded.values())))
        ev = {
            "property_id": self.prop,
            "tier": tier() if tier() in ("quick", "thorough") else "quick",
            "seed": seed(),
            "level": self.level,
            "coverage": cov,
            "assumptions": self.assumptions,
            "wall_s": round(wall, 2),
            "violations": len(new_violations),
            "notes": self.notes,
        }
        os.makedirs(EVID, exist_ok=True)
        with open(os.path.join(EVID, f"{self.prop}.json"), "w") as fp:
            json.dump(ev, fp, indent=1, default=str)
        for l in lines:
            print(l)
        for oid, why in self.unavail:
            print(f"PROVED-PART-UNAVAILABLE {oid}: {why[:300]} (nothing claimed for it; the verdict rests on the parts that ran)")
        for l in vio_lines:
            print(l)
        print(f"[{self.prop}] obligations={self.obligations} discharged={self.discharged} "
              f"bounded={sum(self.bounded.values())} known={len(seen_ids)} new_violations={len(new_violations)} "
              f"undecided={len(self.undecided)} wall={wall:.1f}s")
        if new_violations:
            return EXIT_VIOLATION
        if self.undecided:
            for oid, why in self.undecided[:20]:
                print(f"UNDECIDED {oid}: {why}")
            return EXIT_UNDECIDED
        if require_obligations and self.obligations + sum(self.bounded.values()) == 0:
            print("vacuity guard: zero obligations generated")
            return EXIT_CRASH
        return EXIT_OK


def run_guarded(fn):
    """Run a check main(); never map a crash to a violation."""
    try:
        rc = fn()
    except SystemExit as e:
        raise
    except BaseException:
        traceback.print_exc()
        print("checker crash (exit 3) -- not a verdict")
        sys.exit(EXIT_CRASH)
    sys.exit(rc)
