"""Driver for run-time contracts: compile a set of programs with the wrappers installed and collect evaluations / failures."""
import multiprocessing as mp, time, traceback
from .. import common
from . import core

_CTX = {}


def _init():
    pass


def _task(job):
    pi, flags = job
    prog = _CTX["programs"][pi]
    nmfu = common.load_nmfu()
    if not _CTX.get("installed"):
        for inst in _CTX["installers"]:
            inst(nmfu)
        _CTX["installed"] = True
    rec = core.REC
    rec.evals = {}
    rec.fails = []
    rec.enabled = True
    rec.ctx = f"{prog['name']} [{' '.join(flags)}]"
    out = {"prog": prog["name"], "flags": flags, "outcome": None, "evals": None, "fails": None, "error": None}
    from ..csem import tv
    import signal

    def _alarm(signum, frame):
        raise TimeoutError("compilation exceeded the per-program time limit")
    signal.signal(signal.SIGALRM, _alarm)
    signal.alarm(_CTX.get("time_limit", 60))
    t = time.time()
    try:
        try:
            c = tv.compile_program(nmfu, prog["src"], list(flags) + prog["args"], path=prog["name"])
            out["outcome"] = "accepted"
            out["nstates"] = len(c.cctx.dfa.states)
            if _CTX.get("post"):
                out["post"] = _CTX["post"](nmfu, c, prog, flags)
        except nmfu.NMFUError as e:
            out["outcome"] = "rejected:" + type(e).__name__
            try:
                out["message"] = str(e)[:200]
            except Exception as e2:
                out["message"] = "<unrenderable: %r>" % (e2,)
        except tv.InternalCompilerError as e:
            out["outcome"] = "internal:" + str(e)[:120]
        except RuntimeError as e:
            out["outcome"] = "badflags:" + str(e)[:80]
        except TimeoutError as e:
            out["outcome"] = "timeout:" + str(e)
    except TimeoutError as e:
        out["outcome"] = "timeout:" + str(e)
    except Exception:
        out["error"] = traceback.format_exc()[-1500:]
    finally:
        signal.alarm(0)
    out["evals"] = dict(rec.evals)
    out["fails"] = list(rec.fails)
    out["wall"] = round(time.time() - t, 3)
    return out


def run(programs, flagsets, installers, post=None, time_limit=60):
    _CTX.clear()
    _CTX.update(programs=programs, installers=installers, post=post, installed=False, time_limit=time_limit)
    jobs = [(pi, fl) for pi in range(len(programs)) for fl in flagsets]
    jobs.sort(key=lambda j: -len(programs[j[0]]["src"]))
    ctx = mp.get_context("fork")
    with ctx.Pool(min(16, max(1, len(jobs)))) as pool:
        return pool.map(_task, jobs, chunksize=4)
