"""Reference semantics of a case statement (C08) and its exact comparison with the compiled machine.

The reference runs the clause patterns in parallel as Brzozowski derivatives (independent of nmfu's automata):
  * while some pattern can continue with the next byte, the byte is consumed;
  * otherwise the clause whose pattern equals the consumed bytes runs (highest priority among the complete ones for a greedy case),
    or the else clause / the no-match error when none is complete; its body starts at the offending byte;
  * a clause runs right away when its pattern is complete and nothing can continue at all (the permitted timing slack).
The compiled machine is walked in eager normal form (vf/rtc/bisim.py) over all 256 byte values."""
import string
from . import regex_contract as RX
from .bisim import NF
from .core import symname

ESC = {"n": 10, "r": 13, "t": 9, "b": 8, "0": 0, '"': 34, "\\": 92}


def decode(contents):
    out = []
    i = 0
    while i < len(contents):
        if contents[i] != "\\":
            out.append(ord(contents[i]))
            i += 1
        elif contents[i + 1] == "x":
            out.append(int(contents[i + 2:i + 4], 16))
            i += 4
        else:
            out.append(ESC[contents[i + 1]])
            i += 2
    return out


def pattern_term(tree):
    """derivative term of a match-expression parse tree (None for patterns the reference does not model: `end`)"""
    d = tree.data
    if d == "string_const":
        r = RX.EPS
        for o in reversed(decode(tree.children[0].value[1:-1])):
            r = RX.cat(("cls", 1 << o), r)
        return r
    if d == "string_case_const":
        r = RX.EPS
        for o in reversed(decode(tree.children[0].value[1:-1])):
            m = 1 << o
            c = chr(o)
            if c in string.ascii_letters:
                m = (1 << ord(c.lower())) | (1 << ord(c.upper()))
            r = RX.cat(("cls", m), r)
        return r
    if d == "binary_string_const":
        hexd = [c for c in tree.children[0].value[1:-1] if c in string.hexdigits]
        r = RX.EPS
        for k in range(len(hexd) - 2, -1, -2):
            r = RX.cat(("cls", 1 << int(hexd[k] + hexd[k + 1], 16)), r)
        return r
    if d == "regex":
        return RX.from_tree(tree, False)
    if d == "binary_regex":
        return RX.from_tree(tree, True)
    if d == "concat_expr":
        r = RX.EPS
        for ch in reversed(tree.children):
            t = pattern_term(ch)
            if t is None:
                return None
            r = RX.cat(t, r)
        return r
    return None


def can_continue(r):
    """some byte continues the pattern"""
    return any(RX.deriv(r, (bl & -bl).bit_length() - 1) != RX.EMPTY for bl in RX.first_classes(r)) if r != RX.EMPTY else False


class CaseSpec:
    tailpos = False                   # the case is the last statement of the parser: nothing follows it (no ";")

    def __init__(self, clauses, else_marker, greedy, tail=False, tail_of=None):
        self.tail = tail              # clause bodies end with the match "!" (markers are then scheduled on the way out)
        self.tail_of = tail_of or {}  # per marker, when the clauses differ (action-only clauses next to clauses with a body)
        self.clauses = clauses        # list of (terms, marker, prio)
        self.else_marker = else_marker
        self.greedy = greedy
        self.flat = [(t, mk, pr) for (ts, mk, pr) in clauses for t in ts]

    def initial(self):
        return ("case", tuple(t for t, _, _ in self.flat))

    def marker_event(self, v):
        return ("set", "n", ("lit", str(v), "INT"))

    def marker_events(self, v):
        return [] if v < 0 else [self.marker_event(v)]

    def winner(self, ds):
        comp = [(self.flat[i][2], self.flat[i][1]) for i, d in enumerate(ds) if d != RX.EMPTY and RX.nullable(d)]
        if not comp:
            return None
        best = max(p for p, _ in comp)
        top = set(mk for p, mk in comp if p == best)
        if len(top) != 1:
            return ("ambiguous", sorted(top))
        return next(iter(top))

    def complete(self, R):
        if R[0] == "done":
            return True
        if self.tailpos:
            if R[0] == "semi":
                return True
            if R[0] == "case":
                w = self.winner(R[1])
                return w is not None and not isinstance(w, tuple) and not self.tail_of.get(w, self.tail)
        return False

    def step(self, R, b):
        """-> (events, kind, R') with kind in consumed / fail / done"""
        if R[0] == "done":
            return ([], "done", R)
        if R[0] == "bang":
            if b == 33:
                return ([], "consumed", ("semi",))
            return ([], "fail", None)
        if R[0] == "semi":
            if self.tailpos:
                return ([], "done", ("done",))       # nothing follows the case: the program is complete, the byte is not looked at
            if b == 59:
                return ([], "consumed", ("done",))
            return ([], "fail", None)
        ds = R[1]
        nd = tuple(RX.deriv(d, b) if d != RX.EMPTY else RX.EMPTY for d in ds)
        if any(d != RX.EMPTY for d in nd):
            # consume; run the clause at once when it is complete and nothing can continue
            if not any(can_continue(d) for d in nd):
                w = self.winner(nd)
                if w is not None and not isinstance(w, tuple) and not self.tail_of.get(w, self.tail):
                    return (self.marker_events(w), "consumed", ("semi",))
            return ([], "consumed", ("case", nd))
        w = self.winner(ds)
        if isinstance(w, tuple):
            return ([], "ambiguous", None)
        if w is not None:
            ev, kind, R2 = self.step(("bang",) if self.tail_of.get(w, self.tail) else ("semi",), b)
            return (self.marker_events(w) + ev, kind, R2)
        if self.else_marker is not None:
            ev, kind, R2 = self.step(("bang",) if self.tail_of.get(self.else_marker, self.tail) else ("semi",), b)
            return (self.marker_events(self.else_marker) + ev, kind, R2)
        return ([], "fail", None)


def spec_from_source(nmfu, src):
    """build the CaseSpec of a program of the form `parser { [greedy] case { ... } ";"; }` whose clause bodies are `n = [k];`"""
    tree = nmfu.parser.parse(src, start="start")
    pd = next(tree.find_data("parser_decl"))
    cs = pd.children[0]
    greedy = cs.data == "greedy_case_stmt"
    clauses = []
    tail_of = {}
    else_marker = None
    tails = []

    def clause(cl, prio):
        nonlocal else_marker
        terms = []
        has_else = False
        body = []
        for ch in cl.children:
            if ch.data == "else_predicate":
                has_else = True
            elif ch.data == "expr_predicate":
                t = pattern_term(ch.children[0])
                if t is None:
                    raise ValueError("pattern kind outside the reference")
                terms.append(t)
            else:
                body.append(ch)
        if body and body[0].data == "assign_stmt" and len(body) == 2 and body[1].data == "match_stmt":
            tails.append(True)
            body = body[:1]
        else:
            tails.append(False)
        if len(body) == 0:
            mk = -1 - len(tail_of)            # empty clause body: no marker event (a private negative id keeps the clauses apart)
        elif len(body) != 1 or body[0].data != "assign_stmt":
            raise ValueError("clause body is not the marker assignment")
        else:
            expr = body[0].children[1]
            mk = int(list(expr.find_data("math_num"))[0].children[0].value) if list(expr.find_data("math_num")) else int(expr.children[0].value)
        tail_of[mk] = tails[-1]
        if has_else:
            else_marker = mk
        if terms:
            clauses.append((terms, mk, prio))
    for blk in cs.children:
        if blk.data == "case_clause":
            clause(blk, 0)
        else:
            pr = int(blk.children[0].value)
            for cl in blk.children[1:]:
                clause(cl, pr)
    sp = CaseSpec(clauses, else_marker, greedy, tail=False, tail_of=tail_of) if len(set(tails)) != 1 else CaseSpec(clauses, else_marker, greedy, tail=tails[0])
    sp.tailpos = len(pd.children) == 1
    return sp


def check(nmfu, cctx, spec, limit=50000):
    """product search. returns (None, stats) or (violation message, stats)"""
    M = NF(nmfu, cctx)
    acc = M.acc
    seen = set()
    work = [(cctx.dfa.starting_state, spec.initial(), "")]
    n = 0
    while work:
        q, R, path = work.pop()
        key = (id(q), R)
        if key in seen:
            continue
        seen.add(key)
        if len(seen) > limit:
            return "search bound exceeded", n
        if (id(q) in acc) != spec.complete(R):
            return f"after {path!r} the machine is {'accepting' if id(q) in acc else 'not accepting'} but the case statement and the following \";\" are {'complete' if R[0] == 'done' else 'not complete'}", n
        for b in range(256):
            ev, kind, R2 = spec.step(R, b)
            if kind == "ambiguous":
                return f"after {path!r} two clauses of equal priority are complete but the program was accepted", n
            outs = M.nstep(q, chr(b))
            n += 1
            if len(outs) != 1:
                return f"after {path!r} on byte {b:#04x} the machine has data-dependent outcomes where the case statement has none", n
            cev, leaf = outs[0]
            if cev != ev:
                return (f"after {path!r} on byte {b:#04x}: the machine runs {cev or 'no clause'} but the clause whose pattern equals the consumed bytes prescribes {ev or 'no clause'}"), n
            if kind == "done":
                if leaf[0] not in ("stuck-accepting",):
                    return f"after {path!r} (complete) byte {b:#04x}: machine does {leaf[0]}", n
                continue
            if kind == "fail":
                if leaf[0] != "fail":
                    return f"after {path!r} byte {b:#04x} cannot continue any pattern (no-match error expected at this byte) but the machine does {leaf[0]}", n
                continue
            if leaf[0] != "consumed":
                return f"after {path!r} byte {b:#04x} should be consumed but the machine does {leaf[0]}", n
            k2 = (id(leaf[1]), R2)
            if k2 not in seen:
                work.append((leaf[1], R2, (path + chr(b))[-20:]))
    return None, n
