"""Eager-normal-form bisimulation between two compiled machines (C05, C13): exact over all 257 symbols, with data-dependent
outcomes (append overflow, conditions) as symbolic branches.  Written against the DFA classes only."""
from .core import table, symbols, symname


class NF:
    def __init__(self, nmfu, cctx, strict_done=False):
        self.n = nmfu
        self.dfa = cctx.dfa
        self.start_actions = list(cctx.start_actions)
        self.fail = cctx.generic_fail_state
        self.acc = set(id(s) for s in self.dfa.accepting_states)
        self.tabs = {}
        self.memo = {}
        self.limit = 4 * len(self.dfa.states) + 16

    def tab(self, s):
        if id(s) not in self.tabs:
            self.tabs[id(s)] = table(self.n, s)
        return self.tabs[id(s)]

    # ---- signatures (state references are returned separately so that they can be related, not compared) ----
    def esig(self, e):
        n = self.n
        if e is None:
            return None
        if isinstance(e, n.LiteralIntegerExpr):
            return ("lit", str(e.value), e.typ.name)
        if isinstance(e, n.OutIntegerExpr):
            return ("out", e.ref.name)
        if isinstance(e, n.StringLengthIntegerExpr):
            return ("len", e.ref.name)
        if isinstance(e, n.StringRefIntegerExpr):
            return ("idx", e.ref.name, self.esig(e.index))
        if isinstance(e, n.LastCharIntegerExpr):
            return ("last",)
        extra = tuple((a, str(getattr(e, a))) for a in ("negate", "divide", "op", "towards_left") if hasattr(e, a))
        return (type(e).__name__, extra, tuple(self.esig(c) for c in e.children))

    def csig(self, c):
        if isinstance(c, self.n.IntegerCondition):
            return ("int", self.esig(c.expr))
        return (type(c).__name__, getattr(c, "value", None))

    # ---- path consistency: what the events so far determine about the data ----
    EFFECTS = ("set", "setstr", "delete", "append", "hook", "yield")

    def facts(self, ev):
        """decided tests still valid at the end of ev.  Conservative: any effect forgets every condition; a buffer effect or hook forgets
        fullness.  Only used to drop branches that contradict an earlier test on the same path (never to add behaviour)."""
        f = {}
        for e in ev:
            k = e[0]
            if k == "full?":
                f[("full", e[1])] = e[2]
            elif k == "if" and e[1][0] != "ElseCondition":
                f[("if", e[1])] = True
            elif k == "ifnot":
                f[("if", e[1])] = False
            elif k in self.EFFECTS:
                for key in list(f):
                    if key[0] == "if" or k in ("hook", "yield") or (len(e) > 1 and key == ("full", e[1])):
                        del f[key]
        return f

    @staticmethod
    def lasso(prefix, period):
        """canonical form of the infinite event word prefix . period^omega"""
        prefix, period = list(prefix), list(period)
        if not period:
            return tuple(prefix), ()
        n = len(period)
        for d in range(1, n + 1):
            if n % d == 0 and period[:d] * (n // d) == period:
                period = period[:d]
                break
        while prefix and prefix[-1] == period[-1]:
            prefix.pop()
            period = [period[-1]] + period[:-1]
        return tuple(prefix), tuple(period)

    # ---- one normalised step ----
    def run_actions(self, actions, ev, sym, k_done, k_jump, out, absorbed):
        """walk `actions`; events appended to ev (copied on branch). k_done(ev) when all ran; k_jump(ev, state, kind) when control is redirected."""
        n = self.n
        if not actions:
            return k_done(ev)
        a, rest = actions[0], actions[1:]
        if isinstance(a, n.CustomFinishAction):
            out.append((ev, ("finish", a.result_code)))
            return
        if isinstance(a, n.FinishAction):
            out.append((ev, ("finish", None)))
            return
        if isinstance(a, n.CustomYieldAction):
            return k_jump(ev, None, ("yield", a.result_code))
        if isinstance(a, n.SetTo):
            return self.run_actions(rest, ev + [("set", a.into_storage.name, self.esig(a.value_expr))], sym, k_done, k_jump, out, absorbed)
        if isinstance(a, n.SetToStr):
            if len(a.value_expr) == 0:
                # assigning the empty string and `delete` have the same abstract effect (length 0, terminator); see lemma in vf/props/c05.py
                return self.run_actions(rest, ev + [("delete", a.into_storage.name)], sym, k_done, k_jump, out, absorbed)
            return self.run_actions(rest, ev + [("setstr", a.into_storage.name, repr(a.value_expr))], sym, k_done, k_jump, out, absorbed)
        if isinstance(a, n.DeleteBuf):
            return self.run_actions(rest, ev + [("delete", a.into_storage.name)], sym, k_done, k_jump, out, absorbed)
        if isinstance(a, n.CallHook):
            return self.run_actions(rest, ev + [("hook", a.name)], sym, k_done, k_jump, out, absorbed)
        if isinstance(a, (n.AppendTo, n.AppendCharTo)):
            what = ("byte",) if isinstance(a, n.AppendTo) else self.esig(a.append_value)
            known = self.facts(ev).get(("full", a.into_storage.name))
            if known is True:
                return k_jump(ev, a.end_target, ("oos",))
            if known is False:
                return self.run_actions(rest, ev + [("append", a.into_storage.name, what)], sym, k_done, k_jump, out, absorbed)
            k_jump(ev + [("full?", a.into_storage.name, True)], a.end_target, ("oos",))
            return self.run_actions(rest, ev + [("full?", a.into_storage.name, False), ("append", a.into_storage.name, what)], sym, k_done, k_jump, out, absorbed)
        if isinstance(a, n.BreakAction):
            loop_end = a.refers_to.end_state
            return self.run_actions(list(a.replacement_actions()), ev, sym, lambda ev2: k_jump(ev2, loop_end, ("break",)), k_jump, out, absorbed)
        if isinstance(a, n.ConditionalAction):
            neg = []
            fx = self.facts(ev)
            for c in a.conditions:
                cs = self.csig(c)
                known = fx.get(("if", cs))
                if known is False:
                    continue
                self.run_actions(list(a.sub_actions[c]), ev + neg + ([] if known else [("if", cs)]), sym,
                                 lambda ev2, rest=rest: self.run_actions(rest, ev2, sym, k_done, k_jump, out, absorbed), k_jump, out, absorbed)
                if known:
                    return
                neg = neg + [("ifnot", cs)]
            if not any(isinstance(c, n.ElseCondition) for c in a.conditions):
                self.run_actions(rest, ev + neg, sym, k_done, k_jump, out, absorbed)
            return
        out.append((ev + [("unknown-action", type(a).__name__)], ("stuck",)))

    def nstep(self, q, sym):
        key = (id(q), sym if isinstance(sym, str) else "End")
        if key in self.memo:
            return self.memo[key]
        out = []
        self._dispatch(q, sym, [], out, 0, consumed=False)
        self.memo[key] = out
        return out

    def _dispatch(self, q, sym, ev, out, depth, consumed, trail=()):
        n = self.n
        if depth > self.limit:
            out.append((ev, ("diverges",)))
            return
        if q is self.fail:
            out.append((ev, ("fail",)))
            return
        # the same state with the same decided facts, nothing consumed in between: the behaviour from here repeats for ever.
        # Reported as the canonical form of the infinite event word, so that it does not depend on where the cycle was entered.
        key = (id(q), frozenset(self.facts(ev).items()))
        for (k0, n0) in trail:
            if k0 == key:
                strip = lambda es: [e for e in es if e != ("oos-redirect",)]
                pre, per = self.lasso(strip(ev[:n0]), strip(ev[n0:]))
                out.append((list(pre), ("diverges", per)))
                return
        trail = trail + ((key, len(ev)),)
        if isinstance(q, n.DFConditionPoint):
            neg = []
            fx = self.facts(ev)
            for ct in q.transitions:
                cs = self.csig(ct.condition)
                known = fx.get(("if", cs))
                if known is False:
                    continue
                self._take(q, ct, sym, ev + neg + ([] if known else [("if", cs)]), out, depth, consumed, trail)
                if known:
                    return
                neg = neg + [("ifnot", cs)]
            if not any(isinstance(ct.condition, n.ElseCondition) for ct in q.transitions):
                out.append((ev + neg, ("fail",)))
            return
        t = self.tab(q).get(sym) if sym != "NEXT" else self._else_only(q)
        if t is not None and not isinstance(sym, str) and sym != "NEXT" and id(q) in self.acc and t.error_handling:
            # end-of-input in an accepting state whose End move is only the error route: the parse is complete, the error route is
            # not taken (this is how the generated end() reads the machine; the error mark is therefore part of the behaviour)
            t = None
        if t is None:
            out.append((ev, ("stuck-accepting" if id(q) in self.acc else "stuck",)))
            return
        self._take(q, t, sym, ev, out, depth, consumed, trail)

    def _skip_empty(self, p):
        """follow pure pass-through states that carry no action (they only exist as join points)"""
        n = 0
        while p is not None and id(p) not in self.acc and p is not self.fail and n < self.limit:
            t2 = self._else_only(p)
            if t2 is None or t2.actions:
                break
            p = t2.target
            n += 1
        return p

    def _else_only(self, q):
        """the single Else fall-through transition of a pure pass-through state (symbol independent), else None"""
        n = self.n
        if isinstance(q, n.DFConditionPoint) or len(q.transitions) != 1:
            return None
        t = q.transitions[0]
        if not any(v is n.DFTransition.Else for v in t.on_values) or not t.is_fallthrough:
            return None
        return t

    def _take(self, q, t, sym, ev, out, depth, consumed, trail=()):
        n = self.n
        is_end = not isinstance(sym, str) or sym == "NEXT" and False
        tgt = t.target

        def epilogue(ev2):
            if sym == "NEXT":
                # absorbing a pure pass-through state: control simply lands in the target
                out.append((ev2, ("next", tgt)))
                return
            if t.is_fallthrough:
                if tgt is None:
                    out.append((ev2, ("stuck",)))
                else:
                    self._dispatch(tgt, sym, ev2, out, depth + 1, consumed, trail)
            else:
                self._after_consume(tgt, sym, ev2, out, depth)

        def jump(ev2, state, kind):
            if kind[0] == "yield":
                # the call returns; on resumption the machine continues at the transition's target; remaining actions are not performed
                out.append((ev2 + [("yield", kind[1])], ("resume", not t.is_fallthrough and sym != "NEXT", self._skip_empty(tgt))))
                return
            if kind[0] == "oos":
                # handler takes over at the same symbol, nothing consumed, remaining actions skipped
                if sym == "NEXT":
                    out.append((ev2, ("redirect-next", state)))
                else:
                    self._dispatch(state, sym, ev2 + [("oos-redirect",)], out, depth + 1, consumed, trail)
                return
            if kind[0] == "break":
                if t.is_fallthrough:
                    if sym == "NEXT":
                        out.append((ev2, ("next", state)))
                    else:
                        self._dispatch(state, sym, ev2, out, depth + 1, consumed, trail)
                else:
                    self._after_consume(state, sym, ev2, out, depth)
                return
        self.run_actions(list(t.actions), ev, sym, epilogue, jump, out, False)

    def _after_consume(self, p, sym, ev, out, depth):
        """a byte (or End) has been consumed and the machine sits in p: absorb pure pass-through states eagerly"""
        if sym == "NEXT":
            out.append((ev, ("next", p)))
            return
        if isinstance(sym, str) is False:
            # end-of-input consumed by an `end` pattern: the verdict is acceptance of p (after pass-through states)
            pass
        steps = 0
        while p is not None and id(p) not in self.acc and p is not self.fail and steps < self.limit:
            t2 = self._else_only(p)
            if t2 is None:
                break
            # absorb t2 (symbol independent). Branching inside is expanded; a redirect ends the absorption.
            sub = []
            self._take(p, t2, "NEXT", [], sub, depth + 1, True)
            if len(sub) == 1 and sub[0][1][0] == "next":
                ev = ev + sub[0][0]
                p = sub[0][1][1]
                steps += 1
                continue
            # data dependent: expand every branch
            for (ev3, leaf) in sub:
                if leaf[0] == "next":
                    self._after_consume(leaf[1], sym, ev + ev3, out, depth + 1)
                elif leaf[0] == "finish":
                    # an action between two consumed bytes may run right after the previous byte (the permitted one-position slack)
                    out.append((ev + ev3, leaf))
                elif leaf[0] == "resume":
                    out.append((ev + ev3, ("resume", True, leaf[2])))
                else:
                    out.append((ev + ev3, ("after-consume",) + leaf))
            return
        out.append((ev, ("consumed", p)))


def compare(nmfu, A, B, max_pairs=20000):
    """bisimulation check between NF machines A and B. returns (ok, witness, stats)"""
    SY = symbols(nmfu)
    rel = set()
    work = []

    def relate(p, q, why):
        if p is None and q is None:
            return
        k = (id(p), id(q))
        if k in rel:
            return
        rel.add(k)
        work.append((p, q, why))
    # start actions
    if [ _asig(A, a) for a in A.start_actions] != [_asig(B, b) for b in B.start_actions]:
        return False, {"what": "start actions differ"}, {}
    relate(A.dfa.starting_state, B.dfa.starting_state, "start")
    npairs = 0
    nsteps = 0
    while work:
        p, q, why = work.pop()
        npairs += 1
        if npairs > max_pairs:
            return None, {"what": "pair bound exceeded"}, {"pairs": npairs}
        if p is None or q is None:
            return False, {"what": "one machine continues where the other has no state", "via": why}, {}
        if (id(p) in A.acc) != (id(q) in B.acc):
            return False, {"what": f"related states differ in acceptance ({id(p) in A.acc} vs {id(q) in B.acc})", "via": why,
                           "state_a": A.dfa.states.index(p) if p in A.dfa.states else None, "state_b": B.dfa.states.index(q) if q in B.dfa.states else None}, {}
        for s in SY:
            ra = A.nstep(p, s)
            rb = B.nstep(q, s)
            nsteps += 1
            if len(ra) != len(rb):
                return False, _wit(A, B, p, q, s, why, f"different number of data-dependent outcomes ({len(ra)} vs {len(rb)})", ra, rb), {}
            for (ea, la), (eb, lb) in zip(ra, rb):
                if ea != eb:
                    return False, _wit(A, B, p, q, s, why, "action/condition sequences differ", ra, rb), {}
                if la[0] != lb[0]:
                    return False, _wit(A, B, p, q, s, why, f"outcome kinds differ ({la[0]} vs {lb[0]})", ra, rb), {}
                kind = la[0]
                w2 = f"{why} -{symname(s)}->"
                if kind in ("consumed",):
                    relate(la[1], lb[1], w2)
                elif kind == "resume":
                    if la[1] != lb[1]:
                        return False, _wit(A, B, p, q, s, why, "yield returns with different consumption", ra, rb), {}
                    relate(la[2], lb[2], w2)
                elif kind == "finish":
                    if la[1] != lb[1]:
                        return False, _wit(A, B, p, q, s, why, "different finish codes", ra, rb), {}
                elif kind in ("stuck", "stuck-accepting"):
                    pass
                elif kind == "diverges":
                    if la[1:] != lb[1:]:
                        return False, _wit(A, B, p, q, s, why, "the machines repeat different actions for ever without consuming", ra, rb), {}
                elif kind == "after-consume":
                    if la[1] != lb[1]:
                        return False, _wit(A, B, p, q, s, why, "outcomes after consumption differ", ra, rb), {}
                    for x, y in zip(la[2:], lb[2:]):
                        if hasattr(x, "transitions") or hasattr(y, "transitions"):
                            relate(x, y, w2)
                        elif x != y:
                            return False, _wit(A, B, p, q, s, why, "outcomes after consumption differ", ra, rb), {}
                elif kind in ("redirect-next", "next"):
                    relate(la[1], lb[1], w2)
    return True, None, {"pairs": npairs, "steps": nsteps}


def _asig(M, a):
    out = []
    M.run_actions([a], [], "a", lambda ev: out.append(("done", tuple(ev))), lambda ev, st, kind: out.append(("jump", tuple(ev), kind)), out, False)
    return repr(out)


def _wit(A, B, p, q, s, why, what, ra, rb):
    def idx(M, st):
        try:
            return M.dfa.states.index(st)
        except ValueError:
            return None

    def show(r):
        return [(list(map(str, ev))[:12], tuple(str(x) if not hasattr(x, "transitions") else "<state>" for x in leaf)) for ev, leaf in r][:6]
    return {"what": what, "symbol": symname(s), "state_a": idx(A, p), "state_b": idx(B, q), "reached_via": why[-200:], "outcomes_a": show(ra), "outcomes_b": show(rb)}
