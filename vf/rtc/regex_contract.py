"""Contract on RegexMatch.convert / BinaryRegexMatch.convert (C07): the produced DFA accepts exactly the language of the
regular expression over all 256 byte values, leaves to the error path at exactly the first byte after which no member of the
language is reachable, and never consumes end-of-input.  The language is defined by an independent Brzozowski-derivative
semantics over the Lark parse tree (Lark itself is assumed)."""
import string
from .core import *
from . import core

FULL = (1 << 256) - 1


def mask(chars):
    m = 0
    for c in chars:
        o = ord(c) if isinstance(c, str) else c
        if not (0 <= o < 256):
            raise ValueError("character outside the byte range in a regular expression")
        m |= 1 << o
    return m


CLASSES = {"n": mask("\n"), "t": mask("\t"), "r": mask("\r"), " ": mask(" "),
           "w": mask(string.ascii_letters + string.digits + "_"), "d": mask(string.digits), "s": mask(" \t\n\r\x0b\x0c")}
for k in "wds":
    CLASSES[k.upper()] = FULL & ~CLASSES[k]

# regex terms: ("empty",) no string; ("eps",); ("cls", mask); ("cat", a, b); ("alt", frozenset); ("star", a)
EMPTY, EPS = ("empty",), ("eps",)


def cat(a, b):
    if a == EMPTY or b == EMPTY:
        return EMPTY
    if a == EPS:
        return b
    if b == EPS:
        return a
    if a[0] == "cat":
        return cat(a[1], cat(a[2], b))
    return ("cat", a, b)


def alt(*xs):
    s = set()
    for x in xs:
        if x == EMPTY:
            continue
        if x[0] == "alt":
            s |= x[1]
        else:
            s.add(x)
    # merge classes
    cls = 0
    rest = set()
    for x in s:
        if x[0] == "cls":
            cls |= x[1]
        else:
            rest.add(x)
    if cls:
        rest.add(("cls", cls))
    if not rest:
        return EMPTY
    if len(rest) == 1:
        return next(iter(rest))
    return ("alt", frozenset(rest))


def star(a):
    if a in (EMPTY, EPS):
        return EPS
    if a[0] == "star":
        return a
    return ("star", a)


def nullable(r):
    k = r[0]
    if k == "eps" or k == "star":
        return True
    if k in ("empty", "cls"):
        return False
    if k == "cat":
        return nullable(r[1]) and nullable(r[2])
    return any(nullable(x) for x in r[1])


def deriv(r, b):
    k = r[0]
    if k in ("empty", "eps"):
        return EMPTY
    if k == "cls":
        return EPS if (r[1] >> b) & 1 else EMPTY
    if k == "cat":
        d = cat(deriv(r[1], b), r[2])
        if nullable(r[1]):
            return alt(d, deriv(r[2], b))
        return d
    if k == "alt":
        return alt(*[deriv(x, b) for x in r[1]])
    return cat(deriv(r[1], b), r)


def first_classes(r):
    """partition of 0..255 into blocks on which deriv(r, .) is constant (coarse: derived from the class masks occurring in r)"""
    masks = set()

    def walk(x):
        if x[0] == "cls":
            masks.add(x[1])
        elif x[0] == "cat":
            walk(x[1])
            if nullable(x[1]):
                walk(x[2])
        elif x[0] == "alt":
            for y in x[1]:
                walk(y)
        elif x[0] == "star":
            walk(x[1])
    walk(r)
    blocks = [FULL]
    for m in masks:
        nb = []
        for bl in blocks:
            a, c = bl & m, bl & ~m
            if a:
                nb.append(a)
            if c:
                nb.append(c)
        blocks = nb
    return blocks


def from_tree(tree, binary):
    """denotation of a Lark regex parse tree"""
    import lark
    data = tree.data
    if data.startswith("binary_"):
        data = data[len("binary_"):]

    def tok_char(tok):
        if binary:
            return int(tok.value, 16)
        v = tok.value
        return ord(v[1]) if v[0] == "\\" else ord(v[0])
    if data in ("regex", "regex_group"):
        r = EPS
        for ch in reversed(tree.children):
            r = cat(from_tree(ch, binary), r)
        return r
    if data == "regex_alternation":
        return alt(*[from_tree(ch, binary) for ch in tree.children])
    if data == "regex_raw_match":
        return ("cls", 1 << tok_char(tree.children[0]))
    if data == "regex_char_class":
        return ("cls", CLASSES[tree.children[0].value[0]])
    if data == "regex_any":
        return ("cls", FULL)
    if data in ("regex_set", "regex_inverted_set"):
        m = 0
        for ch in tree.children:
            if isinstance(ch, lark.Token):
                m |= 1 << tok_char(ch)
            elif ch.data.endswith("set_range"):
                lo, hi = tok_char(ch.children[0]), tok_char(ch.children[1])
                for x in range(lo, hi + 1):
                    m |= 1 << x
            else:
                m |= CLASSES[ch.children[0].value[0]]
        if data == "regex_inverted_set":
            m = FULL & ~m
        return ("cls", m) if m else EMPTY
    if data == "regex_operation":
        sub = from_tree(tree.children[0], binary)
        op = tree.children[1].value
        if op == "*":
            return star(sub)
        if op == "+":
            return cat(sub, star(sub))
        return alt(sub, EPS)
    if data == "regex_exact_repeat":
        sub = from_tree(tree.children[0], binary)
        n = int(tree.children[1].value)
        r = EPS
        for _ in range(n):
            r = cat(sub, r)
        return r
    if data == "regex_at_least_repeat":
        sub = from_tree(tree.children[0], binary)
        n = int(tree.children[1].value)
        r = star(sub)
        for _ in range(n):
            r = cat(sub, r)
        return r
    if data == "regex_range_repeat":
        sub = from_tree(tree.children[0], binary)
        lo, hi = int(tree.children[1].value), int(tree.children[2].value)
        r = EPS
        for _ in range(max(0, hi - lo)):
            r = alt(cat(sub, r), EPS)
        for _ in range(lo):
            r = cat(sub, r)
        if hi < lo:
            # {n,m} with m < n: the documented dialect has no meaning for it; the desugaring yields r^n
            pass
        return r
    raise ValueError(f"regex construct {tree.data} unknown to the specification")


def check_dfa_against(nmfu, dfa, err, r0, limit=20000):
    """product search of the produced DFA against the derivative automaton. returns None or a violation message"""
    End = nmfu.DFTransition.End
    acc = set(id(x) for x in dfa.accepting_states)
    seen = {}
    work = [(dfa.starting_state, r0, "")]
    nchk = 0
    while work:
        q, r, path = work.pop()
        key = (id(q), r)
        if key in seen:
            continue
        seen[key] = True
        if len(seen) > limit:
            return "search bound exceeded", nchk
        if (id(q) in acc) != nullable(r):
            return (f"after {path!r} the matcher is {'accepting' if id(q) in acc else 'not accepting'} but the consumed bytes are {'' if nullable(r) else 'not '}in the language"), nchk
        tab = table(nmfu, q)
        te = tab[End]
        nchk += 1
        if te is not None and not te.error_handling:
            return f"after {path!r} end-of-input is consumed by the pattern (data patterns, wildcard and inverted sets included, must never match end-of-input)", nchk
        for block in first_classes(r):
            # deriv is constant on the block; the DFA may still split it
            b0 = (block & -block).bit_length() - 1
            d = deriv(r, b0)
            bb = block
            while bb:
                b = (bb & -bb).bit_length() - 1
                bb &= bb - 1
                t = tab[chr(b)]
                nchk += 1
                dead_out = t is None or t.error_handling or t.target is err
                if d == EMPTY:
                    if not dead_out:
                        return f"after {path!r} byte {b:#04x} is consumed although no member of the language continues with it (mismatch must be reported at this byte)", nchk
                else:
                    if dead_out:
                        return f"after {path!r} byte {b:#04x} is rejected although members of the language continue with it", nchk
                    if t.is_fallthrough:
                        return f"after {path!r} byte {b:#04x} is matched by a fall-through (non-consuming) transition", nchk
                    k2 = (id(t.target), d)
                    if k2 not in seen:
                        work.append((t.target, d, (path + chr(b))[-24:]))
    return None, nchk


def install(nmfu):
    REC = core.REC

    def mk_init(orig):
        def __init__(self, regex_parse_tree):
            self._vf_tree = regex_parse_tree
            return orig(self, regex_parse_tree)
        return __init__
    wrap(nmfu.RegexMatch, "__init__", mk_init)

    def mk_convert(orig):
        def convert(self, current_error_handlers):
            out = orig(self, current_error_handlers)
            if not REC.enabled:
                return out
            try:
                r0 = from_tree(self._vf_tree, isinstance(self, nmfu.BinaryRegexMatch))
            except ValueError as e:
                REC.fail("RegexMatch.convert/C07-spec", str(e))
                return out
            err = current_error_handlers[nmfu.ErrorReasons.NO_MATCH]
            msg, n = check_dfa_against(nmfu, out, err, r0)
            if msg:
                REC.fail("RegexMatch.convert/C07-language", msg)
            else:
                REC.ok("RegexMatch.convert", n)
            return out
        return convert
    wrap(nmfu.RegexMatch, "convert", mk_convert)
