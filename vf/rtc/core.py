"""Run-time contracts (bounded-exact grade) on the DFA-building functions of nmfu.

The wrappers snapshot the tables they need, call the REAL function, and evaluate the post-condition exactly:
all 257 symbols (256 bytes + End) for every touched state.  Installed by patching the imported module's attributes
in the checking process only; /repo is untouched."""
import functools, itertools

SYMS = None


def symbols(nmfu):
    global SYMS
    if SYMS is None:
        SYMS = [chr(i) for i in range(256)] + [nmfu.DFTransition.End]
    return SYMS


class Recorder:
    def __init__(self):
        self.evals = {}
        self.fails = []
        self.ctx = ""
        self.depth = 0
        self.enabled = True

    def ok(self, contract, n=1):
        self.evals[contract] = self.evals.get(contract, 0) + n

    def fail(self, contract, msg, detail=None):
        self.evals[contract] = self.evals.get(contract, 0) + 1
        self.fails.append({"contract": contract, "msg": msg, "ctx": self.ctx, "detail": detail or {}})


REC = Recorder()


def beh(t):
    """behaviour tuple of a transition (identity of target/actions matters)"""
    if t is None:
        return None
    return (id(t.target), bool(t.is_fallthrough), bool(t.error_handling), tuple(id(a) for a in t.actions))


def lookup(nmfu, state, sym):
    Else = nmfu.DFTransition.Else
    for t in state.transitions:
        for v in t.on_values:
            if v is sym or (v == sym and isinstance(v, str) and isinstance(sym, str)):
                return t
    if sym is not Else:
        for t in state.transitions:
            for v in t.on_values:
                if v is Else:
                    return t
    return None


def table(nmfu, state):
    """symbol -> transition object actually selected (first match in list order, Else as fallback)"""
    Else = nmfu.DFTransition.Else
    first = {}
    els = None
    for t in state.transitions:
        for v in t.on_values:
            if v is Else:
                if els is None:
                    els = t
            else:
                k = v if isinstance(v, str) else id(v)
                if k not in first:
                    first[k] = t
    End = nmfu.DFTransition.End
    out = {}
    for s in symbols(nmfu):
        k = s if isinstance(s, str) else id(s)
        out[s] = first.get(k, els)
    return out


def sig_state(state):
    """structural signature of a state's transition list (order-sensitive)"""
    return tuple((tuple(sorted((v if isinstance(v, str) else "~" + repr(v)) for v in t.on_values)), id(t.target), bool(t.is_fallthrough),
                  bool(t.error_handling), tuple(id(a) for a in t.actions), id(getattr(t, "condition", None))) for t in state.transitions)


def symname(s):
    return repr(s) if isinstance(s, str) else "End"


def ri_check(nmfu, state, contract):
    """RI1: no symbol on two transitions; RI2: no symbol twice in one on_values"""
    if isinstance(state, nmfu.DFConditionPoint):
        return True
    seen = {}
    for ti, t in enumerate(state.transitions):
        local = set()
        for v in t.on_values:
            k = v if isinstance(v, str) else id(v)
            if k in local:
                REC.fail(contract, f"RI2: symbol {symname(v) if isinstance(v, str) else v!r} listed twice on one transition")
                return False
            local.add(k)
            if k in seen and seen[k] != ti:
                REC.fail(contract, f"RI1: symbol {symname(v) if isinstance(v, str) else v!r} listed on two transitions of one state")
                return False
            seen[k] = ti
    return True


_installed = []


def wrap(cls, name, maker):
    orig = cls.__dict__[name]
    new = maker(orig)
    functools.update_wrapper(new, orig)
    setattr(cls, name, new)
    _installed.append((cls, name, orig))


def uninstall():
    while _installed:
        cls, name, orig = _installed.pop()
        setattr(cls, name, orig)


def reachable(nmfu, start):
    """states reachable from start (own implementation; honours action overrides like the documented machine semantics)"""
    M = nmfu.ActionOverrideMode
    seen = {}
    stack = [start]
    while stack:
        st = stack.pop()
        if st is None or id(st) in seen:
            continue
        seen[id(st)] = st
        for t in st.transitions:
            real = True
            for a in t.actions:
                m = a.get_target_override_mode()
                if m == M.ALWAYS_GOTO_UNDEFINED:
                    real = False
                    break
                if m == M.ALWAYS_GOTO_OTHER:
                    real = False
                    stack.extend(a.get_target_override_targets())
                    break
                if m == M.MAY_GOTO_TARGET:
                    stack.extend(a.get_target_override_targets())
            if real:
                stack.append(t.target)
    return seen
