"""Contracts on DFState.transition, DFA.append_after, DFA.chain_actions_into, CaseNode._merge, OptionalNode.convert,
LoopNode.convert, WaitMatch.convert (DESIGN.md section 4: C01, C08, C09, C16)."""
from .core import *
from . import core


def _frontier(nmfu, start):
    """states at which the next byte can be dispatched when control enters `start`: condition points (proxy states) are passed through
    along their transitions and the jump targets of the actions on them"""
    M = nmfu.ActionOverrideMode
    seen, out, todo = set(), [], [start]
    while todo:
        q = todo.pop()
        if id(q) in seen:
            continue
        seen.add(id(q))
        if isinstance(q, nmfu.DFProxyState):
            for t in q.transitions:
                todo.append(t.target)
                for a in t.actions:
                    if a.get_target_override_mode() in (M.MAY_GOTO_TARGET, M.ALWAYS_GOTO_OTHER):
                        todo.extend(a.get_target_override_targets())
        else:
            out.append(q)
    return out


def install(nmfu):
    REC = core.REC
    Else, End = nmfu.DFTransition.Else, nmfu.DFTransition.End
    SY = symbols(nmfu)

    # ---------------- DFState.transition (C09: duplicate guard; RI1/RI2) ----------------
    def mk_transition(orig):
        def transition(self, transition, allow_replace=False, allow_replace_if=None, collapse_else=True):
            if not REC.enabled or isinstance(self, nmfu.DFConditionPoint):
                return orig(self, transition, allow_replace, allow_replace_if, collapse_else)
            pre = table(nmfu, self)
            pre_beh = {s: beh(t) for s, t in pre.items()}
            pre_eh = {s: (t.error_handling if t is not None else None) for s, t in pre.items()}
            new_vals = list(transition.on_values)
            nb = (id(transition.target), bool(transition.is_fallthrough), bool(transition.error_handling))
            new_actions = tuple(id(a) for a in transition.actions)
            replace_any = bool(allow_replace) or allow_replace_if is not None
            r = orig(self, transition, allow_replace, allow_replace_if, collapse_else)
            # post (normal return)
            ri_check(nmfu, self, "DFState.transition/RI")
            post = table(nmfu, self)
            newset = set(v if isinstance(v, str) else id(v) for v in new_vals)
            has_else = any(v is Else for v in new_vals)
            for s in SY:
                k = s if isinstance(s, str) else id(s)
                pb, qb = pre_beh[s], beh(post[s])
                explicit_new = k in newset
                if explicit_new:
                    # the new transition's behaviour must now apply, or an identical-behaviour entry was kept (duplicate guard)
                    if qb is None or qb[:3] != nb:
                        REC.fail("DFState.transition/new-symbol-applies", f"after adding a transition on {symname(s)} the state does not take it (has {qb}, wanted {nb})")
                        return r
                    if not replace_any and pb is not None and pb[:3] != nb and pre[s] is not None and any((v is s or v == s) for v in pre[s].on_values if isinstance(v, str) or v is s):
                        REC.fail("DFState.transition/no-silent-replace", f"symbol {symname(s)} was explicitly routed elsewhere and got replaced although replacement was not allowed")
                        return r
                else:
                    if has_else and (pb is None or pre[s] is None or not any((v is s or (isinstance(v, str) and v == s)) for v in pre[s].on_values)):
                        continue   # symbol falls under the new/old Else; covered by the Else entry itself
                    if pb != qb and not (pb is not None and qb is not None and pb[:3] == qb[:3]):
                        REC.fail("DFState.transition/frame", f"symbol {symname(s)} not mentioned by the new transition changed behaviour {pb} -> {qb}")
                        return r
            REC.ok("DFState.transition")
            return r
        return transition
    wrap(nmfu.DFState, "transition", mk_transition)

    # ---------------- DFA.append_after (C01 sequencing, C09 join-time unambiguity) ----------------
    def check_only_call(orig, self, chained_dfa, sub_states):
        """append_after(check_only=True): nothing is joined, only the ambiguity test is made.  Contract: a normal return => no byte on
        which a sub-state continues and the second part (through its condition points, if it begins with any) starts elsewhere;
        and no state of either machine is modified (frame)."""
        subs = list(self.accepting_states if sub_states is None else sub_states)
        A_beh = {id(q): {s: beh(t) for s, t in table(nmfu, q).items()} for q in subs if not isinstance(q, nmfu.DFProxyState)}
        front = [{s: beh(t) for s, t in table(nmfu, f).items()} for f in _frontier(nmfu, chained_dfa.starting_state)]
        frame = {id(q): sig_state(q) for q in list(self.states) + list(chained_dfa.states)}
        REC.enabled = False
        try:
            r = orig(self, chained_dfa, sub_states, check_only=True)
        finally:
            REC.enabled = True
        for qid, tab_ in A_beh.items():
            for s in SY:
                a = tab_[s]
                if a is None or a[2]:
                    continue
                for fb in front:
                    b = fb[s]
                    if b is not None and not b[2] and b[0] != a[0]:
                        REC.fail("DFA.append_after/C09-no-conflict", f"check-only join passed although on {symname(s)} the first part continues AND the second part starts: ambiguous program accepted silently",
                                 {"symbol": symname(s)})
                        return r
        for q in list(self.states) + list(chained_dfa.states):
            if id(q) in frame and sig_state(q) != frame[id(q)]:
                REC.fail("DFA.append_after/C01-frame", "a check-only join modified a state")
                return r
        REC.ok("DFA.append_after", 257 * max(1, len(A_beh)))
        return r

    def mk_append_after(orig):
        def append_after(self, chained_dfa, sub_states=None, mark_accept=True, chain_actions=None, check_only=False, **more):
            if not REC.enabled or more:
                return orig(self, chained_dfa, sub_states, mark_accept, chain_actions, check_only=check_only, **more)
            if check_only:
                return check_only_call(orig, self, chained_dfa, sub_states)
            subs = list(self.accepting_states if sub_states is None else sub_states)
            chain = list(chain_actions or [])
            A_tabs = {id(q): table(nmfu, q) for q in subs}
            A_beh = {id(q): {s: beh(t) for s, t in A_tabs[id(q)].items()} for q in subs}
            A_states = list(self.states)
            sub_ids = set(id(q) for q in subs)
            frame = {id(q): sig_state(q) for q in A_states if id(q) not in sub_ids}
            accA = list(self.accepting_states)
            accB = list(chained_dfa.accepting_states)
            B_states_pre = list(chained_dfa.states)
            Bstart_pre = chained_dfa.starting_state
            b_accepts_empty_pre = Bstart_pre in chained_dfa.accepting_states
            incoming_pre = None
            if chain and b_accepts_empty_pre:
                incoming_pre = {}
                for st in self.dfs():
                    for t in st.transitions:
                        if id(t.target) in sub_ids:
                            incoming_pre[id(t)] = (t, tuple(id(a) for a in t.actions))
            # a second part that begins with condition points (if / elif / else): its possible first states are computed here, from the
            # pre-state, independently of the stand-in start state the function builds for itself
            front_beh = None
            if isinstance(Bstart_pre, nmfu.DFProxyState):
                front_beh = [{s: beh(t) for s, t in table(nmfu, f).items()} for f in _frontier(nmfu, Bstart_pre)]
            REC.enabled = False   # inner DFState.transition calls are checked by the table contract below
            try:
                r = orig(self, chained_dfa, sub_states, mark_accept, chain_actions)
            finally:
                REC.enabled = True
            if front_beh is not None:
                for q in subs:
                    for s in SY:
                        a = A_beh[id(q)][s]
                        if a is None or a[2]:
                            continue
                        for fb in front_beh:
                            b = fb[s]
                            if b is not None and not b[2] and b[0] != a[0]:
                                REC.fail("DFA.append_after/C09-no-conflict", f"joined although on {symname(s)} the first part continues AND one branch of the condition the second part begins with starts: "
                                         "ambiguous program accepted silently", {"symbol": symname(s)})
                                return r
                REC.ok("DFA.append_after", 257 * len(subs))
            Bs = chained_dfa.starting_state
            B_tab = table(nmfu, Bs)
            chain_ids = tuple(id(a) for a in chain)
            into_mode = bool(chain) and (Bs in accB)
            eff_chain = () if into_mode else chain_ids
            # entry mode: the chained actions meet a first part whose own starting state is joined and a second part that can be passed
            # through; nothing enters that state by a transition, so the actions sit on everything that leaves it: in front of the second
            # part's starts, and on a fall-through (no error) to a fresh accepting state wherever neither part continues
            start_pre = A_states[0] if False else None
            entry_state = self.starting_state if (into_mode and mark_accept and any(q is self.starting_state for q in subs)
                                                  and not isinstance(self.starting_state, nmfu.DFConditionPoint)) else None
            # C09: normal return => no one-byte conflict
            for q in subs:
                post = table(nmfu, q)
                if q is entry_state:
                    acc_post = set(id(x) for x in self.accepting_states)
                    if id(q) in acc_post:
                        REC.fail("DFA.append_after/C01-entry-chain", "the joined starting state is still accepting: passing straight through it would skip the chained actions")
                        return r
                    for s in SY:
                        a = A_beh[id(q)][s]
                        bt = B_tab[s]
                        n = beh(post[s])
                        if a is not None and not a[2]:
                            if bt is not None and not bt.error_handling and id(bt.target) != a[0]:
                                REC.fail("DFA.append_after/C09-no-conflict", f"joined although on {symname(s)} the first part continues AND the second part starts: ambiguous program accepted silently", {"symbol": symname(s)})
                                return r
                            if n is None or n[0] != a[0] or n[2]:
                                REC.fail("DFA.append_after/C01-A-continues", f"on {symname(s)} the first part's continuation was replaced ({a} -> {n})", {"symbol": symname(s)})
                                return r
                            continue
                        if bt is not None and not bt.error_handling:
                            want = (id(bt.target), bool(bt.is_fallthrough), False, chain_ids + tuple(id(x) for x in bt.actions))
                            if n != want:
                                REC.fail("DFA.append_after/C01-B-starts", f"on {symname(s)} the second part should start with the chained actions first: have {n}, want {want}", {"symbol": symname(s)})
                                return r
                            continue
                        # neither part continues: fall through (no error) to an accepting state, the chained actions last
                        if n is None or not n[1] or n[2] or n[0] not in acc_post or n[3][-len(chain_ids):] != chain_ids:
                            REC.fail("DFA.append_after/C01-entry-chain", f"on {symname(s)} neither part continues: the chained actions must run on a fall-through to an accepting state: have {n}")
                            return r
                    REC.ok("DFA.append_after", 257)
                    continue
                ri_check(nmfu, q, "DFA.append_after/RI")
                for s in SY:
                    a = A_beh[id(q)][s]
                    bt = B_tab[s]
                    n = beh(post[s])
                    if a is not None and not a[2]:
                        if bt is not None and not bt.error_handling and id(bt.target) != a[0]:
                            REC.fail("DFA.append_after/C09-no-conflict", f"joined although on {symname(s)} the first part continues (to state {a[0]}) AND the second part starts (to {id(bt.target)}): ambiguous program accepted silently",
                                     {"symbol": symname(s)})
                            return r
                        if n is None or n[0] != a[0] or n[2]:
                            REC.fail("DFA.append_after/C01-A-continues", f"on {symname(s)} the first part's continuation was replaced ({a} -> {n})", {"symbol": symname(s)})
                            return r
                        continue
                    if bt is not None and not bt.error_handling:
                        want = (id(bt.target), bool(bt.is_fallthrough), False, eff_chain + tuple(id(x) for x in bt.actions))
                        if n != want:
                            REC.fail("DFA.append_after/C01-B-starts", f"on {symname(s)} the second part should start (with the chained actions once, first): have {n}, want {want}", {"symbol": symname(s)})
                            return r
                        continue
                    if bt is not None:
                        want3 = (id(bt.target), bool(bt.is_fallthrough), bool(bt.error_handling))
                        wact = eff_chain + tuple(id(x) for x in bt.actions)
                        okk = n is not None and n[:3] == want3 and (n[3] == wact or (a is not None and a[:3] == want3 and n[3] == a[3]))
                        if not okk:
                            REC.fail("DFA.append_after/C01-B-error-path", f"on {symname(s)} the second part's error handling should apply: have {n}, want {want3}+{wact}", {"symbol": symname(s)})
                            return r
                        continue
                    if n != a:
                        REC.fail("DFA.append_after/C01-untouched", f"on {symname(s)} nothing of the second part applies but behaviour changed {a} -> {n}", {"symbol": symname(s)})
                        return r
            # frame: other states of A untouched (chain-into mode may touch actions of transitions entering the sub-states)
            for q in A_states:
                if id(q) in frame and sig_state(q) != frame[id(q)]:
                    if into_mode:
                        continue
                    REC.fail("DFA.append_after/frame", "a state outside sub_states was modified")
                    return r
            if into_mode and incoming_pre is not None:
                for tid, (t, acts) in incoming_pre.items():
                    now = tuple(id(a) for a in t.actions)
                    if entry_state is not None and t.target is entry_state:
                        if now != acts:
                            REC.fail("DFA.append_after/C01-chain-into-once", "a transition entering the joined starting state was given the chained actions although they run on the way out of that state")
                            return r
                        continue
                    if now != acts + chain_ids:
                        REC.fail("DFA.append_after/C01-chain-into-once", "chained actions are not exactly once at the end of a transition entering the joined states")
                        return r
            # adoption + accepting set
            for st in B_states_pre:
                if st not in self.states:
                    REC.fail("DFA.append_after/adopts-states", "a state of the second part was not adopted")
                    return r
            if mark_accept:
                want_acc = [q for q in accA if id(q) not in sub_ids]
                if Bs in accB:
                    want_acc += subs
                want_acc += accB
                have_acc = set(map(id, self.accepting_states))
                if entry_state is not None:
                    known = set(map(id, A_states)) | set(map(id, B_states_pre))
                    fresh = [x for x in self.accepting_states if id(x) not in known]
                    want_ids = set(map(id, want_acc)) - {id(entry_state)}
                    if len(fresh) != 1 or have_acc - {id(fresh[0])} != want_ids or fresh[0].transitions:
                        REC.fail("DFA.append_after/accepting-set", "entry mode: accepting set is not (acc(A) - joined) + acc(B) + joined-without-the-start + one fresh pass-through end state")
                        return r
                elif sorted(map(id, set(want_acc))) != sorted(map(id, set(self.accepting_states))):
                    REC.fail("DFA.append_after/accepting-set", "accepting set after the join is not (acc(A) - joined) + acc(B) [+ joined if B accepts the empty string]")
                    return r
            REC.ok("DFA.append_after", len(subs) * len(SY))
            return r
        return append_after
    wrap(nmfu.DFA, "append_after", mk_append_after)

    # ---------------- OptionalNode / LoopNode exceptional posts (C09) ----------------
    def mk_optional(orig):
        def convert(self, current_error_handlers):
            # wrap sub_contents.convert to learn whether its start was accepting
            info = {}
            sub = self.sub_contents
            sub_orig = sub.convert

            def spy(h):
                d = sub_orig(h)
                info["start_accepting"] = d.starting_state in d.accepting_states
                return d
            sub.convert = spy
            try:
                r = orig(self, current_error_handlers)
            finally:
                try:
                    del sub.convert
                except AttributeError:
                    pass
            if info.get("start_accepting"):
                REC.fail("OptionalNode.convert/C09", "optional whose body can match the empty string was accepted")
            else:
                REC.ok("OptionalNode.convert")
            if self.next is None:
                # skipping = leaving without consuming.  Either the start state is accepting (nothing has to run on the way out), or every
                # symbol that does not begin the contents falls through (no error) to an accepting state; when actions follow the optional,
                # they must be the last thing each of those fall-throughs does
                st = r.starting_state
                fa = list(self.finish_actions)
                if st in r.accepting_states:
                    if fa:
                        REC.fail("OptionalNode.convert/C01-skip-keeps-actions", "actions following an optional at the end of a block are not performed when the contents are skipped")
                elif isinstance(st, nmfu.DFConditionPoint):
                    REC.fail("OptionalNode.convert/C01-skippable", "optional at the end of a sequence starts in a condition point that is not accepting")
                else:
                    tab = table(nmfu, st)
                    nskip = 0
                    for sym in symbols(nmfu):
                        t = tab[sym]
                        if t is None:
                            REC.fail("OptionalNode.convert/C01-skippable", f"optional at the end of a sequence: no move on {symname(sym)} and the start state is not accepting")
                            break
                        if not t.is_fallthrough and not t.error_handling:
                            continue            # the contents begin
                        nskip += 1
                        if t.error_handling or t.target not in r.accepting_states:
                            REC.fail("OptionalNode.convert/C01-skippable", f"optional at the end of a sequence: on {symname(sym)} the contents cannot be skipped (error path / non-accepting target)")
                            break
                        if fa and list(t.actions)[-len(fa):] != fa:
                            REC.fail("OptionalNode.convert/C01-skip-keeps-actions", f"actions following an optional at the end of a block are not performed when it is skipped on {symname(sym)}")
                            break
                    if nskip == 0:
                        REC.fail("OptionalNode.convert/C01-skippable", "optional at the end of a sequence can never be skipped")
            return r
        return convert
    wrap(nmfu.OptionalNode, "convert", mk_optional)

    def mk_loop(orig):
        def convert(self, current_error_handlers):
            child = self.child_node
            info = {}
            if child is not None:
                child_orig = child.convert

                def spy(h):
                    d = child_orig(h)
                    bad = False
                    accs = list(d.accepting_states)
                    # the reroute of break transitions happens after this point; accept->accept edges are judged on the final body
                    info["dfa"] = d
                    # pre-state for the repeat-or-continue clause: what each accepting state of the body does per symbol, and what the
                    # states the body can begin in do (computed here, before the loop joins the body to itself)
                    info["acc_beh"] = {id(q): {s_: beh(t_) for s_, t_ in table(nmfu, q).items()} for q in accs if not isinstance(q, nmfu.DFProxyState)}
                    info["start_beh"] = [{s_: beh(t_) for s_, t_ in table(nmfu, f).items()} for f in _frontier(nmfu, d.starting_state)]
                    return d
                child.convert = spy
            try:
                r = orig(self, current_error_handlers)
            finally:
                if child is not None:
                    try:
                        del child.convert
                    except AttributeError:
                        pass
            d = info.get("dfa")
            if d is not None and "acc_beh" in info:
                for qid, tab_ in info["acc_beh"].items():
                    for s in SY:
                        a = tab_[s]
                        if a is None or a[2]:
                            continue
                        for fb in info["start_beh"]:
                            b = fb[s]
                            if b is not None and not b[2] and b[0] != a[0]:
                                REC.fail("LoopNode.convert/C09-repeat-or-continue", f"loop accepted although on {symname(s)} an accepting state of the body continues AND the next iteration begins "
                                         "(different targets): ambiguous program accepted silently", {"symbol": symname(s)})
                                return r
                REC.ok("LoopNode.convert", 257)
            if d is not None:
                accs = set(id(x) for x in d.accepting_states)
                for a in d.accepting_states:
                    for t in a.transitions:
                        if id(t.target) in accs and t.target is not d.starting_state and not t.is_fallthrough:
                            REC.fail("LoopNode.convert/C09", "loop body where an accepting state continues into another accepting state was accepted (loop or continue is ambiguous)")
                            return r
                # every accepting state of the body loops back: its non-continuing symbols fall through to the body start
                for a in d.accepting_states:
                    tab = table(nmfu, a)
                    for s in SY:
                        t = tab[s]
                        if t is None:
                            REC.fail("LoopNode.convert/C01-loops-back", f"accepting state of a loop body has no move on {symname(s)} (the loop would end there)")
                            return r
                        if t.error_handling and t.target is not d.starting_state:
                            # error handling transitions of accepting states must have been turned into loop-back edges
                            REC.fail("LoopNode.convert/C01-loops-back", f"on {symname(s)} an accepting state of the loop body still leaves to an error handler instead of starting the next iteration")
                            return r
                REC.ok("LoopNode.convert")
            return r
        return convert
    wrap(nmfu.LoopNode, "convert", mk_loop)

    # ---------------- WaitMatch.convert (C16 shape) ----------------
    def mk_wait(orig):
        def convert(self, current_error_handlers):
            inner = self.match_contents
            inner_orig = inner.convert
            snap = {}

            def spy(h):
                sm = inner_orig(h)
                snap["sm"] = sm
                snap["states"] = list(sm.states)
                snap["sig"] = {id(st): [(t, tuple(t.on_values), t.target, t.is_fallthrough, t.error_handling, tuple(id(a) for a in t.actions)) for t in st.transitions] for st in snap["states"]}
                return sm
            inner.convert = spy
            try:
                sm = orig(self, current_error_handlers)
            finally:
                try:
                    del inner.convert
                except AttributeError:
                    pass
            h = current_error_handlers[nmfu.ErrorReasons.NO_MATCH]
            start = sm.starting_state
            char_ids = tuple(id(a) for a in self.char_actions)
            reach = reachable(nmfu, start)
            for st in snap.get("states", []):
                if id(st) not in reach:
                    continue
                for (t, ov, tgt, ft, eh, acts) in snap["sig"][id(st)]:
                    now = (tuple(t.on_values), t.target, t.is_fallthrough, t.error_handling, tuple(id(a) for a in t.actions))
                    if tgt is h:
                        want_ft = False if st is start else ft
                        want_acts = acts + (char_ids if st is start else ())
                        if not (t.target is start and t.error_handling and t.is_fallthrough == want_ft and now[4] == want_acts and now[0] == ov):
                            REC.fail("WaitMatch.convert/C16-restart-shape", "a no-match transition of a wait pattern is not rerouted to the pattern start (consuming only at the start state, fall-through elsewhere)",
                                     {"state": snap["states"].index(st), "on": [symname(v) if isinstance(v, str) else repr(v) for v in ov][:6], "is_start": st is start, "now_target_is_start": t.target is start,
                                      "eh": t.error_handling, "ft": t.is_fallthrough, "ft_before": ft, "actions_now": len(now[4]), "actions_want": len(want_acts), "reachable": st in list(sm.dfs())})
                            return sm
                    elif now != (ov, tgt, ft, eh, acts):
                        REC.fail("WaitMatch.convert/C16-frame", "wait changed a transition that did not lead to the no-match handler")
                        return sm
            # (i) nothing reachable leads to the handler; every state total so the wait can never get stuck or fail
            for st in list(sm.states):
                if st in sm.accepting_states or id(st) not in reach:
                    continue
                tab = table(nmfu, st)
                for s in SY:
                    t = tab[s]
                    if t is None:
                        REC.fail("WaitMatch.convert/C16-total", f"state of a wait pattern has no move on {symname(s)}")
                        return sm
                    if t.target is h:
                        REC.fail("WaitMatch.convert/C16-never-fails", f"wait pattern can still reach the error handler on {symname(s)}")
                        return sm
            REC.ok("WaitMatch.convert")
            return sm
        return convert
    wrap(nmfu.WaitMatch, "convert", mk_wait)


def install_merge(nmfu):
    REC = core.REC
    SY = symbols(nmfu)

    def mk_merge(orig):
        def _merge(self, ds, error_handling_state, priorities):
            dsl = list(ds)
            REC.enabled, saved = False, REC.enabled
            try:
                new_dfa, cfs = orig(self, dsl, error_handling_state, priorities)
            finally:
                REC.enabled = saved
            if not saved:
                return new_dfa, cfs
            greedy = self.greedy
            tabs = {}

            def tab(s):
                if id(s) not in tabs:
                    tabs[id(s)] = table(nmfu, s)
                return tabs[id(s)]
            acc = [set(id(x) for x in d.accepting_states) for d in dsl]
            owner_of = {}
            for d, lst in cfs.items():
                for n in lst:
                    owner_of.setdefault(id(n), []).append(d)
            S0 = frozenset((di, id(d.starting_state)) for di, d in enumerate(dsl))
            objs = {id(d.starting_state): d.starting_state for d in dsl}
            m = {S0: new_dfa.starting_state}
            rev = {id(new_dfa.starting_state): S0}
            queue = [S0]
            nsteps = 0
            new_acc = set(id(x) for x in new_dfa.accepting_states)
            while queue:
                S = queue.pop()
                n = m[S]
                ntab = table(nmfu, n)
                fin = sorted(set(di for (di, sid) in S if sid in acc[di]))
                parts = set(di for (di, sid) in S)
                if (len(fin) >= 1) != (id(n) in new_acc):
                    REC.fail("CaseNode._merge/C08-acceptance", "merged state is accepting iff it contains an accepting state of some clause pattern: violated")
                    return new_dfa, cfs
                if fin:
                    if not greedy:
                        if len(fin) > 1:
                            REC.fail("CaseNode._merge/C09-two-clauses-match", "non-greedy case accepted although one input completes the patterns of two clauses")
                            return new_dfa, cfs
                        if len(parts) != 1:
                            REC.fail("CaseNode._merge/C09-finish-or-continue", "non-greedy case accepted although one clause is complete while another pattern could still continue")
                            return new_dfa, cfs
                        want = dsl[fin[0]]
                    else:
                        best = max(priorities[dsl[i]] for i in fin)
                        top = [i for i in fin if priorities[dsl[i]] == best]
                        if len(top) != 1:
                            REC.fail("CaseNode._merge/C09-priority-tie", "greedy case accepted although the finishing patterns have no unique highest priority")
                            return new_dfa, cfs
                        want = dsl[top[0]]
                    got = owner_of.get(id(n), [])
                    if len(got) != 1 or got[0] is not want:
                        REC.fail("CaseNode._merge/C08-owner", "finish state is attributed to a clause other than the (highest-priority) clause whose pattern matched the consumed bytes")
                        return new_dfa, cfs
                elif id(n) in owner_of:
                    REC.fail("CaseNode._merge/C08-owner", "non-finishing state listed as finish state of a clause")
                    return new_dfa, cfs
                for c in SY:
                    nxt = []
                    any_t = False
                    for (di, sid) in S:
                        t = tab(objs[sid])[c]
                        if t is None:
                            continue
                        any_t = True
                        if t.error_handling:
                            continue
                        if t.actions:
                            REC.fail("CaseNode._merge/C01-pattern-actions-dropped", "a clause pattern's consuming transition carries actions, which the merge drops")
                            return new_dfa, cfs
                        nxt.append((di, id(t.target)))
                        objs[id(t.target)] = t.target
                    tn = ntab[c]
                    nsteps += 1
                    if nxt:
                        nxt = frozenset(nxt)
                        if tn is None or tn.error_handling or tn.is_fallthrough or tn.actions:
                            REC.fail("CaseNode._merge/C08-step", f"on {symname(c)} some pattern continues but the merged machine does not take a plain consuming step")
                            return new_dfa, cfs
                        if nxt in m:
                            if m[nxt] is not tn.target:
                                REC.fail("CaseNode._merge/C08-step", f"on {symname(c)} the merged machine goes to a state that stands for a different set of pattern positions")
                                return new_dfa, cfs
                        else:
                            if id(tn.target) in rev:
                                REC.fail("CaseNode._merge/C08-step", f"on {symname(c)} two different sets of pattern positions share one merged state")
                                return new_dfa, cfs
                            m[nxt] = tn.target
                            rev[id(tn.target)] = nxt
                            queue.append(nxt)
                    else:
                        if id(n) in new_acc:
                            if tn is not None:
                                REC.fail("CaseNode._merge/C08-finish-is-open", f"finish state has a transition on {symname(c)} although no pattern continues there (the clause body could not take over)")
                                return new_dfa, cfs
                        elif any_t:
                            if tn is None or tn.target is not error_handling_state or not tn.error_handling or not tn.is_fallthrough or tn.actions:
                                REC.fail("CaseNode._merge/C08-no-match", f"on {symname(c)} no pattern continues but the merged machine does not fall through to the no-match handler")
                                return new_dfa, cfs
                        elif tn is not None and not (tn.target is error_handling_state and tn.error_handling):
                            REC.fail("CaseNode._merge/C08-no-match", f"on {symname(c)} nothing is defined by any pattern but the merged machine moves somewhere")
                            return new_dfa, cfs
            REC.ok("CaseNode._merge", nsteps)
            return new_dfa, cfs
        return _merge
    wrap(nmfu.CaseNode, "_merge", mk_merge)


def install_fallthrough(nmfu):
    """C04: DfaCompileCtx.compile returns normally => no cycle of non-consuming moves on any single symbol (condition outcomes and
    conditional redirects taken either way; out-of-space redirects are reported separately because they need a full buffer)"""
    REC = core.REC
    SY = symbols(nmfu)
    M = nmfu.ActionOverrideMode

    def outcomes(actions):
        """where a list of actions can send control, read off the *structure* of the actions (what each kind does by the language
        reference), not off the override modes / targets the actions report about themselves: ([(target, via_out_of_space)], may the
        list run to its end?).  Exactly one branch of a conditional runs (none, when there is no else branch and no condition holds)."""
        jumps = []
        for a in actions:
            if isinstance(a, nmfu.BreakAction):
                j, n = outcomes(list(getattr(a.refers_to, "after_break_actions", None) or []))      # what follows the loop runs first
                jumps.extend(j)
                if n:
                    jumps.append((a.refers_to.end_state, False))
                return jumps, False
            if isinstance(a, nmfu.FinishAction):
                return jumps, False
            if isinstance(a, (nmfu.AppendTo, nmfu.AppendCharTo)):
                jumps.append((a.end_target, True))
            elif isinstance(a, nmfu.ConditionalAction):
                cont = not any(isinstance(c, nmfu.ElseCondition) for c in a.conditions)
                for c in a.conditions:
                    j, n = outcomes(a.sub_actions[c])
                    jumps.extend(j)
                    cont = cont or n
                if not cont:
                    return jumps, False
        return jumps, True

    def moves(state, sym):
        """non-consuming successors of `state` on `sym`: list of (target, via_oos)"""
        out = []
        if isinstance(state, nmfu.DFConditionPoint):
            ts = list(state.transitions)
        else:
            t = lookup(nmfu, state, sym)
            ts = [t] if t is not None else []
        for t in ts:
            jumps, normal = outcomes(t.actions)
            for tgt, oos in jumps:
                if oos or t.is_fallthrough:           # an out-of-space redirect re-dispatches the byte at the handler; a break leaves
                    out.append((tgt, oos))            # without consuming only when its transition does not consume
            if normal and t.is_fallthrough and t.target is not None:
                out.append((t.target, False))
        return out

    def mk_compile(orig):
        def compile(self):
            r = orig(self)
            if not REC.enabled:
                return r
            states = list(self.dfa.states)
            # group symbols by the tuple of transitions they select (same moves)
            groups = {}
            for s in SY:
                key = tuple(id(lookup(nmfu, st, s)) if not isinstance(st, nmfu.DFConditionPoint) else 0 for st in states)
                groups.setdefault(key, s)
            nchk = 0
            def has_cycle(sym, include_oos):
                color = {}

                def dfs(u):
                    color[id(u)] = 1
                    for (v, oos) in moves(u, sym):
                        if v is None or (oos and not include_oos):
                            continue
                        c = color.get(id(v), 0)
                        if c == 1:
                            return True
                        if c == 0 and dfs(v):
                            return True
                    color[id(u)] = 2
                    return False
                for st in states:
                    if color.get(id(st), 0) == 0 and dfs(st):
                        return True
                return False
            for s in groups.values():
                nchk += len(states)
                if has_cycle(s, False):
                    REC.fail("DfaCompileCtx.compile/C04-no-nonconsuming-cycle", f"program accepted although on symbol {symname(s)} control can go round through fall-through / condition / break moves without consuming input")
                    return r
                if has_cycle(s, True):
                    REC.ok("DfaCompileCtx.compile/oos-cycle-seen")
            REC.ok("DfaCompileCtx.compile/C04", nchk)
            return r
        return compile
    wrap(nmfu.DfaCompileCtx, "compile", mk_compile)
