"""pyvc expression evaluation, calls, builtins (attached to interp.Engine)."""
import ast, types, enum, builtins, string as _string, itertools, collections
import z3
from .sym import *
from .interp import (Seg, has_seg, _site, Engine, PyRaise, _Return, _Break, _Continue, SObj, HList, HDict, Closure, BoundReal, Frame,
                     GuardedItem)


class BoundBuiltin:
    def __init__(self, obj, name):
        self.obj = obj
        self.name = name


class SymPresenceKeys:
    pass


def E(fn):
    setattr(Engine, fn.__name__, fn)
    return fn


@E
def eval(self, node):
    m = getattr(self, "e_" + type(node).__name__, None)
    if m is None:
        raise Unsupported(f"expression {type(node).__name__} at line {getattr(node, 'lineno', '?')}")
    return m(node)


@E
def e_Constant(self, n):
    return n.value


@E
def e_Name(self, n):
    return self.lookup(n.id)


@E
def e_Tuple(self, n):
    out = []
    for e in n.elts:
        if isinstance(e, ast.Starred):
            out.extend(self.iterate(self.eval(e.value), concat=True))      # a display with *xs is a concatenation
        else:
            out.append(self.eval(e))
    return tuple(out)


@E
def e_List(self, n):
    return HList(self.e_Tuple(n))


@E
def e_Set(self, n):
    items = self.e_Tuple(n)
    if any(is_symbolic(x) for x in items):
        raise Unsupported("symbolic set display")
    return set(items)


@E
def e_Dict(self, n):
    d = HDict()
    for k, v in zip(n.keys, n.values):
        if k is None:
            raise Unsupported("dict unpack")
        kk = self.concrete_key(self.eval(k))
        d.items[kk] = self.eval(v)
        d.present[kk] = True
    return d


@E
def e_IfExp(self, n):
    c = self.cond(self.eval(n.test))
    if isinstance(c, bool):
        return self.eval(n.body if c else n.orelse)
    res = {}

    def t():
        res["t"] = self.eval(n.body)

    def f():
        res["f"] = self.eval(n.orelse)
    self.branch(c, _site(n), t, f)
    if "t" in res and "f" in res:
        try:
            return self.ite(c, res["t"], res["f"])
        except NeedFork as nf:
            raise NeedFork(tuple(nf.sites) + (_site(n),), nf.why)
    return res.get("t", res.get("f"))


@E
def e_BoolOp(self, n):
    # python semantics: returns operand; we only support use as condition or with bool-like operands
    is_and = isinstance(n.op, ast.And)
    acc = None
    conds = []
    pushed = 0
    try:
        for i, v in enumerate(n.values):
            val = self.eval(v)
            b = to_bool(val)
            last = i == len(n.values) - 1
            if isinstance(b, bool):
                if (is_and and not b) or (not is_and and b):
                    # short circuit: result is this value
                    result_here = val
                    if not conds:
                        return result_here
                    conds.append(b)
                    break
                if last:
                    if not conds:
                        return val
                    conds.append(b)
                continue
            conds.append(b)
            if not last:
                g = b if is_and else znot(b)
                self.gstack.append((g, None))
                pushed += 1
    finally:
        for _ in range(pushed):
            self.gstack.pop()
    return zand(*conds) if is_and else zor(*conds)


@E
def e_UnaryOp(self, n):
    v = self.eval(n.operand)
    if isinstance(n.op, ast.Not):
        return znot(to_bool(v)) if is_symbolic(v) or isinstance(v, (SStr, SSet)) else (not self.truthy(v))
    if isinstance(n.op, ast.USub):
        return simp(-to_int(v)) if is_z3(v) else -v
    if isinstance(n.op, ast.UAdd):
        return v
    if isinstance(n.op, ast.Invert):
        if is_z3(v):
            raise Unsupported("~ on symbolic")
        return ~v
    raise Unsupported("unary op")


class YSet:
    """small set whose elements may be symbolic: a list of (presence condition, element).  Supports emptiness, membership, & | -;
    iteration is refused (element multiplicity is not decided)."""
    def __init__(self, items):
        self.items = [(c, x) for c, x in items if c is not False]

    def __repr__(self):
        return f"YSet({self.items})"

    def __bool__(self):
        if not self.items:
            return False
        if any(c is True for c, _ in self.items):
            return True
        raise Unsupported("native truth value of a set with symbolic membership")

    @staticmethod
    def of(v):
        if isinstance(v, YSet):
            return v
        if isinstance(v, (set, frozenset, list, tuple)):
            return YSet([(True, x) for x in v])
        if isinstance(v, HList):
            return YSet([(True, x) for x in v.items])
        raise Unsupported(f"not a small set: {v!r}")


def _elem_eq(self, a, b):
    a, b = norm_str(a), norm_str(b)
    if isinstance(a, Seg) or isinstance(b, Seg):
        # "does element x occur in the arbitrary segment": open, unless the kinds exclude it
        if isinstance(b, Seg) and not isinstance(a, Seg):
            a, b = b, a
        if a.elem == "str" and not isinstance(b, Seg) and not is_strlike(b):
            return False
        if isinstance(b, Seg) and a.elem != b.elem and a.elem is not None and b.elem is not None:
            return False
        return self.fresh("seg_member", "bool")
    if not is_symbolic(a) and not is_symbolic(b):
        return a == b if not isinstance(a, (SObj, HList, HDict)) and not isinstance(b, (SObj, HList, HDict)) else a is b
    if is_strlike(a) != is_strlike(b):
        return False            # a string never equals a non-string (Else / End sentinels, objects)
    return self.compare(ast.Eq(), a, b)


@E
def yset_member(self, x, ys):
    return zor(*[zand(c, _elem_eq(self, x, y)) for c, y in ys.items])


@E
def yset_binop(self, op, a, b):
    a, b = YSet.of(a), YSet.of(b)
    if isinstance(op, ast.BitAnd):
        return YSet([(zand(c, self.yset_member(x, b)), x) for c, x in a.items])
    if isinstance(op, ast.BitOr):
        return YSet(a.items + b.items)
    if isinstance(op, ast.Sub):
        return YSet([(zand(c, znot(self.yset_member(x, b))), x) for c, x in a.items])
    raise Unsupported("set binop on sets with symbolic elements")


@E
def truthy(self, v):
    if isinstance(v, YSet):
        return zor(*[c for c, _ in v.items])
    if isinstance(v, HList):
        if has_seg(v.items):
            if any(not isinstance(x, Seg) for x in v.items):
                return True
            return zor(*[x.length > 0 for x in v.items])
        return len(v.items) > 0
    if isinstance(v, HDict):
        if any(p is not True for p in v.present.values()):
            return zor(*v.present.values())
        return len(v.items) > 0
    if isinstance(v, SObj):
        return True
    return to_bool(v)


_to_bool_orig = to_bool


@E
def cond(self, v):
    if isinstance(v, (HList, HDict, SObj, YSet)):
        return self.truthy(v)
    return to_bool(v)


@E
def e_BinOp(self, n):
    return self.binop(n.op, self.eval(n.left), self.eval(n.right))


@E
def binop(self, op, a, b):
    a = norm_str(self.R(a))
    b = norm_str(self.R(b))
    if isinstance(op, ast.Mod) and is_strlike(a):
        raise Unsupported("% string formatting")
    if isinstance(a, HList) or isinstance(b, HList):
        if isinstance(op, ast.Add):
            return HList(self.iterate(a, concat=True) + self.iterate(b, concat=True))
        if isinstance(op, ast.Mult) and isinstance(b, int):
            return HList(self.iterate(a) * b)
        raise Unsupported("list binop")
    if isinstance(a, YSet) or isinstance(b, YSet):
        return self.yset_binop(op, a, b)
    if isinstance(a, SSet) or isinstance(b, SSet):
        return self.set_binop(op, a, b)
    if is_strlike(a) and is_strlike(b) and isinstance(op, ast.Add):
        return norm_str(as_sstr(a) + as_sstr(b))
    if is_strlike(a) and isinstance(op, ast.Mult) and isinstance(b, int):
        return norm_str(SStr(as_sstr(a).parts * b))
    if not is_symbolic(a) and not is_symbolic(b):
        if a is None or b is None:
            self.do_raise(TypeError, (f"unsupported operand None",), True, where="binop")
            return 0
        if isinstance(a, (set, frozenset)) or isinstance(b, (set, frozenset)) or True:
            try:
                return _native_binop(op, a, b)
            except ZeroDivisionError:
                self.do_raise(ZeroDivisionError, (), True)
                return 0
            except TypeError as e:
                self.do_raise(TypeError, (str(e),), True)
                return 0
    if a is None or b is None:
        self.do_raise(TypeError, ("unsupported operand None",), True, where="binop")
        return 0
    x, y = to_int(a), to_int(b)
    if isinstance(op, ast.Add):
        return simp(x + y)
    if isinstance(op, ast.Sub):
        return simp(x - y)
    if isinstance(op, ast.Mult):
        return simp(x * y)
    if isinstance(op, ast.FloorDiv):
        self.do_raise(ZeroDivisionError, (), simp(y == 0))
        return simp(x / y) if False else simp(z3.If(y > 0, x / y, -((-x) / (-y)) if False else _floordiv(x, y)))
    if isinstance(op, ast.Mod):
        self.do_raise(ZeroDivisionError, (), simp(y == 0))
        return simp(x - y * _floordiv(x, y))
    if isinstance(op, ast.LShift) and isinstance(b, int):
        return simp(x * (1 << b))
    if isinstance(op, ast.LShift):
        # symbolic shift amount: exact as a case split when the amount provably lies in 0..64
        if feasible(self.pc + [zbool(self.guard()), z3.Or(y < 0, y > 64)]):
            raise Unsupported("left shift by a symbolic amount that is not provably within 0..64")
        p2 = z3.IntVal(1 << 64)
        for k in range(63, -1, -1):
            p2 = z3.If(y == k, z3.IntVal(1 << k), p2)
        return simp(x * p2)
    raise Unsupported(f"binop {type(op).__name__} on symbolic ints")


def _floordiv(x, y):
    # python floor division in terms of z3's euclidean div
    q = x / y
    return z3.If(y > 0, q, z3.If(x % y == 0, q, q - 1)) if False else z3.If(y > 0, q, -((-x) / (-y)) if False else z3.If((x % y) == 0, q, q - 1))


def _native_binop(op, a, b):
    import operator as o
    table = {ast.Add: o.add, ast.Sub: o.sub, ast.Mult: o.mul, ast.Div: o.truediv, ast.FloorDiv: o.floordiv, ast.Mod: o.mod,
             ast.LShift: o.lshift, ast.RShift: o.rshift, ast.BitOr: o.or_, ast.BitAnd: o.and_, ast.BitXor: o.xor, ast.Pow: o.pow}
    return table[type(op)](a, b)


@E
def set_binop(self, op, a, b):
    a, b = self.to_sset(a), self.to_sset(b)
    if isinstance(op, ast.BitOr):
        return SSet(a.bv | b.bv)
    if isinstance(op, ast.BitAnd):
        return SSet(a.bv & b.bv)
    if isinstance(op, ast.Sub):
        return SSet(a.bv & ~b.bv)
    if isinstance(op, ast.BitXor):
        return SSet(a.bv ^ b.bv)
    raise Unsupported("set binop")


@E
def to_sset(self, v):
    if isinstance(v, SSet):
        return v
    if isinstance(v, (set, frozenset, tuple, list, str)):
        return SSet.of_concrete(v)
    if isinstance(v, HList):
        return SSet.of_concrete(v.items)
    raise Unsupported(f"not a byte set: {v!r}")


@E
def e_Compare(self, n):
    left = self.eval(n.left)
    conds = []
    for op, rn in zip(n.ops, n.comparators):
        right = self.eval(rn)
        conds.append(self.compare(op, left, right))
        left = right
    if all(isinstance(c, bool) for c in conds):
        return all(conds)
    return zand(*conds)


@E
def compare(self, op, a, b):
    a = norm_str(a)
    b = norm_str(b)
    if isinstance(op, (ast.Is, ast.IsNot, ast.Eq, ast.NotEq)) and (isinstance(a, SChoice) or isinstance(b, SChoice)):
        if isinstance(b, SChoice):
            a, b = b, a
        rs = [zand(c, self.compare(op, x, b)) for c, x in a.alts]
        return zor(*rs)
    a = self.R(a)
    b = self.R(b)
    if isinstance(op, (ast.Is, ast.IsNot)):
        if is_symbolic(a) or is_symbolic(b):
            if a is None or b is None:
                r = False
            else:
                raise Unsupported("`is` on symbolic values")
        else:
            r = a is b
            if isinstance(a, (str, int)) and isinstance(b, (str, int)) and type(a) == type(b):
                r = a == b
        return r if isinstance(op, ast.Is) else (not r)
    if isinstance(op, (ast.Eq, ast.NotEq)) and any(isinstance(x, (HList, tuple, list)) and has_seg(x.items if isinstance(x, HList) else x) for x in (a, b)):
        ia = a.items if isinstance(a, HList) else a
        ib = b.items if isinstance(b, HList) else b
        if isinstance(ia, (list, tuple)) and isinstance(ib, (list, tuple)) and len(ia) == len(ib) and all(x is y for x, y in zip(ia, ib)):
            r = True
        elif not isinstance(ia, (list, tuple)) or not isinstance(ib, (list, tuple)):
            r = False
        else:
            r = self.fresh("seg_eq", "bool")     # concatenations of arbitrary segments: equality left open (both outcomes are explored)
        return r if isinstance(op, ast.Eq) else (znot(r) if is_z3(r) else (not r))
    if isinstance(op, (ast.In, ast.NotIn)):
        r = self.contains(b, a)
        return r if isinstance(op, ast.In) else (znot(r) if is_z3(r) else (not r))
    if isinstance(a, SSet) or isinstance(b, SSet):
        x, y = self.to_sset(a), self.to_sset(b)
        if isinstance(op, ast.Eq):
            return simp(x.bv == y.bv)
        if isinstance(op, ast.NotEq):
            return simp(x.bv != y.bv)
        if isinstance(op, ast.LtE):
            return simp((x.bv & ~y.bv) == 0)
        if isinstance(op, ast.GtE):
            return simp((y.bv & ~x.bv) == 0)
        if isinstance(op, ast.Lt):
            return simp(z3.And((x.bv & ~y.bv) == 0, x.bv != y.bv))
        if isinstance(op, ast.Gt):
            return simp(z3.And((y.bv & ~x.bv) == 0, x.bv != y.bv))
        raise Unsupported("set compare")
    if not is_symbolic(a) and not is_symbolic(b):
        if isinstance(a, SObj) or isinstance(b, SObj):
            if isinstance(op, ast.Eq):
                return self.obj_eq(a, b)
            if isinstance(op, ast.NotEq):
                r = self.obj_eq(a, b)
                return znot(r) if is_z3(r) else (not r)
        if isinstance(a, HList):
            a = a.items
        if isinstance(b, HList):
            b = b.items
        try:
            return _native_cmp(op, a, b)
        except TypeError as e:
            self.do_raise(TypeError, (str(e),), True, where="compare")
            return False
    if is_strlike(a) or is_strlike(b):
        if not (is_strlike(a) and is_strlike(b)):
            if isinstance(op, ast.Eq):
                return False
            if isinstance(op, ast.NotEq):
                return True
            raise Unsupported("ordering str vs non-str")
        x, y = as_sstr(a), as_sstr(b)
        if isinstance(op, ast.Eq):
            return True if x.key() == y.key() else simp(x.z3() == y.z3())
        if isinstance(op, ast.NotEq):
            return False if x.key() == y.key() else simp(x.z3() != y.z3())
        raise Unsupported("string ordering")
    if a is None or b is None:
        if isinstance(op, ast.Eq):
            return a is b
        if isinstance(op, ast.NotEq):
            return a is not b
        self.do_raise(TypeError, ("'<' not supported between NoneType and int",), True, where="compare")
        return False
    if isinstance(a, tuple) and isinstance(b, tuple):
        if len(a) != len(b):
            return isinstance(op, ast.NotEq)
        eqs = [self.compare(ast.Eq(), x, y) for x, y in zip(a, b)]
        r = zand(*eqs)
        if isinstance(op, ast.Eq):
            return r
        if isinstance(op, ast.NotEq):
            return znot(r)
        raise Unsupported("tuple ordering")
    # enum members and other non-numeric objects vs symbolic
    for v in (a, b):
        if not is_z3(v) and not isinstance(v, (int, bool)):
            if isinstance(op, ast.Eq):
                return False
            if isinstance(op, ast.NotEq):
                return True
            raise Unsupported("ordering on objects")
    if (is_z3(a) and z3.is_bool(a)) and (isinstance(b, bool) or (is_z3(b) and z3.is_bool(b))) and isinstance(op, (ast.Eq, ast.NotEq)):
        r = simp(a == zbool(b))
        return r if isinstance(op, ast.Eq) else znot(r)
    x, y = to_int(a), to_int(b)
    r = {ast.Eq: lambda: x == y, ast.NotEq: lambda: x != y, ast.Lt: lambda: x < y, ast.LtE: lambda: x <= y,
         ast.Gt: lambda: x > y, ast.GtE: lambda: x >= y}[type(op)]()
    return simp(r)


def _native_cmp(op, a, b):
    import operator as o
    table = {ast.Eq: o.eq, ast.NotEq: o.ne, ast.Lt: o.lt, ast.LtE: o.le, ast.Gt: o.gt, ast.GtE: o.ge}
    return table[type(op)](a, b)


@E
def obj_eq(self, a, b):
    if a is b:
        return True
    if isinstance(a, SObj) and self.find_method(a.cls, "__eq__"):
        return to_bool(self.call_method(a, "__eq__", [b], {}))
    return False


@E
def contains(self, container, item):
    item = norm_str(item)
    container = norm_str(container)
    if isinstance(container, HDict):
        k = item
        if is_symbolic(k):
            return zor(*[zand(self.compare(ast.Eq(), k, kk), container.present[kk]) for kk in container.items])
        if k in container.items:
            return container.present[k]
        return False
    if isinstance(container, HList):
        container = tuple(container.items)
    if isinstance(container, _LazyIter):
        container = tuple(container.items)       # `x in generator`: membership in the (eagerly collected) items
    if isinstance(container, YSet):
        return self.yset_member(item, container)
    if isinstance(container, tuple) and has_seg(container):
        # membership in a concatenation with arbitrary segments: decided for the known elements, left open (fresh Boolean) per segment
        return zor(*[_elem_eq(self, item, x) for x in container])
    if isinstance(container, SSet):
        if isinstance(item, str):
            return simp(z3.Extract(ord(item), ord(item), container.bv) == 1)
        raise Unsupported("symbolic element in SSet")
    if is_strlike(container):
        if is_strlike(item):
            if not is_symbolic(item) and not is_symbolic(container):
                return item in container
            zi = as_sstr(item).z3()
            if not is_symbolic(container) and _is_single_char(zi):
                # membership of one character in a constant string: a finite disjunction over code points (much easier than str.contains)
                codes = sorted(set(ord(ch) for ch in (container if isinstance(container, str) else as_sstr(container).concrete())))
                cp = z3.StrToCode(zi)
                return simp(z3.Or(*[cp == o for o in codes])) if codes else False
            return simp(z3.Contains(as_sstr(container).z3(), zi))
        self.do_raise(TypeError, ("'in <string>' requires string as left operand",), True)
        return False
    if isinstance(container, (tuple, list, set, frozenset, dict)) or isinstance(container, (types.MappingProxyType,)) or hasattr(container, "__contains__"):
        if not is_symbolic(item):
            if isinstance(container, (tuple, list)) and any(is_symbolic(x) for x in container):
                return zor(*[self.compare(ast.Eq(), item, x) for x in container])
            try:
                return item in container
            except TypeError:
                return False
        items = list(container)
        return zor(*[self.compare(ast.Eq(), item, x) for x in items])
    raise Unsupported(f"`in` on {type(container).__name__}")


def _is_single_char(z):
    try:
        return z.decl().kind() == z3.Z3_OP_SEQ_EXTRACT and z3.is_int_value(z.arg(2)) and z.arg(2).as_long() == 1 and False or \
            (z.decl().kind() == z3.Z3_OP_SEQ_EXTRACT and z3.is_int_value(z3.simplify(z.arg(2))) and z3.simplify(z.arg(2)).as_long() == 1)
    except Exception:
        return False


@E
def e_JoinedStr(self, n):
    parts = []
    for v in n.values:
        if isinstance(v, ast.Constant):
            parts.append(v.value)
        else:
            val = self.eval(v.value)
            spec = None
            if v.format_spec is not None:
                spec = self.eval(v.format_spec)
                spec = norm_str(spec)
            if v.conversion == ord("r"):
                parts.append(self.to_repr(val))
            else:
                parts.append(self.format_value(val, spec))
    return norm_str(SStr(tuple(as_sstr(p) if not isinstance(p, str) else p for p in parts)))


@E
def to_repr(self, v):
    v = norm_str(v)
    if not is_symbolic(v) and not isinstance(v, (SObj, HList, HDict)):
        return repr(v)
    return SStr((z3.String(f"repr!{id(v)}"),))


@E
def format_value(self, v, spec=None):
    v = norm_str(v)
    if spec:
        if not is_symbolic(v) and not is_symbolic(spec):
            return format(v, spec)
        if spec == "02x" and is_z3(v):
            hexd = z3.StringVal("0123456789abcdef")
            return SStr((z3.SubString(hexd, v / 16, 1), z3.SubString(hexd, v % 16, 1)))
        raise Unsupported(f"format spec {spec!r} on symbolic value")
    return self.to_str(v)


@E
def to_str(self, v):
    v = norm_str(v)
    if is_strlike(v):
        return v
    if is_z3(v):
        if z3.is_int(v):
            # str(int) for possibly negative ints
            return SStr((z3.If(v >= 0, z3.IntToStr(v), z3.Concat(z3.StringVal("-"), z3.IntToStr(-v))),))
        if z3.is_bool(v):
            return SStr((z3.If(v, z3.StringVal("True"), z3.StringVal("False")),))
    if isinstance(v, SObj):
        if self.find_method(v.cls, "__str__"):
            return self.call_method(v, "__str__", [], {})
        return f"<{v.cls.__name__} object>"
    if isinstance(v, (HList, HDict)):
        raise Unsupported("str() of container")
    return str(v)


@E
def e_Attribute(self, n):
    return self.get_attr(self.eval(n.value), n.attr)


@E
def wrap(self, v):
    if type(v) is dict or isinstance(v, collections.defaultdict) and False:
        return HDict({k: self.wrap(x) for k, x in v.items()})
    if type(v) is list:
        return HList([self.wrap(x) for x in v])
    return v


@E
def find_method(self, cls, name):
    for c in cls.__mro__:
        q = f"{c.__qualname__}.{name}"
        if c.__module__ == self.module.__name__ and q in self.funcs and name in c.__dict__:
            return q, c
    return None


@E
def get_attr(self, obj, attr):
    obj = self.R(obj)
    if isinstance(obj, SObj):
        if attr in obj.fields:
            return obj.fields[attr]
        if attr == "__class__":
            return obj.cls
        fm = self.find_method(obj.cls, attr)
        if fm:
            q, c = fm
            raw = c.__dict__[attr]
            if isinstance(raw, classmethod):
                return Closure(self.funcs[q], q, [], self_obj=obj.cls)
            if isinstance(raw, staticmethod):
                return Closure(self.funcs[q], q, [], self_obj=_NOSELF)
            return Closure(self.funcs[q], q, [], self_obj=obj)
        if hasattr(obj.cls, attr):
            return self.class_attr(obj.cls, attr)
        self.do_raise(AttributeError, (attr,), True, where=f"{obj.cls.__name__}.{attr}")
        return None
    if isinstance(obj, (HList, HDict, SStr, SSet, YSet)) or (is_z3(obj) and z3.is_string(obj)):
        return BoundBuiltin(obj, attr)
    if is_z3(obj):
        raise Unsupported(f"attribute {attr} on symbolic value")
    if isinstance(obj, type) and obj.__module__ == self.module.__name__:
        return self.class_attr(obj, attr)
    if obj is None:
        self.do_raise(AttributeError, (f"'NoneType' object has no attribute '{attr}'",), True, where=attr)
        return None
    # real object
    cls = type(obj)
    if cls.__module__ == self.module.__name__ and not isinstance(obj, enum.Enum):
        if attr in getattr(obj, "__dict__", {}):
            return getattr(obj, attr)
        fm = self.find_method(cls, attr)
        if fm:
            q, c = fm
            raw = c.__dict__[attr]
            if isinstance(raw, classmethod):
                return Closure(self.funcs[q], q, [], self_obj=cls)
            if isinstance(raw, staticmethod):
                return Closure(self.funcs[q], q, [], self_obj=_NOSELF)
            return Closure(self.funcs[q], q, [], self_obj=obj)
    if isinstance(obj, (str, list, dict, set, frozenset, tuple)) and not attr.startswith("__"):
        return BoundBuiltin(obj, attr)
    try:
        return getattr(obj, attr)
    except AttributeError:
        self.do_raise(AttributeError, (attr,), True, where=f"{type(obj).__name__}.{attr}")
        return None


class _NoSelf:
    pass


_NOSELF = _NoSelf()


@E
def class_attr(self, cls, attr):
    store = self.class_store.get(cls)
    if store and attr in store:
        return store[attr]
    for c in cls.__mro__:
        st = self.class_store.get(c)
        if st and attr in st:
            return st[attr]
        if attr in c.__dict__:
            raw = c.__dict__[attr]
            q = f"{c.__qualname__}.{attr}"
            if c.__module__ == self.module.__name__ and q in self.funcs:
                if isinstance(raw, classmethod):
                    return Closure(self.funcs[q], q, [], self_obj=cls)
                if isinstance(raw, staticmethod):
                    return Closure(self.funcs[q], q, [], self_obj=_NOSELF)
                if isinstance(raw, types.FunctionType):
                    return Closure(self.funcs[q], q, [], self_obj=_NOSELF)
            if type(raw) in (dict, list) and c.__module__ == self.module.__name__:
                w = self.wrap(raw)
                self.class_store.setdefault(c, {})[attr] = w
                return w
            return getattr(cls, attr)
    self.do_raise(AttributeError, (attr,), True, where=f"{cls.__name__}.{attr}")
    return None


@E
def e_Subscript(self, n):
    obj = self.eval(n.value)
    if isinstance(n.slice, ast.Slice):
        lo = self.eval(n.slice.lower) if n.slice.lower is not None else None
        hi = self.eval(n.slice.upper) if n.slice.upper is not None else None
        st = self.eval(n.slice.step) if n.slice.step is not None else None
        return self.get_slice(obj, lo, hi, st)
    return self.get_item(obj, self.eval(n.slice))


@E
def get_slice(self, obj, lo, hi, step):
    obj = norm_str(obj)
    if isinstance(obj, HList):
        if any(is_symbolic(x) for x in (lo, hi, step) if x is not None):
            raise Unsupported("symbolic list slice")
        if has_seg(obj.items) and not (lo is None and hi is None and step is None):
            raise Unsupported("slice of a list that holds an arbitrary segment")
        return HList(obj.items[lo:hi:step])
    if not is_symbolic(obj) and not any(is_symbolic(x) for x in (lo, hi, step) if x is not None):
        return obj[lo:hi:step]
    if is_strlike(obj):
        if step is not None:
            raise Unsupported("symbolic string slice with step")
        s = as_sstr(obj).z3()
        n = z3.Length(s)

        base = self.pc + [zbool(self.guard())]

        def clamp(v, default):
            if v is None:
                return default
            v = to_int(v)
            # drop the clamping when the path condition already bounds the index (keeps the terms syntactically simple for the string solver)
            if not feasible(base + [z3.Or(v < 0, v > n)], 2000):
                return v
            if not feasible(base + [v <= n], 2000):
                return n
            v = z3.If(v < 0, v + n, v)
            return z3.If(v < 0, z3.IntVal(0), z3.If(v > n, n, v))
        a = clamp(lo, z3.IntVal(0))
        b = clamp(hi, n)
        ln = z3.simplify(b - a) if not feasible(base + [b < a], 2000) else z3.If(b > a, b - a, z3.IntVal(0))
        return norm_str(SStr((z3.simplify(z3.SubString(s, a, ln)),)))
    raise Unsupported("slice")


@E
def get_item(self, obj, k):
    obj = norm_str(self.R(obj))
    k = norm_str(self.R(k))
    if isinstance(obj, SObj) and self.find_method(obj.cls, "__getitem__"):
        return self.call_method(obj, "__getitem__", [k], {})
    if isinstance(obj, HDict):
        if is_symbolic(k):
            return self.sym_dict_lookup(obj, k)
        if k not in obj.items:
            self.do_raise(KeyError, (k,), True, where="dict lookup")
            return None
        p = obj.present[k]
        if p is not True:
            self.do_raise(KeyError, (k,), znot(p), where="dict lookup")
        return obj.items[k]
    if isinstance(obj, HList):
        obj = obj.items
    if isinstance(obj, (list, tuple)) and has_seg(obj):
        raise Unsupported("indexing a list that holds an arbitrary segment")
    if isinstance(obj, (list, tuple)):
        if is_z3(k):
            return self.sym_seq_index(obj, k)
        try:
            return obj[k]
        except IndexError:
            self.do_raise(IndexError, ("index out of range",), True, where="index")
            return None
    if is_strlike(obj):
        if not is_symbolic(obj) and not is_symbolic(k):
            try:
                return obj[k]
            except IndexError:
                self.do_raise(IndexError, ("string index out of range",), True, where="str index")
                return ""
        s = as_sstr(obj).z3()
        n = z3.Length(s)
        i = to_int(k)
        self.do_raise(IndexError, ("string index out of range",), simp(z3.Or(i >= n, i < -n)), where="str index")
        i2 = z3.If(i < 0, i + n, i)
        return norm_str(SStr((z3.simplify(z3.SubString(s, i2, 1)),)))
    if isinstance(obj, type) and issubclass(obj, enum.Enum):
        if is_symbolic(k):
            raise Unsupported("symbolic enum lookup by name")
        try:
            return obj[k]
        except KeyError:
            self.do_raise(KeyError, (k,), True)
            return None
    if isinstance(obj, (dict, types.MappingProxyType)):
        if is_symbolic(k):
            return self.sym_dict_lookup(HDict(dict(obj)), k)
        try:
            return obj[k]
        except KeyError:
            self.do_raise(KeyError, (k,), True, where="dict lookup")
            return None
    if isinstance(obj, SObj) and self.find_method(obj.cls, "__getitem__"):
        return self.call_method(obj, "__getitem__", [k], {})
    if isinstance(obj, type) and self.find_method(type(obj), "__getitem__"):
        # metaclass __getitem__ (dprint[flag])
        return self.call_closure(Closure(self.funcs[self.find_method(type(obj), "__getitem__")[0]], self.find_method(type(obj), "__getitem__")[0], [], self_obj=obj), [k], {})
    if not is_symbolic(k):
        return obj[k]
    raise Unsupported(f"subscript on {type(obj).__name__}")


@E
def sym_dict_lookup(self, d, k):
    """dict lookup with symbolic key: decision over the keys (n-ary fork) unless all values merge by ite."""
    keys = list(d.items)
    conds = [zand(self.compare(ast.Eq(), k, kk), d.present[kk]) for kk in keys]
    miss = znot(zor(*conds))
    self.do_raise(KeyError, (k,), miss, where="dict lookup (symbolic key)")
    vals = [d.items[kk] for kk in keys]
    try:
        acc = vals[-1]
        for c, v in zip(reversed(conds[:-1]), reversed(vals[:-1])):
            acc = self.ite(c, v, acc)
        return acc
    except NeedFork:
        site = ("dictkey", tuple(map(repr, keys)))
        idx = self.oracle.choose(self, site, conds)
        return vals[idx]


@E
def sym_seq_index(self, seq, k):
    n = len(seq)
    self.do_raise(IndexError, ("index out of range",), simp(z3.Or(k >= n, k < -n)), where="index")
    if n == 0:
        return None
    acc = seq[-1]
    try:
        for i in range(n - 2, -1, -1):
            acc = self.ite(simp(z3.Or(k == i, k == i - n)), seq[i], acc)
        return acc
    except NeedFork:
        conds = [simp(z3.Or(k == i, k == i - n)) for i in range(n)]
        idx = self.oracle.choose(self, ("seqidx", n), conds)
        return seq[idx]


@E
def iterate(self, v, concat=False):
    v = norm_str(self.R(v))
    if not concat and isinstance(v, (HList, _LazyIter)) and has_seg(v.items):
        raise Unsupported("element-wise use of a list that holds an arbitrary segment")
    if not concat and isinstance(v, (tuple, list)) and has_seg(v):
        raise Unsupported("element-wise use of a tuple that holds an arbitrary segment")
    if isinstance(v, HList):
        return list(v.items)
    if isinstance(v, HDict):
        return [k if p is True else GuardedItem(p, k) for k, p in ((k, v.present[k]) for k in v.items)]
    if isinstance(v, _LazyIter):
        return v.items
    if isinstance(v, SStr) or (is_z3(v) and z3.is_string(v)):
        # iteration over a symbolic string: decide its length (0..4); longer strings need a loop contract
        zs = as_sstr(v).z3()
        n = z3.Length(zs)
        K = 4
        conds = [simp(n == k) for k in range(K + 1)] + [simp(n > K)]
        idx = self.oracle.choose(self, ("strlen", K), conds)
        if idx > K:
            raise Unsupported("iteration over a symbolic string longer than 4 characters (needs loop contract)")
        if zs.decl().kind() == z3.Z3_OP_SEQ_EXTRACT:
            # characters of a slice are characters of the sliced string (the slice has exactly idx characters on this path)
            base, a = zs.arg(0), zs.arg(1)
            return [norm_str(SStr((z3.SubString(base, z3.simplify(a + j), 1),))) for j in range(idx)]
        return [norm_str(SStr((z3.SubString(zs, j, 1),))) for j in range(idx)]
    if is_z3(v):
        raise Unsupported("iteration over symbolic-length value (needs loop contract)")
    if isinstance(v, SSet):
        raise Unsupported("iteration over symbolic set")
    if isinstance(v, YSet):
        if all(c is True for c, _ in v.items) and not any(is_symbolic(x) for _, x in v.items):
            return [x for _, x in v.items]
        raise Unsupported("iteration over a set with symbolic elements or membership")
    if isinstance(v, (set, frozenset)):
        try:
            return sorted(v)
        except TypeError:
            return list(v)
    try:
        return list(v)
    except TypeError:
        self.do_raise(TypeError, ("not iterable",), True)
        return []


class _LazyIter:
    def __init__(self, items):
        self.items = list(items)


def _comp(self, n, kind):
    out = []
    f = self.frames[-1]

    def rec(gi):
        if gi == len(n.generators):
            if kind == "dict":
                out.append((self.eval(n.key), self.eval(n.value)))
            else:
                out.append(self.eval(n.elt))
            return
        g = n.generators[gi]
        for it in self.iterate(self.eval(g.iter)):
            if isinstance(it, GuardedItem):
                raise Unsupported("comprehension over guarded items")
            self.assign(g.target, it)
            ok = True
            for c in g.ifs:
                cv = self.cond(self.eval(c))
                if cv is False:
                    ok = False
                    break
                if cv is not True:
                    # symbolic filter: the path forks on it
                    if not self.decide(cv, ("comp-if", _site(c), len(out))):
                        ok = False
                        break
            if ok:
                rec(gi + 1)
    saved = dict(f.env)
    saved_dc = dict(f.defcond)
    try:
        rec(0)
    finally:
        f.env.clear()
        f.env.update(saved)
        f.defcond.clear()
        f.defcond.update(saved_dc)
    return out


@E
def e_ListComp(self, n):
    return HList(_comp(self, n, "list"))


@E
def e_GeneratorExp(self, n):
    return _LazyIter(_comp(self, n, "gen"))


@E
def e_SetComp(self, n):
    items = _comp(self, n, "set")
    if any(is_symbolic(x) for x in items):
        raise Unsupported("symbolic set comprehension")
    return set(items)


@E
def e_DictComp(self, n):
    d = HDict()
    for k, v in _comp(self, n, "dict"):
        kk = self.concrete_key(k)
        d.items[kk] = v
        d.present[kk] = True
    return d


@E
def e_Lambda(self, n):
    f = self.frames[-1]
    fd = ast.FunctionDef(name="<lambda>", args=n.args, body=[ast.Return(value=n.body, lineno=n.lineno, col_offset=0)], decorator_list=[], lineno=n.lineno, col_offset=0)
    return Closure(fd, f.qualname + ".<locals>.<lambda>", [f.env] + f.chain)


@E
def e_Starred(self, n):
    raise Unsupported("starred outside call/tuple")


# ---------------- calls ----------------

@E
def e_Call(self, n):
    fn = self.eval(n.func)
    args = []
    for a in n.args:
        if isinstance(a, ast.Starred):
            args.extend(self.iterate(self.eval(a.value), concat=True))
        else:
            args.append(self.eval(a))
    kwargs = {}
    for k in n.keywords:
        if k.arg is None:
            d = self.eval(k.value)
            if isinstance(d, HDict):
                kwargs.update(d.items)
            else:
                kwargs.update(d)
        else:
            kwargs[k.arg] = self.eval(k.value)
    return self.call(fn, args, kwargs, n)


@E
def call(self, fn, args, kwargs, node=None):
    fn = self.R(fn)
    if isinstance(fn, Closure):
        return self.call_closure(fn, args, kwargs)
    if isinstance(fn, BoundBuiltin):
        return self.call_method(fn.obj, fn.name, args, kwargs)
    if isinstance(fn, types.MethodType) and getattr(fn.__func__, "__module__", None) == self.module.__name__:
        q = fn.__func__.__qualname__
        if q in self.funcs or q in self.contracts:
            return self.call_closure(Closure(self.funcs.get(q), q, [], self_obj=fn.__self__), args, kwargs)
    if isinstance(fn, types.FunctionType) and fn.__module__ == self.module.__name__:
        q = fn.__qualname__
        if q in self.funcs or q in self.contracts:
            return self.call_closure(Closure(self.funcs.get(q), q, [], self_obj=_NOSELF), args, kwargs)
    if isinstance(fn, type):
        return self.instantiate(fn, args, kwargs)
    if isinstance(fn, SObj) and (self.find_method(fn.cls, "__call__") or f"{fn.cls.__qualname__}.__call__" in self.contracts):
        return self.call_method(fn, "__call__", args, kwargs)
    return self.call_builtin(fn, args, kwargs)


@E
def instantiate(self, cls, args, kwargs):
    if cls.__module__ == self.module.__name__ and not issubclass(cls, enum.Enum):
        if issubclass(cls, BaseException) and not any(is_symbolic(a) or isinstance(a, (SObj, HList, HDict)) for a in args) and False:
            return cls(*args, **kwargs)
        obj = SObj(cls)
        fm = self.find_method(cls, "__init__")
        if fm:
            self.call_closure(Closure(self.funcs[fm[0]], fm[0], [], self_obj=obj), args, kwargs)
        elif issubclass(cls, BaseException):
            obj.fields["args"] = tuple(args)
        return obj
    if cls in (list,):
        return HList(self.iterate(args[0], concat=True)) if args else HList()
    if cls is dict:
        if args:
            raise Unsupported("dict(x)")
        return HDict(dict(kwargs))
    if cls is tuple:
        return tuple(self.iterate(args[0], concat=True)) if args else ()
    if cls in (set, frozenset):
        if not args:
            return YSet([]) if (cls is set and getattr(self, "mutable_sets", False)) else cls()
        a = args[0]
        if isinstance(a, SSet):
            return a
        if isinstance(a, YSet):
            return a
        items = self.iterate(a, concat=True)       # a set of a concatenation is the union: segments may stay
        if any(is_symbolic(x) or isinstance(x, Seg) for x in items):
            return YSet([(True, x) for x in items])
        if cls is set and getattr(self, "mutable_sets", False):
            out = YSet([])                      # a set that may be mutated later: kept as an interpreter object
            for x in items:
                if self.yset_member(x, out) is not True:
                    out.items.append((True, x))
            return out
        return cls(items)
    if cls is str:
        return self.to_str(args[0]) if args else ""
    if cls is int:
        return self.sym_int(*args, **kwargs)
    if cls is bool:
        return self.cond(args[0]) if args else False
    if cls is type and len(args) == 1:
        a = args[0]
        if isinstance(a, SObj):
            return a.cls
        if isinstance(a, HList):
            return list
        if isinstance(a, HDict):
            return dict
        if is_strlike(a):
            return str
        if is_z3(a):
            return bool if z3.is_bool(a) else int
        return type(a)
    return self.call_builtin(cls, args, kwargs)


@E
def sym_int(self, v, base=10, **kw):
    base = kw.get("base", base)
    v = norm_str(v)
    if not is_symbolic(v):
        if isinstance(v, (HList, HDict, SObj)):
            raise Unsupported("int() of object")
        try:
            return int(v, base) if isinstance(v, str) else int(v)
        except ValueError as e:
            self.do_raise(ValueError, (str(e),), True, where="int()")
            return 0
        except TypeError as e:
            self.do_raise(TypeError, (str(e),), True, where="int()")
            return 0
    if is_z3(v) and (z3.is_int(v) or z3.is_bool(v)):
        return to_int(v)
    if is_strlike(v):
        h = self.hooks.get("int_of_str")
        if h:
            return h(self, as_sstr(v), base)
        raise Unsupported("int() of symbolic string (no spec hook installed)")
    raise Unsupported("int()")


Engine.hooks = {}


@E
def call_closure(self, clo, args, kwargs):
    q = clo.qualname
    self_obj = clo.self_obj
    if q in self.contracts:
        a = list(args)
        if self_obj is not None and self_obj is not _NOSELF:
            a = [self_obj] + a
        return self.contracts[q](self, a, kwargs)
    node = clo.node
    if node is None:
        raise Unsupported(f"no AST for {q}")
    env = {}
    params = node.args
    allp = [p.arg for p in params.posonlyargs + params.args]
    a = list(args)
    if self_obj is not None and self_obj is not _NOSELF:
        a = [self_obj] + a
    defaults = params.defaults
    ndef = len(defaults)
    for i, name in enumerate(allp):
        if i < len(a):
            env[name] = a[i]
        elif name in kwargs:
            env[name] = kwargs[name]
        else:
            di = i - (len(allp) - ndef)
            if di < 0:
                raise PyRaise(TypeError, (f"missing argument {name} for {q}",))
            env[name] = self.eval_default(defaults[di], clo)
    if len(a) > len(allp):
        if params.vararg:
            env[params.vararg.arg] = tuple(a[len(allp):])
        else:
            raise PyRaise(TypeError, (f"too many arguments for {q}",))
    elif params.vararg:
        env[params.vararg.arg] = ()
    for p, d in zip(params.kwonlyargs, params.kw_defaults):
        if p.arg in kwargs:
            env[p.arg] = kwargs[p.arg]
        elif d is not None:
            env[p.arg] = self.eval_default(d, clo)
        else:
            raise PyRaise(TypeError, (f"missing kwonly {p.arg}",))
    extra = {k: v for k, v in kwargs.items() if k not in allp and k not in [p.arg for p in params.kwonlyargs]}
    if params.kwarg:
        env[params.kwarg.arg] = HDict(extra)
    elif extra:
        raise PyRaise(TypeError, (f"unexpected keyword {list(extra)} for {q}",))
    if len(self.frames) > 200:
        raise PyRaise(RecursionError, (q,))
    fr = Frame(q, env, clo.defenv)
    fr.gbase = len(self.gstack)
    fr.dead_at_entry = self.dead
    if _is_generator(node):
        # generator functions are evaluated EAGERLY: the yielded items are collected and handed over as a finite iterable.  Sound for
        # generators without side effects whose source collection is not mutated while the caller iterates (nmfu: all_transitions,
        # all_transitions_for); a yield under a symbolic guard is refused rather than approximated.
        fr.yielded = []
        self.frames.append(fr)
        self.trace_calls.append(q)
        try:
            try:
                self.exec_block(node.body)
            except _Return:
                pass
            if fr.returns:
                raise Unsupported(f"generator {q} with a guarded return")
            return _LazyIter(fr.yielded)
        finally:
            self.frames.pop()
            self.version += 1
    self.frames.append(fr)
    self.trace_calls.append(q)
    # guards of the caller keep applying; callee's own returned/loops start fresh
    try:
        try:
            self.exec_block(node.body)
        except _Return as r:
            if not fr.returns:
                return r.value
        # merge guarded returns
        if not fr.returns:
            return None
        rest = znot(fr.returned)
        # implicit `return None` on the remaining paths if feasible
        self.frames.pop()
        popped = True
        try:
            rem_feasible = rest is not False and feasible(self.pc + [zbool(self.guard()), zbool(rest)])
        finally:
            self.frames.append(fr)
        vals = list(fr.returns)
        if rem_feasible:
            vals.append((rest, None, ()))
        acc = vals[-1][1]
        sites = set()
        for g, v, ss in vals:
            sites.update(ss)
        try:
            for g, v, ss in reversed(vals[:-1]):
                acc = self.ite(g, v, acc)
        except NeedFork as nf:
            raise NeedFork(tuple(sites) + tuple(nf.sites), "return values of %s: %s" % (q, nf.why))
        return acc
    finally:
        self.frames.pop()
        self.version += 1


def _is_generator(node):
    todo = list(node.body)
    while todo:
        x = todo.pop()
        if isinstance(x, (ast.Yield, ast.YieldFrom)):
            return True
        if isinstance(x, (ast.FunctionDef, ast.Lambda, ast.ClassDef)):
            continue
        todo.extend(ast.iter_child_nodes(x))
    return False


@E
def e_Yield(self, n):
    fr = self.frames[-1]
    if not hasattr(fr, "yielded"):
        raise Unsupported("yield outside a generator frame")
    if self.guard() is not True:
        raise NeedFork(self.sites(), "yield under a symbolic guard")
    fr.yielded.append(self.eval(n.value) if n.value is not None else None)
    return None


@E
def e_YieldFrom(self, n):
    fr = self.frames[-1]
    if not hasattr(fr, "yielded"):
        raise Unsupported("yield from outside a generator frame")
    if self.guard() is not True:
        raise NeedFork(self.sites(), "yield from under a symbolic guard")
    for it in self.iterate(self.eval(n.value)):
        if isinstance(it, GuardedItem):
            raise Unsupported("yield from over guarded items")
        fr.yielded.append(it)
    return None


@E
def eval_default(self, dnode, clo):
    if isinstance(dnode, ast.Constant):
        return dnode.value
    # evaluate in module scope
    fr = Frame("<default>", {}, clo.defenv)
    self.frames.append(fr)
    try:
        v = self.eval(dnode)
    finally:
        self.frames.pop()
    return v


@E
def call_method(self, obj, name, args, kwargs):
    obj = norm_str(obj)
    if isinstance(obj, SObj):
        fm = self.find_method(obj.cls, name)
        if not fm:
            raise Unsupported(f"method {obj.cls.__name__}.{name}")
        return self.call_closure(Closure(self.funcs[fm[0]], fm[0], [], self_obj=obj), args, kwargs)
    from . import builtins_ as B
    return B.method(self, obj, name, args, kwargs)


@E
def call_builtin(self, fn, args, kwargs):
    from . import builtins_ as B
    return B.builtin(self, fn, args, kwargs)
