"""Models of the Python builtins / container methods that the target functions use."""
import ast, builtins, string as _string, itertools, os, enum, types, io
import copy as _copy
import z3
from .sym import *
from .interp import PyRaise, SObj, HList, HDict, Closure, GuardedItem, Seg, has_seg
from .expr import _LazyIter, BoundBuiltin, YSet

_PURE = {len, ord, chr, abs, min, max, sum, sorted, repr, hash, format, divmod, round, hex, bin, oct, id, callable,
         hasattr, issubclass, iter, frozenset, set, list, tuple, reversed}


def concrete_args(args, kwargs):
    for a in list(args) + list(kwargs.values()):
        if is_symbolic(a) or isinstance(a, (SObj, HList, HDict, Closure, _LazyIter, SSet, BoundBuiltin)):
            return False
        if isinstance(a, SStr):
            return False
    return True


def unwrap(a):
    a = norm_str(a)
    return a


def unwrapR(eng, a):
    return norm_str(eng.R(a))


def builtin(eng, fn, args, kwargs):
    args = [unwrapR(eng, a) for a in args]
    name = getattr(fn, "__name__", None)
    if fn is isinstance:
        return _isinstance(eng, args[0], args[1])
    if fn is len:
        return _len(eng, args[0])
    if fn is print:
        return None
    if fn is range:
        if concrete_args(args, kwargs):
            return range(*args)
        if len(args) == 1 and is_z3(args[0]):
            return _sym_range(eng, args[0])
        if len(args) == 2 and isinstance(args[0], int) and not isinstance(args[0], bool) and is_z3(args[1]):
            # range(lo, hi) with a concrete start: the count hi - lo is decided as for range(n)
            r = _sym_range(eng, simp(args[1] - args[0]))
            items = r.items if isinstance(r, _LazyIter) else list(r)
            return _LazyIter([x if isinstance(x, _Trunc) else x + args[0] for x in items])
        raise Unsupported("range over symbolic bound (needs loop contract)")
    if fn is enumerate:
        items = eng.iterate(args[0])
        start = args[1] if len(args) > 1 else kwargs.get("start", 0)
        return _LazyIter([(i + start, x) if not isinstance(x, GuardedItem) else GuardedItem(x.cond, (i + start, x.value)) for i, x in enumerate(items)])
    if fn is zip:
        cols = [eng.iterate(a) for a in args]
        return _LazyIter(list(zip(*cols)))
    if fn is reversed:
        return _LazyIter(list(reversed(eng.iterate(args[0]))))
    if fn is sorted and not concrete_args(args, kwargs):
        # stable insertion sort; symbolic comparisons of keys fork the path (every ordering is explored)
        items = eng.iterate(args[0])
        key = kwargs.get("key")
        if any(isinstance(x, GuardedItem) for x in items):
            raise Unsupported("sorted over guarded items")
        keyed = [(eng.call(key, [x], {}) if key is not None else x, x) for x in items]
        out = []
        for n_, (kx, x) in enumerate(keyed):
            pos = len(out)
            while pos > 0:
                c = eng.compare(ast.Lt(), kx, out[pos - 1][0])
                if eng.decide(c, ("sorted", n_, pos, len(eng.oracle.taken))):
                    pos -= 1
                else:
                    break
            out.insert(pos, (kx, x))
        res = [x for _, x in out]
        if kwargs.get("reverse"):
            if is_symbolic(kwargs["reverse"]):
                raise Unsupported("sorted with symbolic reverse")
            # reverse=True keeps equal elements in original order: sort by reversed comparison instead of reversing
            raise Unsupported("sorted(reverse=True) with symbolic keys")
        return HList(res)
    if fn is any or fn is all:
        items = eng.iterate(args[0])
        cs = [eng.cond(x) for x in items]
        if fn is any:
            return zor(*cs) if not all(isinstance(c, bool) for c in cs) else any(cs)
        return zand(*cs) if not all(isinstance(c, bool) for c in cs) else all(cs)
    if fn is sum:
        items = eng.iterate(args[0])
        acc = args[1] if len(args) > 1 else 0
        for x in items:
            acc = eng.binop(ast.Add(), acc, x)
        return acc
    if fn in (max, min) and (not concrete_args(args, kwargs) or isinstance(kwargs.get("key"), Closure) or (args and isinstance(args[0], YSet))):
        items = eng.iterate(args[0]) if len(args) == 1 else list(args)
        if kwargs.get("key") is not None:
            # first maximal (minimal) element, as CPython: strict comparison against the best so far; symbolic comparisons fork the path
            if not items:
                eng.do_raise(ValueError, ("max() arg is an empty sequence",), True, where="max")
                return None
            key = kwargs["key"]
            best, kb = items[0], eng.call(key, [items[0]], {})
            for n_, x in enumerate(items[1:]):
                kx = eng.call(key, [x], {})
                c = eng.compare(ast.Gt() if fn is max else ast.Lt(), kx, kb)
                if eng.decide(c, ("maxkey", n_, len(eng.oracle.taken))):
                    best, kb = x, kx
            return best
        acc = items[0]
        for x in items[1:]:
            c = eng.compare(ast.Gt() if fn is max else ast.Lt(), x, acc)
            acc = eng.ite(c, x, acc) if not isinstance(c, bool) else (x if c else acc)
        return acc
    if fn is ord:
        a = args[0]
        if is_strlike(a) and is_symbolic(a):
            s = as_sstr(a).z3()
            eng.do_raise(TypeError, ("ord() expected a character",), simp(z3.Length(s) != 1), where="ord")
            return z3.StrToCode(s)
    if fn is chr:
        a = args[0]
        if is_z3(a):
            eng.do_raise(ValueError, ("chr() arg not in range",), simp(z3.Or(a < 0, a > 0x10ffff)), where="chr")
            return SStr((z3.StrFromCode(a),))
    if fn is next:
        it = args[0]
        if isinstance(it, _LazyIter):
            if it.items:
                return it.items.pop(0)
            if len(args) > 1:
                return args[1]
            eng.do_raise(StopIteration, (), True, where="next")
            return None
        if isinstance(it, SymIter):
            return it.next(eng, args[1:] )
    if fn is iter:
        a = args[0]
        if isinstance(a, SymIter):
            return a
        return _LazyIter(eng.iterate(a))
    if fn is exit or name == "exit":
        eng.do_raise(SystemExit, tuple(args), True, where="exit")
        return None
    if fn is getattr:
        try:
            return eng.get_attr(args[0], args[1])
        except PyRaise:
            if len(args) > 2:
                return args[2]
            raise
    if fn is os.path.basename or fn is os.path.splitext:
        if not concrete_args(args, kwargs):
            h = eng.hooks.get("uninterp")
            if h:
                return h(eng, fn.__name__, args)
            raise Unsupported(fn.__name__ + " on symbolic")
    if fn is id and len(args) == 1 and isinstance(args[0], (SObj, HList, HDict)):
        return id(args[0])    # identity of a heap object of the interpreter: concrete and unique while the run lasts
    if fn is _copy.copy and len(args) == 1 and isinstance(args[0], (SObj, HList)):
        # shallow copy: a new heap object whose fields / items are the same values (lists inside stay shared, as in Python)
        src = args[0]
        if isinstance(src, SObj):
            if "__copy__" in getattr(src.cls, "__dict__", {}):
                raise Unsupported("copy.copy of a class with __copy__")
            return SObj(src.cls, dict(src.fields))
        return HList(list(src.items))
    if fn is itertools.chain:
        out = []
        for a in args:
            out.extend(eng.iterate(a))
        return _LazyIter(out)
    if fn is itertools.islice:
        items = eng.iterate(args[0])
        return _LazyIter(list(itertools.islice(items, *args[1:])))
    if fn is itertools.repeat and len(args) == 2 and not is_symbolic(args[1]):
        return _LazyIter([args[0]] * args[1])
    if fn is itertools.combinations:
        return _LazyIter(list(itertools.combinations(eng.iterate(args[0]), args[1])))
    if fn is super:
        fr = eng.frames[-1]
        self_obj = fr.env.get("self")
        cname = fr.qualname.split(".")[0]
        cls = getattr(eng.module, cname)
        return _Super(self_obj, cls)
    if concrete_args(args, kwargs):
        if isinstance(fn, type) and issubclass(fn, BaseException):
            return fn(*args, **kwargs)
        try:
            return fn(*args, **kwargs)
        except PyRaise:
            raise
        except Exception as e:
            eng.do_raise(type(e), tuple(e.args), True, where=f"builtin {name}")
            return None
    if isinstance(fn, type) and issubclass(fn, BaseException):
        o = SObj(fn)
        o.fields["args"] = tuple(args)
        return o
    if isinstance(fn, _SuperMethod):
        return fn.call(eng, args, kwargs)
    raise Unsupported(f"builtin {fn!r} with symbolic/object arguments")


RANGE_K = 8


class TruncatedRange(list):
    pass


def _sym_range(eng, n):
    """range(n) with symbolic n: decide n<=0, n==1..K, n>K (the last case must die before the K+1 items are used up)"""
    conds = [simp(n <= 0)] + [simp(n == k) for k in range(1, RANGE_K + 1)] + [simp(n > RANGE_K)]
    idx = eng.oracle.choose(eng, ("range", RANGE_K), conds)
    if idx <= RANGE_K:
        return range(idx)
    return _LazyIter(list(range(RANGE_K + 1)) + [_TRUNC])


class _Trunc:
    pass


_TRUNC = _Trunc()


class _Super:
    def __init__(self, obj, cls):
        self.obj, self.cls = obj, cls


class _SuperMethod:
    pass


def _isinstance(eng, obj, cls):
    obj = norm_str(obj)
    clss = cls if isinstance(cls, tuple) else (cls,)
    if isinstance(obj, SObj):
        return any(isinstance(c, type) and issubclass(obj.cls, c) for c in clss)
    if isinstance(obj, HList):
        return any(c in (list, object) for c in clss)
    if isinstance(obj, HDict):
        return any(c in (dict, object) for c in clss)
    if is_strlike(obj):
        return any(c in (str, object) for c in clss)
    if is_z3(obj):
        if z3.is_bool(obj):
            return any(c in (bool, int, object) for c in clss)
        if z3.is_int(obj):
            return any(c in (int, object) for c in clss)
    if isinstance(obj, SSet):
        return any(c in (frozenset, object) for c in clss)
    return isinstance(obj, clss)


def _len(eng, a):
    if isinstance(a, YSet):
        if all(c is True for c, _ in a.items) and not any(is_symbolic(x) for _, x in a.items):
            return len(a.items)
        raise Unsupported("len of a set with symbolic elements or membership")
    if isinstance(a, HList) and has_seg(a.items):
        for x in a.items:
            if isinstance(x, Seg):
                eng.pc.append(x.length >= 0)
        return simp(z3.Sum([x.length if isinstance(x, Seg) else z3.IntVal(1) for x in a.items]))
    if isinstance(a, HList):
        return len(a.items)
    if isinstance(a, HDict):
        if any(p is not True for p in a.present.values()):
            return simp(z3.Sum([z3.If(zbool(p), 1, 0) for p in a.present.values()]))
        return len(a.items)
    if isinstance(a, SStr) or (is_z3(a) and z3.is_string(a)):
        return simp(as_sstr(a).length())
    if isinstance(a, _LazyIter):
        eng.do_raise(TypeError, ("object of type 'generator' has no len()",), True)
        return 0
    if isinstance(a, SSet):
        h = eng.hooks.get("sset_len")
        if h:
            return h(eng, a)
        raise Unsupported("len of symbolic set")
    if a is None or isinstance(a, (int, bool)) or is_z3(a):
        eng.do_raise(TypeError, ("object has no len()",), True, where="len")
        return 0
    return len(a)


class SymIter:
    """iterator over a command-line-like list with a symbolic 'has next' (used by the C19 per-option contract)"""

    def __init__(self, items):
        self.items = list(items)

    def next(self, eng, default):
        if self.items:
            it = self.items.pop(0)
            if isinstance(it, GuardedItem):
                eng.do_raise(StopIteration, (), znot(it.cond), where="next")
                return it.value
            return it
        if default:
            return default[0]
        eng.do_raise(StopIteration, (), True, where="next")
        return None


def method(eng, obj, name, args, kwargs):
    obj = unwrapR(eng, obj)
    args = [unwrapR(eng, a) for a in args]
    if isinstance(obj, _Super):
        raise Unsupported("super method")
    if isinstance(obj, HList):
        return _list_method(eng, obj, name, args, kwargs)
    if isinstance(obj, HDict):
        return _dict_method(eng, obj, name, args, kwargs)
    if isinstance(obj, SSet):
        return _sset_method(eng, obj, name, args, kwargs)
    if isinstance(obj, YSet):
        if name == "add":
            if eng.wguard() is not True:
                raise NeedFork(eng.sites(), "set.add under guard")
            m = eng.yset_member(args[0], obj)
            if m is True:
                return None
            if m is not False:
                raise Unsupported("set.add of an element whose membership is symbolic")
            obj.items.append((True, args[0]))
            return None
        if name == "copy":
            return YSet(list(obj.items))
        if name == "update":
            if eng.wguard() is not True:
                raise NeedFork(eng.sites(), "set.update under guard")
            for src in args:
                for x in eng.iterate(src, concat=True):
                    m = eng.yset_member(x, obj)
                    if m is True:
                        continue
                    if m is not False:
                        raise Unsupported("set.update with an element whose membership is symbolic")
                    obj.items.append((True, x))
            return None
        raise Unsupported(f"set.{name} on a set with symbolic elements")
    if is_strlike(obj):
        return _str_method(eng, obj, name, args, kwargs)
    if isinstance(obj, (set, frozenset)) and any(isinstance(a, SSet) for a in args):
        return _sset_method(eng, eng.to_sset(obj), name, args, kwargs)
    if isinstance(obj, (list, tuple, dict, set, frozenset, str)):
        if concrete_args(args, kwargs):
            if isinstance(obj, (list, dict, set)) and name in ("append", "extend", "remove", "add", "update", "pop", "clear", "sort", "insert", "discard", "difference_update", "setdefault"):
                raise Unsupported(f"mutation of real {type(obj).__name__} via .{name}")
            try:
                return getattr(obj, name)(*args, **kwargs)
            except Exception as e:
                eng.do_raise(type(e), tuple(e.args), True, where=f".{name}")
                return None
        if isinstance(obj, (list, tuple)):
            return _list_method(eng, HList(obj), name, args, kwargs)
        if isinstance(obj, dict):
            return _dict_method(eng, HDict(dict(obj)), name, args, kwargs)
    raise Unsupported(f"method .{name} on {type(obj).__name__}")


def _list_method(eng, obj, name, args, kwargs):
    g = eng.wguard()

    def need_unguarded():
        if g is not True:
            raise NeedFork(eng.sites(), f"list.{name} under guard")
    if name == "append":
        need_unguarded()
        obj.items.append(args[0])
        return None
    if name == "extend":
        need_unguarded()
        obj.items.extend(eng.iterate(args[0], concat=True))
        return None
    if name == "insert":
        need_unguarded()
        if has_seg(obj.items) and args[0] != 0:
            raise Unsupported("list.insert at a position other than 0 into a list that holds an arbitrary segment")
        obj.items.insert(args[0], args[1])
        return None
    if name == "copy":
        return HList(obj.items)
    if name == "pop":
        need_unguarded()
        return obj.items.pop(*args)
    if name == "clear":
        need_unguarded()
        obj.items.clear()
        return None
    if name in ("index", "remove", "sort", "count", "pop") and has_seg(obj.items):
        raise Unsupported(f"list.{name} on a list that holds an arbitrary segment")
    if name == "index":
        for i, x in enumerate(obj.items):
            c = eng.compare(ast.Eq(), x, args[0])
            if c is True:
                return i
            if c is not False:
                raise Unsupported("list.index with symbolic equality")
        eng.do_raise(ValueError, ("not in list",), True, where="list.index")
        return 0
    if name == "remove":
        need_unguarded()
        for i, x in enumerate(obj.items):
            c = eng.compare(ast.Eq(), x, args[0])
            if c is True:
                del obj.items[i]
                return None
            if c is not False:
                raise Unsupported("list.remove with symbolic equality")
        eng.do_raise(ValueError, ("list.remove(x): x not in list",), True, where="list.remove")
        return None
    if name == "sort":
        need_unguarded()
        if any(is_symbolic(x) for x in obj.items):
            raise Unsupported("sort of symbolic list")
        key = kwargs.get("key")
        if key is not None:
            obj.items.sort(key=lambda x: eng.call(key, [x], {}))
        else:
            obj.items.sort()
        return None
    if name == "count":
        return sum(1 for x in obj.items if eng.compare(ast.Eq(), x, args[0]) is True)
    raise Unsupported(f"list.{name}")


def _dict_method(eng, obj, name, args, kwargs):
    if name == "get":
        k = args[0]
        default = args[1] if len(args) > 1 else kwargs.get("default")
        k = norm_str(k)
        if is_symbolic(k):
            keys = list(obj.items)
            conds = [zand(eng.compare(ast.Eq(), k, kk), obj.present[kk]) for kk in keys]
            vals = [obj.items[kk] for kk in keys]
            try:
                acc = default
                for c, v in zip(reversed(conds), reversed(vals)):
                    acc = eng.ite(c, v, acc)
                return acc
            except NeedFork:
                miss = znot(zor(*conds))
                idx = eng.oracle.choose(eng, ("dictget", tuple(map(repr, keys))), conds + [miss])
                return vals[idx] if idx < len(vals) else default
        if k in obj.items:
            p = obj.present[k]
            if p is True:
                return obj.items[k]
            return eng.ite(p, obj.items[k], default)
        return default
    if name == "items":
        return _LazyIter([(k, obj.items[k]) if obj.present[k] is True else GuardedItem(obj.present[k], (k, obj.items[k])) for k in obj.items])
    if name == "keys":
        return _LazyIter(eng.iterate(obj))
    if name == "values":
        if any(p is not True for p in obj.present.values()):
            raise Unsupported("values() of dict with symbolic presence")
        return _LazyIter(list(obj.items.values()))
    if name == "copy":
        return HDict(dict(obj.items), dict(obj.present))
    if name == "update":
        src = args[0]
        its = src.items.items() if isinstance(src, HDict) else dict(src).items()
        for k, v in its:
            pres = src.present[k] if isinstance(src, HDict) else True
            if pres is True:
                eng.set_item(obj, k, v)
            elif pres is not False:
                # the key exists in the source only under a condition: the store happens under that condition
                eng.gstack.append((pres, None))
                try:
                    eng.set_item(obj, k, v)
                finally:
                    eng.gstack.pop()
                eng.version += 1
        return None
    if name == "setdefault":
        k = eng.concrete_key(args[0])
        if k not in obj.items:
            eng.set_item(obj, k, args[1] if len(args) > 1 else None)
        return obj.items[k]
    raise Unsupported(f"dict.{name}")


def _sset_method(eng, obj, name, args, kwargs):
    if name == "isdisjoint":
        o = eng.to_sset(args[0])
        return simp((obj.bv & o.bv) == 0)
    if name in ("union", "intersection", "difference"):
        o = eng.to_sset(args[0])
        return SSet({"union": obj.bv | o.bv, "intersection": obj.bv & o.bv, "difference": obj.bv & ~o.bv}[name])
    if name in ("issubset", "issuperset"):
        o = eng.to_sset(args[0])
        a, b = (obj, o) if name == "issubset" else (o, obj)
        return simp((a.bv & ~b.bv) == 0)
    if name == "copy":
        return obj
    raise Unsupported(f"set.{name} on symbolic set")


def _str_method(eng, obj, name, args, kwargs):
    if not is_symbolic(obj) and concrete_args(args, kwargs):
        o = obj if isinstance(obj, str) else as_sstr(obj).concrete()
        try:
            return getattr(o, name)(*args, **kwargs)
        except Exception as e:
            eng.do_raise(type(e), tuple(e.args), True, where=f"str.{name}")
            return ""
    s = as_sstr(obj)
    if name == "startswith":
        return simp(z3.PrefixOf(as_sstr(args[0]).z3(), s.z3()))
    if name == "endswith":
        return simp(z3.SuffixOf(as_sstr(args[0]).z3(), s.z3()))
    if name == "format":
        # template must be concrete
        if not s.is_concrete():
            raise Unsupported("format on symbolic template")
        tmpl = s.concrete()
        out = []
        import string as st
        idx = 0
        for lit, field, spec, conv in st.Formatter().parse(tmpl):
            out.append(lit)
            if field is None:
                continue
            if field == "":
                v = args[idx]
                idx += 1
            elif field.isdigit():
                v = args[int(field)]
            else:
                v = kwargs[field]
            if conv == "r":
                out.append(eng.to_repr(v))
            else:
                out.append(eng.format_value(v, spec or None))
        return norm_str(SStr(tuple(as_sstr(p) if not isinstance(p, str) else p for p in out)))
    if name == "join":
        items = eng.iterate(args[0])
        out = []
        for i, it in enumerate(items):
            if i:
                out.append(s)
            out.append(as_sstr(norm_str(it)))
        return norm_str(SStr(tuple(out)))
    if name == "encode":
        h = eng.hooks.get("str_encode")
        if h:
            return h(eng, s, args, kwargs)
        raise Unsupported("encode on symbolic string")
    h = eng.hooks.get("str_method")
    if h:
        r = h(eng, s, name, args, kwargs)
        if r is not NotImplemented:
            return r
    raise Unsupported(f"str.{name} on symbolic string")
