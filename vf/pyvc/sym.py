"""Symbolic value layer for pyvc: z3-backed ints/bools/strings, ropes, byte sets, solver helpers."""
import z3, time, subprocess, tempfile, os

TIMEOUT_MS = 30000


class Unsupported(Exception):
    """Construct outside the modelled subset -> undecided (exit 2), never a verdict."""


class NeedFork(Exception):
    def __init__(self, sites, why=""):
        super().__init__(why)
        self.sites = tuple(sites)
        self.why = why


def is_z3(v):
    return isinstance(v, z3.ExprRef)


def is_symbolic(v):
    if is_z3(v) or isinstance(v, SChoice):
        return True
    if isinstance(v, SStr):
        return not v.is_concrete()
    if isinstance(v, SSet):
        return True
    if isinstance(v, tuple):
        return any(is_symbolic(x) for x in v)
    return False


class SStr:
    """Rope: tuple of python str / z3 String-sorted expressions."""
    __slots__ = ("parts",)

    def __init__(self, parts=()):
        out = []
        for p in parts:
            if isinstance(p, SStr):
                ps = p.parts
            else:
                ps = (p,)
            for q in ps:
                if isinstance(q, str):
                    if not q:
                        continue
                    if out and isinstance(out[-1], str):
                        out[-1] = out[-1] + q
                        continue
                elif z3.is_string_value(q):
                    s = q.as_string()
                    try:
                        s = _z3_unescape(s)
                    except Exception:
                        pass
                    if not s:
                        continue
                    if out and isinstance(out[-1], str):
                        out[-1] = out[-1] + s
                    else:
                        out.append(s)
                    continue
                out.append(q)
        self.parts = tuple(out)

    def is_concrete(self):
        return all(isinstance(p, str) for p in self.parts)

    def concrete(self):
        return "".join(self.parts)

    def z3(self):
        if not self.parts:
            return z3.StringVal("")
        zs = [z3.StringVal(p) if isinstance(p, str) else p for p in self.parts]
        if len(zs) == 1:
            return zs[0]
        return z3.Concat(*zs)

    def __add__(self, other):
        return SStr(self.parts + as_sstr(other).parts)

    def __radd__(self, other):
        return SStr(as_sstr(other).parts + self.parts)

    def __repr__(self):
        return "SStr(" + " + ".join(repr(p) if isinstance(p, str) else str(p) for p in self.parts) + ")"

    def length(self):
        n = 0
        syms = []
        for p in self.parts:
            if isinstance(p, str):
                n += len(p)
            else:
                syms.append(z3.Length(p))
        if not syms:
            return n
        return z3.Sum([z3.IntVal(n)] + syms) if n else (syms[0] if len(syms) == 1 else z3.Sum(syms))

    def key(self):
        return tuple(p if isinstance(p, str) else ("z3", p.sexpr()) for p in self.parts)


def _z3_unescape(s):
    # z3 prints non-printables as \u{XX}
    import re
    return re.sub(r"\\u\{([0-9a-fA-F]+)\}", lambda m: chr(int(m.group(1), 16)), s)


def as_sstr(v):
    if isinstance(v, SStr):
        return v
    if isinstance(v, str):
        return SStr((v,))
    if is_z3(v) and z3.is_string(v):
        return SStr((v,))
    raise Unsupported(f"not a string: {v!r}")


def norm_str(v):
    """Return python str if concrete, else SStr."""
    if isinstance(v, SStr):
        if v.is_concrete():
            return v.concrete()
        return v
    if is_z3(v) and z3.is_string(v):
        return norm_str(SStr((v,)))
    return v


def is_strlike(v):
    return isinstance(v, (str, SStr)) or (is_z3(v) and z3.is_string(v))


class SChoice:
    """value that is one of several alternatives of different kinds: [(cond, value)], conds exclusive and exhaustive"""
    __slots__ = ("alts",)

    def __init__(self, alts):
        flat = []
        for c, v in alts:
            if isinstance(v, SChoice):
                for c2, v2 in v.alts:
                    flat.append((zand(c, c2), v2))
            else:
                flat.append((c, v))
        self.alts = [(c, v) for c, v in flat if c is not False]

    def __repr__(self):
        return f"SChoice({self.alts})"


class SSet:
    """Symbolic subset of the 256 byte values (frozenset of 1-char strings), as a 256-bit vector."""
    __slots__ = ("bv",)
    FULL = None

    def __init__(self, bv):
        self.bv = bv

    @staticmethod
    def of_concrete(chars):
        n = 0
        for c in chars:
            o = ord(c) if isinstance(c, str) else int(c)
            if not (0 <= o < 256):
                raise Unsupported("SSet element outside byte range")
            n |= 1 << o
        return SSet(z3.BitVecVal(n, 256))

    def __repr__(self):
        return f"SSet({self.bv})"


def to_int(v):
    if isinstance(v, bool):
        return z3.IntVal(1 if v else 0)
    if isinstance(v, int):
        return z3.IntVal(int(v))
    if is_z3(v):
        if z3.is_int(v):
            return v
        if z3.is_bool(v):
            return z3.If(v, z3.IntVal(1), z3.IntVal(0))
    raise Unsupported(f"not int-like: {v!r}")


def to_bool(v):
    """python truthiness as z3 Bool / python bool"""
    if isinstance(v, SChoice):
        return zor(*[zand(c, to_bool(x)) for c, x in v.alts])
    if isinstance(v, bool):
        return v
    if v is None:
        return False
    if isinstance(v, int):
        return v != 0
    if is_z3(v):
        if z3.is_bool(v):
            return simp(v)
        if z3.is_int(v):
            return simp(v != 0)
        if z3.is_string(v):
            return simp(z3.Length(v) != 0)
    if isinstance(v, SStr):
        if v.is_concrete():
            return bool(v.concrete())
        return simp(as_z3(v.length()) != 0)
    if isinstance(v, SSet):
        return simp(v.bv != 0)
    return bool(v)


def as_z3(v):
    if is_z3(v):
        return v
    if isinstance(v, bool):
        return z3.BoolVal(v)
    if isinstance(v, int):
        return z3.IntVal(v)
    if isinstance(v, str):
        return z3.StringVal(v)
    if isinstance(v, SStr):
        return v.z3()
    raise Unsupported(f"cannot convert to z3: {v!r}")


def simp(e):
    if is_z3(e):
        e = z3.simplify(e)
        if z3.is_true(e):
            return True
        if z3.is_false(e):
            return False
        if z3.is_int_value(e):
            return e.as_long()
    return e


def zand(*xs):
    out = []
    for x in xs:
        if x is True:
            continue
        if x is False:
            return False
        out.append(x)
    if not out:
        return True
    if len(out) == 1:
        return out[0]
    return simp(z3.And(*out))


def zor(*xs):
    out = []
    for x in xs:
        if x is False:
            continue
        if x is True:
            return True
        out.append(x)
    if not out:
        return False
    if len(out) == 1:
        return out[0]
    return simp(z3.Or(*out))


def znot(x):
    if x is True:
        return False
    if x is False:
        return True
    return simp(z3.Not(x))


def zbool(x):
    return z3.BoolVal(x) if isinstance(x, bool) else x


STATS = {"checks": 0, "secs": 0.0, "cvc5": 0}


def check(conds, timeout_ms=TIMEOUT_MS, want_model=False):
    """-> (verdict, model|None, backend)"""
    cs = []
    for c in conds:
        if c is True:
            continue
        if c is False:
            return ("unsat", None, "trivial")
        cs.append(c)
    if not cs:
        return ("sat", None, "trivial")
    s = z3.Solver()
    s.set("timeout", timeout_ms)
    for c in cs:
        s.add(c)
    t = time.time()
    r = s.check()
    STATS["checks"] += 1
    STATS["secs"] += time.time() - t
    if r == z3.unsat:
        return ("unsat", None, "z3")
    if r == z3.sat:
        return ("sat", s.model() if want_model else None, "z3")
    # unknown -> cvc5
    v = _cvc5(s, timeout_ms)
    if v in ("sat", "unsat"):
        return (v, None, "cvc5")
    return ("unknown", None, "z3+cvc5")


def _cvc5(solver, timeout_ms):
    try:
        txt = solver.to_smt2()
        txt = "(set-logic ALL)\n" + txt
        with tempfile.NamedTemporaryFile("w", suffix=".smt2", delete=False) as f:
            f.write(txt)
            name = f.name
        try:
            t = time.time()
            p = subprocess.run(["/usr/bin/cvc5", "--lang", "smt2", "--strings-exp", f"--tlimit={timeout_ms}", name],
                               capture_output=True, text=True, timeout=timeout_ms / 1000 + 10)
            STATS["cvc5"] += 1
            STATS["secs"] += time.time() - t
            out = p.stdout.strip().splitlines()
            return out[0].strip() if out else "unknown"
        finally:
            os.unlink(name)
    except Exception:
        return "unknown"


def feasible(conds, timeout_ms=5000):
    v, _, _ = check(conds, timeout_ms)
    return v != "unsat"


def prove(hyps, goal, timeout_ms=TIMEOUT_MS):
    """-> (verdict in proved/refuted/unknown, model, backend, secs)"""
    t = time.time()
    if goal is True:
        return ("proved", None, "trivial", 0.0)
    g = znot(zbool(goal)) if not isinstance(goal, bool) else (not goal)
    v, m, b = check(list(hyps) + [g], timeout_ms, want_model=True)
    secs = time.time() - t
    if v == "unsat":
        return ("proved", None, b, secs)
    if v == "sat":
        return ("refuted", m, b, secs)
    return ("unknown", None, b, secs)


def model_value(m, e):
    """Evaluate expr under model to a python value (int/bool/str)."""
    if not is_z3(e):
        if isinstance(e, SStr):
            return "".join(p if isinstance(p, str) else model_value(m, p) for p in e.parts)
        return e
    v = m.eval(e, model_completion=True)
    if z3.is_int_value(v):
        return v.as_long()
    if z3.is_true(v):
        return True
    if z3.is_false(v):
        return False
    if z3.is_string_value(v):
        return _z3_unescape(v.as_string())
    if z3.is_bv_value(v):
        return v.as_long()
    return str(v)
