"""Self-test of the VC engine (validates the verifier, decides no property):
 1. a true post-condition is proved, a deliberately false one is refuted (vacuity guard of the engine);
 2. CPython cross-check: symbolic results evaluated under random concrete arguments equal what the real function returns."""
import random, sys
import z3
from .. import common
from .sym import *
from .driver import Program, explore, call_function
from .interp import SObj


def main():
    nmfu = common.load_nmfu()
    P = Program(nmfu, common.repo_source())
    null, size = z3.Bool("null"), z3.Int("size")

    def body(eng):
        o = SObj(nmfu.OutputStorage, {"str_null": null, "str_size": size})
        return call_function(eng, "OutputStorage.effective_string_size", [], self_obj=o)
    rs = explore(P, body)
    ok = True
    for r in rs:
        v, _, _, _ = prove(r.pc, to_int(r.value) == z3.If(null, size - 1, size))
        ok &= v == "proved"
        v, m, _, _ = prove(r.pc, to_int(r.value) == size)
        ok &= v == "refuted"
    rnd = random.Random(common.seed())
    m = z3.Int("m")
    for signed in (True, False):
        def body2(eng):
            return call_function(eng, "CodegenCtx._integer_containing", [], {"maxval": m, "signed": signed}, self_obj=SObj(nmfu.CodegenCtx, {}))
        rs = explore(P, body2)
        real = nmfu.CodegenCtx.__new__(nmfu.CodegenCtx)
        for _ in range(40):
            k = rnd.choice([0, 1, 127, 128, 255, 256, 32767, 32768, 65535, 65536, 2**31 - 1, 2**31, 2**32 - 1, 2**32, rnd.randrange(0, 2**40)])
            s = z3.Solver()
            s.add(m == k)
            for r in rs:
                s.push()
                for c in r.pc:
                    s.add(c)
                if s.check() == z3.sat:
                    got = model_value(s.model(), as_sstr(r.value))
                    want = real._integer_containing(k, signed)
                    if got != want:
                        print("cross-check mismatch", k, signed, got, want)
                        ok = False
                s.pop()
    print("pyvc selftest", "ok" if ok else "FAILED")
    return 0 if ok else 3
