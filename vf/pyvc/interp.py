"""pyvc core: predicated symbolic interpreter over the *real* AST of /repo/nmfu.py.

All paths are executed in one run under guards (if-conversion); exits (raise/return) are recorded with
their guard.  Where values cannot be merged by ite the run is restarted with the offending `if` sites
in decision (fork) mode and the driver enumerates the decisions.
"""
import ast, types, enum, builtins, inspect
import z3
from .sym import *
from . import sym as S


class PyRaise(Exception):
    def __init__(self, exc_cls, args=()):
        self.exc_cls = exc_cls
        self.args_ = tuple(args)


class _Return(Exception):
    def __init__(self, value):
        self.value = value


class _Break(Exception):
    pass


class _EndPath(Exception):
    """the current exploration path ends here (used by loop contracts: the iteration world stops after the body)"""


class _Continue(Exception):
    pass


class SObj:
    """Instance of a class being interpreted (fields may be symbolic)."""

    def __init__(self, cls, fields=None):
        self.cls = cls
        self.fields = dict(fields or {})

    def __repr__(self):
        return f"SObj<{self.cls.__name__}>"


class HList:
    def __init__(self, items=()):
        self.items = list(items)

    def __bool__(self):
        # native truth value (reached only through bool()/to_bool): decided, or refused - never the default `True` of a plain object
        if any(isinstance(x, Seg) for x in self.items):
            raise Unsupported("native truth value of a list that holds an arbitrary segment")
        return len(self.items) > 0

    def __repr__(self):
        return f"HList({self.items})"


class Seg:
    """An arbitrary finite sequence of opaque elements (length unknown, >= 0) standing inside an HList / tuple.  The engine allows
    only concatenation-like uses of a container that holds one (star-arguments, extend, list()/tuple(), +, copy, assignment):
    the container then denotes the concatenation of its items.  Element-wise uses (iteration, indexing, membership) are refused,
    len/truth/== become symbolic.  This is how a proof quantifies over *all* action lists."""
    n = 0

    def __init__(self, name, elem=None):
        self.name = name
        self.elem = elem          # "str": every element is a string (a symbol list); None: opaque objects
        Seg.n += 1
        self.length = z3.Int(f"len_{name}_{Seg.n}")

    def __repr__(self):
        return f"<{self.name}...>"


def has_seg(items):
    return any(isinstance(x, Seg) for x in items)


class HDict:
    """dict with concrete keys; `present[k]` is the condition under which the key exists."""

    def __init__(self, items=None, present=None):
        self.items = dict(items or {})
        self.present = dict(present or {k: True for k in self.items})

    def __bool__(self):
        if any(p is not True for p in self.present.values()):
            raise Unsupported("native truth value of a dict with symbolic key presence")
        return len(self.items) > 0

    def __repr__(self):
        return f"HDict({self.items})"


class Closure:
    def __init__(self, node, qualname, defenv, real=None, self_obj=None):
        self.node = node
        self.qualname = qualname
        self.defenv = defenv       # list of env dicts (lexical chain)
        self.real = real
        self.self_obj = self_obj


class BoundReal:
    """real nmfu function bound to a symbolic/real self"""

    def __init__(self, func, self_obj):
        self.func = func
        self.self_obj = self_obj


class Frame:
    def __init__(self, qualname, env, chain):
        self.qualname = qualname
        self.env = env
        self.defcond = {}
        self.validcond = {}
        self.gbase = 0
        self.dead_at_entry = False
        self.chain = chain      # enclosing envs
        self.returned = False
        self.returns = []       # (guard, value, sites)
        self.loops = []         # stack of dicts {broken, continued}


class Exit:
    def __init__(self, cond, exc_cls, args, where):
        self.cond = cond
        self.exc_cls = exc_cls
        self.args = args
        self.where = where


class Oracle:
    def __init__(self, prefix=()):
        self.prefix = list(prefix)
        self.taken = []
        self.alternatives = []

    def choose(self, engine, site, conds):
        pos = len(self.taken)
        if pos < len(self.prefix):
            idx = self.prefix[pos]
        else:
            base = engine.pc + [zbool(engine.guard())]
            feas = [i for i, c in enumerate(conds) if c is not False and feasible(base + [zbool(c)])]
            if not feas:
                feas = [0]
            idx = feas[0]
            for j in feas[1:]:
                self.alternatives.append(list(self.taken[:pos]) + [j])
        self.taken.append(idx)
        c = conds[idx]
        if c is not True:
            engine.pc.append(zbool(c))
        return idx


class Engine:
    def __init__(self, module, source_text, contracts=None, pure_real=()):
        self.module = module
        self.tree = ast.parse(source_text)
        self.funcs = {}
        self.classes = {}
        self._index(self.tree, "")
        self.contracts = dict(contracts or {})
        self.reset()
        self.forced_sites = set()
        self.oracle = Oracle()
        self.max_unroll = 64
        self.trace_calls = []

    # ---------- indexing ----------
    def _index(self, node, prefix):
        for ch in ast.iter_child_nodes(node):
            if isinstance(ch, (ast.FunctionDef,)):
                q = prefix + ch.name
                self.funcs[q] = ch
                self._index(ch, q + ".<locals>.")
            elif isinstance(ch, ast.ClassDef):
                self.classes[prefix + ch.name] = ch
                self._index(ch, prefix + ch.name + ".")
            elif isinstance(ch, (ast.If, ast.Try, ast.For, ast.While, ast.With)):
                self._index(ch, prefix)

    def func_ast(self, qualname):
        if qualname not in self.funcs:
            raise Unsupported(f"function {qualname} not found in source (renamed?)")
        return self.funcs[qualname]

    def reset(self):
        self.gstack = []       # (cond, site)
        self.pc = []
        self.dead = False
        self.exits = []
        self.frames = []
        self.version = 0
        self.fresh_n = 0
        self.log = []

    # ---------- guards ----------
    def guard(self):
        g = [c for c, _ in self.gstack]
        neg = [self.dead]
        if self.frames:
            f = self.frames[-1]
            neg.append(f.returned)
            for lp in f.loops:
                neg.append(lp["broken"])
                neg.append(lp["continued"])
        return zand(*g, *[znot(n) for n in neg if n is not False])

    try_depth = 0

    def wguard(self):
        """guard for heap writes: state on dead (raised, never caught) paths is irrelevant"""
        g = [c for c, _ in self.gstack]
        neg = [self.dead] if self.try_depth > 0 else []
        if self.frames:
            f = self.frames[-1]
            neg.append(f.returned)
            for lp in f.loops:
                neg.append(lp["broken"])
                neg.append(lp["continued"])
        return zand(*g, *[znot(n) for n in neg if n is not False])

    def sites(self):
        return [s for _, s in self.gstack if s is not None]

    def alive(self):
        g = self.guard()
        if g is True:
            return True
        if g is False:
            return False
        return feasible(self.pc + [g])

    def fresh(self, name, sort="int"):
        self.fresh_n += 1
        n = f"{name}!{self.fresh_n}"
        if sort == "int":
            return z3.Int(n)
        if sort == "bool":
            return z3.Bool(n)
        if sort == "str":
            return z3.String(n)
        raise Unsupported(sort)

    def decide(self, c, site):
        """fork the path on a symbolic condition (both outcomes are explored as separate paths); returns the outcome on this path"""
        if isinstance(c, bool):
            return c
        base = self.pc + [zbool(self.guard())]
        ft, ff = feasible(base + [c]), feasible(base + [znot(c)])
        if ft and not ff:
            return True
        if ff and not ft:
            return False
        if not ft and not ff:
            return False
        return self.oracle.choose(self, site, [c, znot(c)]) == 0

    # ---------- merging ----------
    def ite(self, g, new, old):
        if g is True:
            return new
        if g is False:
            return old
        if new is old:
            return new
        try:
            if not is_symbolic(new) and not is_symbolic(old) and type(new) == type(old) and not isinstance(new, (SObj, HList, HDict)) and new == old:
                return new
        except Exception:
            pass
        if isinstance(new, tuple) and isinstance(old, tuple) and len(new) == len(old):
            return tuple(self.ite(g, a, b) for a, b in zip(new, old))
        if is_strlike(new) and is_strlike(old):
            return norm_str(SStr((z3.If(g, as_sstr(new).z3(), as_sstr(old).z3()),)))
        if isinstance(new, SSet) and isinstance(old, SSet):
            return SSet(z3.If(g, new.bv, old.bv))
        nb = isinstance(new, bool) or (is_z3(new) and z3.is_bool(new))
        ob = isinstance(old, bool) or (is_z3(old) and z3.is_bool(old))
        if nb and ob:
            return simp(z3.If(g, zbool(new) if isinstance(new, bool) else new, zbool(old) if isinstance(old, bool) else old))
        if new is None or old is None or isinstance(new, SChoice) or isinstance(old, SChoice):
            return SChoice([(g, new), (znot(g), old)])
        if isinstance(new, enum.Enum) or isinstance(old, enum.Enum):
            try:
                if not is_symbolic(new) and not is_symbolic(old) and new == old and hash(new) == hash(old):
                    return new
            except Exception:
                pass
            raise NeedFork(self.sites(), "cannot merge enum members")
        ni = isinstance(new, int) or (is_z3(new) and (z3.is_int(new) or z3.is_bool(new)))
        oi = isinstance(old, int) or (is_z3(old) and (z3.is_int(old) or z3.is_bool(old)))
        if ni and oi and new is not None and old is not None:
            return simp(z3.If(g, to_int(new), to_int(old)))
        raise NeedFork(self.sites(), f"cannot merge {type(new).__name__} with {type(old).__name__}")

    def R(self, v):
        """resolve a multi-kind value by a decision"""
        if isinstance(v, SChoice):
            base = self.pc + [zbool(self.guard())]
            alts = [(c, x) for c, x in v.alts if feasible(base + [zbool(c)])]
            if len(alts) == 1:
                return alts[0][1]
            if not alts:
                return None
            idx = self.oracle.choose(self, ("choice", len(alts)), [c for c, _ in alts])
            return alts[idx][1]
        return v

    # ---------- raising ----------
    def do_raise(self, exc_cls, args=(), cond=True, where=""):
        """raise exc under `cond` (python bool or z3)."""
        if cond is False:
            return
        g = self.guard()
        full = zand(g, cond)
        if full is False:
            return
        if full is True:
            raise PyRaise(exc_cls, args)
        if not feasible(self.pc + [full]):
            return
        self.exits.append(Exit(full, exc_cls, args, where))
        self.dead = zor(self.dead, full)
        self.version += 1

    # ---------- names ----------
    def lookup(self, name):
        f = self.frames[-1]
        if name in f.env:
            dc = f.defcond.get(name, True)
            if dc is not True:
                self.do_raise(UnboundLocalError, (name,), znot(dc), where=f"{f.qualname}:{name}")
            vc = f.validcond.get(name, True)
            if vc is not True and feasible(self.pc + [zbool(self.guard()), znot(vc)]):
                raise Unsupported(f"loop variable {name} read on a path where the loop body did not run")
            if f.env[name] is POISON:
                raise Unsupported(f"use of loop variable {name} after a loop over guarded items")
            return f.env[name]
        for env in f.chain:
            if name in env:
                return env[name]
        if hasattr(self.module, name):
            return getattr(self.module, name)
        if hasattr(builtins, name):
            return getattr(builtins, name)
        # local never assigned on this path?
        fn = self.funcs.get(f.qualname)
        raise PyRaise(NameError, (name,)) if not self._is_local(f, name) else PyRaise(UnboundLocalError, (name,))

    def _is_local(self, f, name):
        node = self.funcs.get(f.qualname)
        if node is None:
            return False
        for n in ast.walk(node):
            if isinstance(n, ast.Name) and n.id == name and isinstance(n.ctx, ast.Store):
                return True
        return False

    strong = False

    def local_guard(self):
        f = self.frames[-1]
        g = [c for c, _ in self.gstack[f.gbase:]]
        neg = [self.dead if (self.dead is not f.dead_at_entry and self.try_depth > 0) else False, f.returned]
        for lp in f.loops:
            neg.append(lp["broken"])
            neg.append(lp["continued"])
        return zand(*g, *[znot(n) for n in neg if n is not False])

    def assign_name(self, name, value):
        f = self.frames[-1]
        g = self.local_guard()
        if self.strong:
            stale = name in f.env and f.env[name] is not value and g is not True
            f.env[name] = value
            f.defcond.pop(name, None)
            if stale:
                f.validcond[name] = g
            else:
                f.validcond.pop(name, None)
            return
        f.validcond.pop(name, None) if g is True else None
        # nonlocal? (closures assigning to enclosing variables are not used in targets)
        if name in f.env:
            dc = f.defcond.get(name, True)
            if dc is True:
                f.env[name] = self.ite(g, value, f.env[name])
            else:
                # partially defined
                try:
                    f.env[name] = self.ite(g, value, f.env[name])
                except NeedFork:
                    if feasible(self.pc + [zand(znot(g), dc)]):
                        raise
                    f.env[name] = value
                f.defcond[name] = zor(dc, g)
        else:
            f.env[name] = value
            if g is not True:
                f.defcond[name] = g

    # ---------- statements ----------
    def exec_block(self, stmts):
        ver = self.version
        for st in stmts:
            if self.version != ver:
                ver = self.version
                if not self.alive():
                    return
            self.exec_stmt(st)

    def exec_stmt(self, st):
        m = getattr(self, "s_" + type(st).__name__, None)
        if m is None:
            raise Unsupported(f"statement {type(st).__name__} at line {st.lineno}")
        return m(st)

    def s_Expr(self, st):
        if isinstance(st.value, ast.Constant):
            return
        self.eval(st.value)

    def s_Pass(self, st):
        pass

    def s_Assert(self, st):
        c = self.cond(self.eval(st.test))
        self.do_raise(AssertionError, (), znot(c) if not isinstance(c, bool) else (not c), where=f"assert line {st.lineno}")

    def s_Assign(self, st):
        v = self.eval(st.value)
        for t in st.targets:
            self.assign(t, v)

    def s_AnnAssign(self, st):
        if st.value is not None:
            self.assign(st.target, self.eval(st.value))

    def s_AugAssign(self, st):
        cur = self.eval(ast.copy_location(self._load(st.target), st))
        rhs = self.eval(st.value)
        if isinstance(cur, HList) and isinstance(st.op, ast.Add):
            self.call_method(cur, "extend", [rhs], {})
            return
        if isinstance(cur, SObj) and isinstance(st.op, ast.Add) and self.find_method(cur.cls, "__iadd__"):
            r = self.call_method(cur, "__iadd__", [rhs], {})
            self.assign(st.target, r)
            return
        if isinstance(cur, (set, list, dict, bytearray)):
            # `x op= y` on a mutable container of the real module (class-level table, module constant) mutates it IN PLACE: every other
            # reference - later calls included - sees the change.  The engine keeps value semantics for the rest of the run, but the
            # mutation is recorded: a function whose contract has an empty frame on module data fails on it.
            self.mutated_real.append((self.frames[-1].qualname if self.frames else "?", st.lineno, type(cur).__name__, ast.unparse(st)[:80]))
        self.assign(st.target, self.binop(st.op, cur, rhs))

    mutated_real = []

    def _load(self, t):
        if isinstance(t, ast.Name):
            return ast.Name(id=t.id, ctx=ast.Load())
        if isinstance(t, ast.Attribute):
            return ast.Attribute(value=t.value, attr=t.attr, ctx=ast.Load())
        if isinstance(t, ast.Subscript):
            return ast.Subscript(value=t.value, slice=t.slice, ctx=ast.Load())
        raise Unsupported("augassign target")

    def assign(self, t, v):
        if isinstance(t, ast.Name):
            self.assign_name(t.id, v)
        elif isinstance(t, (ast.Tuple, ast.List)):
            items = self.iterate(v)
            if len(items) != len(t.elts):
                raise PyRaise(ValueError, ("unpack",))
            for e, x in zip(t.elts, items):
                self.assign(e, x)
        elif isinstance(t, ast.Attribute):
            obj = self.eval(t.value)
            self.set_attr(obj, t.attr, v)
        elif isinstance(t, ast.Subscript):
            obj = self.eval(t.value)
            k = self.eval(t.slice)
            self.set_item(obj, k, v)
        else:
            raise Unsupported(f"assign target {type(t).__name__}")

    def set_attr(self, obj, attr, v):
        g = self.wguard()
        if isinstance(obj, SObj):
            if attr in obj.fields:
                obj.fields[attr] = self.ite(g, v, obj.fields[attr])
            else:
                if g is not True:
                    raise NeedFork(self.sites(), "new attribute under guard")
                obj.fields[attr] = v
            return
        if isinstance(obj, type) and obj.__module__ == self.module.__name__:
            # class attribute of an nmfu class (ProgramData.dry_run = ...): kept in a shadow store
            store = self.class_store.setdefault(obj, {})
            old = store[attr] if attr in store else self.wrap(getattr(obj, attr, None))
            store[attr] = self.ite(g, v, old)
            return
        raise Unsupported(f"attribute store on real object {type(obj).__name__}.{attr}")

    class_store = {}

    def set_item(self, obj, k, v):
        if isinstance(obj, SObj) and self.find_method(obj.cls, "__setitem__"):
            self.call_method(obj, "__setitem__", [k, v], {})
            return
        g = self.wguard()
        if isinstance(obj, HDict):
            k = self.concrete_key(k)
            if k in obj.items:
                obj.items[k] = self.ite(zand(g), v, obj.items[k]) if obj.present[k] is True else (v if g is True else self._merge_partial(g, v, obj, k))
                obj.present[k] = zor(obj.present[k], g)
            else:
                obj.items[k] = v
                obj.present[k] = g
            return
        if isinstance(obj, HList):
            if is_z3(k):
                raise Unsupported("symbolic list index store")
            if not (-len(obj.items) <= k < len(obj.items)):
                self.do_raise(IndexError, ("list assignment index out of range",))
                return
            obj.items[k] = self.ite(g, v, obj.items[k])
            return
        raise Unsupported(f"item store on {type(obj).__name__}")

    def _merge_partial(self, g, v, obj, k):
        try:
            return self.ite(g, v, obj.items[k])
        except NeedFork:
            if feasible(self.pc + [zand(znot(g), obj.present[k])]):
                raise
            return v

    def concrete_key(self, k):
        k = norm_str(k)
        if is_symbolic(k):
            raise Unsupported(f"symbolic dict key store: {k!r}")
        return k

    def s_If(self, st):
        c = self.cond(self.eval(st.test))
        if isinstance(c, bool):
            self.exec_block(st.body if c else st.orelse)
            return
        self.branch(c, _site(st), lambda: self.exec_block(st.body), lambda: self.exec_block(st.orelse), st.lineno)

    def branch(self, c, site, then_fn, else_fn, lineno=0):
        """execute both sides of a symbolic condition (predicated), or one side (decision mode)."""
        base = self.pc + [zbool(self.guard())]
        ft = feasible(base + [c])
        ff = feasible(base + [znot(c)])
        if ft and not ff:
            return then_fn()
        if ff and not ft:
            return else_fn()
        if not ft and not ff:
            return None
        if site in self.forced_sites or (self.frames and self.frames[-1].qualname in self.fork_functions):
            idx = self.oracle.choose(self, site, [c, znot(c)])
            return then_fn() if idx == 0 else else_fn()
        self.gstack.append((c, site))
        try:
            then_fn()
        finally:
            self.gstack.pop()
        self.gstack.append((znot(c), site))
        try:
            else_fn()
        finally:
            self.gstack.pop()
        self.version += 1

    def s_Return(self, st):
        v = self.eval(st.value) if st.value is not None else None
        self.do_return(v)

    def do_return(self, v):
        f = self.frames[-1]
        g = self.guard()
        if g is True and not f.returns:
            raise _Return(v)
        if g is False:
            return
        f.returns.append((g, v, tuple(self.sites())))
        f.returned = zor(f.returned, g)
        self.version += 1
        if g is True:
            raise _Return(None)   # all paths have returned; value merged by caller

    def s_Raise(self, st):
        if st.exc is None:
            raise Unsupported("bare raise")
        e = st.exc
        if isinstance(e, ast.Call):
            cls = self.eval(e.func)
            args = []
            for a in e.args:
                if isinstance(a, ast.Starred):
                    args.extend(self.iterate(self.eval(a.value), concat=True))
                else:
                    args.append(self.eval(a))
        else:
            cls = self.eval(e)
            args = []
        if isinstance(cls, BaseException):
            cls, args = type(cls), list(cls.args)
        if not (isinstance(cls, type) and issubclass(cls, BaseException)):
            raise Unsupported(f"raise of non-exception {cls!r}")
        self.do_raise(cls, tuple(args), True, where=f"line {st.lineno}")

    def s_Break(self, st):
        f = self.frames[-1]
        g = self.guard()
        if g is True:
            raise _Break()
        f.loops[-1]["broken"] = zor(f.loops[-1]["broken"], g)
        self.version += 1

    def s_Continue(self, st):
        f = self.frames[-1]
        g = self.guard()
        if g is True:
            raise _Continue()
        f.loops[-1]["continued"] = zor(f.loops[-1]["continued"], g)
        self.version += 1

    def s_For(self, st):
        items = self.iterate(self.eval(st.iter))
        f = self.frames[-1]
        lp = {"broken": False, "continued": False}
        f.loops.append(lp)
        poisoned = False
        try:
            broke = False
            for it in items:
                lp["continued"] = False
                guard_item = None
                if isinstance(it, GuardedItem):
                    guard_item, it = it.cond, it.value
                if not self.alive():
                    break
                if type(it).__name__ == "_Trunc":
                    raise Unsupported("symbolic range not exhausted within the unrolling bound")
                try:
                    if guard_item is not None and guard_item is not True:
                        def body(it=it):
                            self.strong = True
                            try:
                                self.assign(st.target, it)
                            finally:
                                self.strong = False
                            self.exec_block(st.body)
                        poisoned = True
                        self.branch(guard_item, ("item", _site(st)), body, lambda: None)
                    else:
                        self.strong = True
                        try:
                            self.assign(st.target, it)
                        finally:
                            self.strong = False
                        self.exec_block(st.body)
                except _Continue:
                    continue
                except _Break:
                    broke = True
                    break
            lp["continued"] = False
            if poisoned:
                for nm in ast.walk(st.target):
                    if isinstance(nm, ast.Name):
                        f.env[nm.id] = POISON
            if st.orelse and not broke:
                if lp["broken"] is not False:
                    raise Unsupported("for-else with guarded break")
                self.exec_block(st.orelse)
        finally:
            f.loops.pop()
            self.version += 1

    loop_contracts = {}
    fork_functions = frozenset()

    def s_While(self, st):
        f = self.frames[-1]
        lc = self.loop_contracts.get((f.qualname, "while", self._loop_ordinal(f.qualname, st)))
        if lc is not None:
            return self._contracted_while(st, lc)
        lp = {"broken": False, "continued": False}
        f.loops.append(lp)
        try:
            n = 0
            pushed = 0
            try:
                while True:
                    lp["continued"] = False
                    c = self.cond(self.eval(st.test))
                    if c is False:
                        break
                    if c is not True:
                        if not feasible(self.pc + [zbool(self.guard()), c]):
                            break
                        self.gstack.append((c, _site(st)))
                        pushed += 1
                    elif not self.alive():
                        break
                    n += 1
                    if n > self.max_unroll:
                        raise Unsupported(f"while loop at line {st.lineno} not exhausted after {self.max_unroll} unrollings")
                    try:
                        self.exec_block(st.body)
                    except _Continue:
                        continue
                    except _Break:
                        break
            finally:
                for _ in range(pushed):
                    self.gstack.pop()
            if st.orelse:
                raise Unsupported("while-else")
        finally:
            f.loops.pop()
            self.version += 1

    def _loop_ordinal(self, qualname, st):
        node = self.funcs.get(qualname)
        n = 0
        for x in ast.walk(node):
            if isinstance(x, (ast.While, ast.For)):
                if x is st:
                    return n
                n += 1
        return -1

    def _contracted_while(self, st, lc):
        """inductive treatment of a loop: lc = {"vars": {name: sort}, "inv": fn(engine, env) -> z3 Bool, "hyps": fn(engine, env_before, env_after) -> [z3]}.
        Generates obligations inv-init and inv-preserved (recorded in self.loop_obligations); continues after the loop with havoced variables."""
        f = self.frames[-1]
        inv0 = lc["inv"](self, f.env)
        self.loop_obligations.append(("inv-init", list(self.pc) + [zbool(self.guard())], inv0, lc.get("name", "loop")))
        idx = self.oracle.choose(self, ("loop-contract", st.lineno), [True, True])
        # havoc
        for name, sort in lc["vars"].items():
            f.env[name] = SStr((self.fresh(name, "str"),)) if sort == "str" else self.fresh(name, sort)
            f.defcond.pop(name, None)
        self.pc.append(zbool(lc["inv"](self, f.env)))
        g = self.cond(self.eval(st.test))
        if idx == 0:
            # arbitrary iteration
            self.pc.append(zbool(g))
            before = dict(f.env)
            lp = {"broken": False, "continued": False}
            f.loops.append(lp)
            try:
                try:
                    self.exec_block(st.body)
                except _Continue:
                    pass                        # `continue`: the iteration ends here, the invariant is due as after a full body
                except _Break:
                    raise Unsupported("break inside a loop that is cut at an invariant")
                if lp["broken"] is not False:
                    raise Unsupported("guarded break inside a loop that is cut at an invariant")
            finally:
                f.loops.pop()       # a guarded `continue` only guarded the rest of this iteration: its flag ends with the iteration
                self.version += 1
            extra = lc["hyps"](self, before, f.env) if lc.get("hyps") else []
            inv1 = lc["inv"](self, f.env)
            self.loop_obligations.append(("inv-preserved", list(self.pc) + [zbool(self.guard())] + list(extra), inv1, lc.get("name", "loop")))
            if lc.get("decreases"):
                d0 = lc["decreases"](self, before)
                d1 = lc["decreases"](self, f.env)
                self.loop_obligations.append(("decreases", list(self.pc) + [zbool(self.guard())], z3.And(d1 < d0, d0 >= 0), lc.get("name", "loop")))
            raise _EndPath()
        self.pc.append(zbool(znot(g)))

    loop_obligations = []

    def s_Try(self, st):
        if st.finalbody:
            raise Unsupported("try/finally")
        n_exits = len(self.exits)
        self.try_depth += 1
        try:
            try:
                self.exec_block(st.body)
            finally:
                self.try_depth -= 1
        except PyRaise as e:
            h = self.match_handler(st, e.exc_cls)
            if h is None:
                raise
            self.run_handler(h, e.exc_cls, e.args_)
            return
        # guarded exits raised inside the body
        caught = []
        for ex in self.exits[n_exits:]:
            h = self.match_handler(st, ex.exc_cls)
            if h is not None:
                caught.append((ex, h))
        for ex, h in caught:
            self.exits.remove(ex)
            self.dead = zand(self.dead, znot(ex.cond)) if self.dead is not False else False
            self.dead = simp(self.dead) if is_z3(self.dead) else self.dead
            self.version += 1
            self.gstack.append((ex.cond, None))
            try:
                # handler runs in the state reached... approximation is exact only if nothing after the raise ran under ex.cond
                self.run_handler(h, ex.exc_cls, ex.args)
            finally:
                self.gstack.pop()
        if st.orelse:
            self.exec_block(st.orelse)

    def match_handler(self, st, exc_cls):
        for h in st.handlers:
            if h.type is None:
                return h
            t = self.eval(h.type)
            ts = t if isinstance(t, tuple) else (t,)
            if any(isinstance(x, type) and issubclass(exc_cls, x) for x in ts):
                return h
        return None

    def run_handler(self, h, exc_cls, args):
        if h.name:
            try:
                inst = exc_cls(*[a if not is_symbolic(a) and not isinstance(a, (SObj, HList, HDict)) else "<sym>" for a in args])
            except Exception:
                inst = exc_cls()
            self.assign_name(h.name, inst)
        self.exec_block(h.body)

    def s_With(self, st):
        for item in st.items:
            ctx = self.eval(item.context_expr)
            v = self.call_method(ctx, "__enter__", [], {})
            if item.optional_vars is not None:
                self.assign(item.optional_vars, v)
        self.exec_block(st.body)
        # __exit__ of the classes in scope is a no-op (Outputter); others unsupported
        for item in st.items:
            ctx = self.eval(item.context_expr)
            if not (isinstance(ctx, SObj) and ctx.cls.__name__ == "Outputter"):
                raise Unsupported("with on non-Outputter")

    def s_FunctionDef(self, st):
        f = self.frames[-1]
        q = f.qualname + ".<locals>." + st.name
        self.assign_name(st.name, Closure(st, q, [f.env] + f.chain))

    def s_Delete(self, st):
        for t in st.targets:
            if isinstance(t, ast.Subscript):
                obj = self.eval(t.value)
                k = self.eval(t.slice)
                if isinstance(obj, HList) and not is_z3(k):
                    if self.guard() is not True:
                        raise NeedFork(self.sites(), "del under guard")
                    del obj.items[k]
                    continue
            if isinstance(t, ast.Attribute):
                obj = self.eval(t.value)
                if isinstance(obj, type):
                    self.class_store.setdefault(obj, {})[t.attr] = None
                    continue
            raise Unsupported("del")

    def s_Global(self, st):
        raise Unsupported("global")

    def s_Nonlocal(self, st):
        raise Unsupported("nonlocal")

    # ---------- expressions: see expr.py (mixed in) ----------


class _Poison:
    pass


POISON = _Poison()


class GuardedItem:
    def __init__(self, cond, value):
        self.cond = cond
        self.value = value


def _site(node):
    return (getattr(node, "lineno", 0), getattr(node, "col_offset", 0), type(node).__name__)
