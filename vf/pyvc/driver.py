"""Exploration driver: decision enumeration + NeedFork restarts; function / slice runners."""
import ast
from .sym import *
from .interp import Engine, Oracle, Frame, PyRaise, _Return, Exit, Closure, SObj, HList, HDict, _EndPath
from . import expr as _expr  # attaches methods
from . import builtins_ as _b


class _Everything(frozenset):
    """fork_functions="*": every symbolic branch forks the path (used where the result must be concrete per path, e.g. emitted text)"""
    def __contains__(self, x):
        return True


class RunResult:
    def __init__(self, eng, value, env):
        self.pc = list(eng.pc)
        self.exits = list(eng.exits)
        self.dead = eng.dead
        self.value = value
        self.env = env
        self.class_store = eng.class_store
        self.decisions = list(eng.oracle.taken)
        self.loop_obligations = list(eng.loop_obligations)
        self.mutated_real = list(getattr(eng, "mutated_real", []))
        self.ended = bool(isinstance(env, dict) and env.get("_ended"))
        self.eng = eng

    def normal_cond(self):
        """condition (besides pc) under which the run completes without an exception"""
        return znot(self.dead) if self.dead is not False else True

    def raised(self, pred=None):
        """disjunction of exit conditions whose exception class satisfies pred"""
        return zor(*[e.cond for e in self.exits if pred is None or pred(e.exc_cls)])


class Program:
    def __init__(self, module, source_text):
        self.module = module
        self.source = source_text
        self.proto = Engine(module, source_text)

    def engine(self, contracts=None, hooks=None):
        e = Engine.__new__(Engine)
        e.module = self.module
        e.tree = self.proto.tree
        e.funcs = self.proto.funcs
        e.classes = self.proto.classes
        e.contracts = dict(contracts or {})
        e.hooks = dict(hooks or {})
        e.class_store = {}
        e.forced_sites = set()
        e.oracle = Oracle()
        e.max_unroll = 64
        e.trace_calls = []
        e.loop_contracts = {}
        e.loop_obligations = []
        e.mutated_real = []
        e.reset()
        return e


def explore(program, body_fn, contracts=None, hooks=None, max_runs=4000, loop_contracts=None, fork_functions=()):
    """body_fn(eng) -> (value, env).  Returns list[RunResult] covering all decision sequences."""
    forced = set()
    while True:
        try:
            work = [[]]
            results = []
            n = 0
            while work:
                prefix = work.pop()
                n += 1
                if n > max_runs:
                    raise Unsupported(f"more than {max_runs} decision paths")
                eng = program.engine(contracts, hooks)
                eng.loop_contracts = dict(loop_contracts or {})
                eng.fork_functions = _Everything() if fork_functions == "*" else frozenset(fork_functions)
                eng.forced_sites = set(forced)
                eng.oracle = Oracle(prefix)
                eng.frames.append(Frame("<harness>", {}, []))
                try:
                    value, env = body_fn(eng)
                except _EndPath:
                    value, env = None, {"_ended": True}
                except PyRaise as e:
                    eng.exits.append(Exit(True, e.exc_cls, e.args_, "uncaught"))
                    eng.dead = True
                    value, env = None, {}
                work.extend(eng.oracle.alternatives)
                results.append(RunResult(eng, value, env))
            return results
        except NeedFork as nf:
            new = set(nf.sites) - forced
            if not new:
                raise Unsupported(f"cannot merge and nothing left to fork: {nf.why}")
            forced |= new


def call_function(eng, qualname, args=(), kwargs=None, self_obj=None):
    from .expr import _NOSELF
    node = eng.func_ast(qualname)
    clo = Closure(node, qualname, [], self_obj=self_obj if self_obj is not None else _NOSELF)
    v = eng.call_closure(clo, list(args), dict(kwargs or {}))
    return v, {}


def run_stmts(eng, qualname, stmts, env, chain=()):
    """execute a slice of a function body in a frame with the given initial locals; returns final locals"""
    fr = Frame(qualname, dict(env), list(chain))
    fr.gbase = len(eng.gstack)
    fr.dead_at_entry = eng.dead
    eng.frames.append(fr)
    try:
        try:
            eng.exec_block(stmts)
            value = None
        except _Return as r:
            value = r.value
        if fr.returns:
            vals = list(fr.returns)
            acc = vals[-1][1]
            for g, v, ss in reversed(vals[:-1]):
                acc = eng.ite(g, v, acc)
            value = acc
        return value, fr
    finally:
        eng.frames.pop()
