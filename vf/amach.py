"""Abstract machine over nmfu's DFA objects: the *specification* the emitted C is verified against (DESIGN.md appendix B).

Written from the language reference and the DFA classes; it never calls CodegenCtx.  It executes one transition
symbolically on an abstract store and yields guarded outcomes."""
import z3
from .csem import ops

I = z3.IntSort()


class SpecError(Exception):
    """the DFA itself violates a well-formedness rule the specification relies on"""


class Spec:
    def __init__(self, nmfu, dfa, outputs, prefix, flags, generic_fail_state, start_actions):
        self.nmfu = nmfu
        self.dfa = dfa
        self.outputs = {o.name: o for o in outputs}
        self.prefix = prefix
        self.flags = flags          # dict name->bool (ProgramFlag names)
        self.fail_state = generic_fail_state
        self.start_actions = start_actions
        self.index = {id(s): i for i, s in enumerate(dfa.states)}
        self.accepting = set(id(s) for s in dfa.accepting_states)

    # ---- static helpers ----
    def idx(self, state):
        return self.index.get(id(state))

    def is_accepting(self, state):
        return id(state) in self.accepting

    def lookup(self, state, sym):
        """q[c]: first transition in list order listing c, else first listing Else"""
        T = self.nmfu.DFTransition
        for t in state.transitions:
            if any(v is sym or (isinstance(v, str) and isinstance(sym, str) and v == sym) for v in t.on_values):
                return t
        if sym is not T.Else:
            for t in state.transitions:
                if any(v is T.Else for v in t.on_values):
                    return t
        return None

    def char_type(self):
        return "uint8_t" if self.flags["STRINGS_AS_U8"] else "char"

    def capacity(self, out):
        T = self.nmfu.OutputStorageType
        if out.type == T.STR:
            return out.str_size - (1 if out.str_null else 0)
        if out.type == T.RAW:
            if out.raw_underlying not in ops.TYPE_SIZES:
                raise SpecError(f"raw type {out.raw_underlying}: size unknown to the specification")
            return ops.TYPE_SIZES[out.raw_underlying]
        raise SpecError("capacity of non-buffer")

    def index_bound(self, out):
        T = self.nmfu.OutputStorageType
        if out.type == T.STR:
            return out.str_size
        return self.capacity(out)

    def may_be_unallocated(self, out):
        T = self.nmfu.OutputStorageType
        return (out.type == T.STR and self.flags["ALLOCATE_STR_SPACE_DYNAMIC"] and self.flags["ALLOCATE_STR_SPACE_DYNAMIC_ON_DEMAND"]
                and (out.default_value is None or self.flags["DELETE_STRING_FREE_MEMORY"]))

    def expected_ctypes(self, out):
        T = self.nmfu.OutputStorageType
        if out.type == T.BOOL:
            return {"bool"}
        if out.type == T.ENUM:
            return {f"{self.prefix}_out_{out.name}_t"}
        if out.type == T.RAW:
            return {out.raw_underlying}
        if out.type == T.INT:
            w = out.int_width
            s = out.int_signed
            if w is None:
                return {"int32_t"} if s else {"uint32_t"}
            tbl = {1: "int8_t", 2: "int16_t", 4: "int32_t", 8: "int64_t"}
            if w not in tbl:
                raise SpecError(f"integer width {w} has no C type")
            names = {tbl[w]} | ({"intmax_t"} if w == 8 else set())
            return names if s else {"u" + n for n in names}
        raise SpecError("ctype")

    # ---- expression evaluation ----
    def ev(self, e, st, inval, ctx):
        n = self.nmfu
        if isinstance(e, n.LiteralIntegerExpr):
            T = n.OutputStorageType
            if e.typ == T.ENUM:
                return z3.IntVal(e.model_ref.enum_values.index(e.value))
            if e.typ == T.BOOL:
                return z3.IntVal(1 if e.value else 0)
            return z3.IntVal(int(e.value))
        if isinstance(e, n.OutIntegerExpr):
            return st[("c", e.ref.name)]
        if isinstance(e, n.StringLengthIntegerExpr):
            return st[("m", e.ref.name + "_counter")]
        if isinstance(e, n.StringRefIntegerExpr):
            i = ops.b2i(self.ev(e.index, st, inval, ctx))
            arr = st[("buf", e.ref.name)]
            if self.flags["UNSAFE_STRING_INDEXING"]:
                return z3.Select(arr, i)
            inb = z3.And(i >= 0, i < self.index_bound(e.ref))
            if self.may_be_unallocated(e.ref) and ("tag", e.ref.name) in st:
                # an unallocated on-demand string is empty: every index is out of range
                inb = z3.And(inb, st[("tag", e.ref.name)] == 1)
            return z3.If(inb, z3.Select(arr, i), z3.IntVal(0))
        if isinstance(e, n.LastCharIntegerExpr):
            return inval
        if isinstance(e, n.SumIntegerExpr):
            acc = ops.b2i(self.ev(e.children[0], st, inval, ctx))
            for ch, neg in zip(e.children[1:], e.negate[1:]):
                v = ops.b2i(self.ev(ch, st, inval, ctx))
                acc = acc - v if neg else acc + v
            return acc
        if isinstance(e, n.MulIntegerExpr):
            acc = ops.b2i(self.ev(e.children[0], st, inval, ctx))
            for ch, op in zip(e.children[1:], e.divide[1:]):
                acc = ops.binop(op.value, acc, self.ev(ch, st, inval, ctx))
            return acc
        if isinstance(e, n.CompareIntegerExpr):
            return ops.binop(e.op.value, self.ev(e.left, st, inval, ctx), self.ev(e.right, st, inval, ctx))
        if isinstance(e, n.BitShiftIntegerExpr):
            return ops.binop("<<" if e.towards_left else ">>", self.ev(e.left, st, inval, ctx), self.ev(e.right, st, inval, ctx))
        if isinstance(e, n.BitwiseIntegerExpr):
            acc = ops.b2i(self.ev(e.children[0], st, inval, ctx))
            for ch in e.children[1:]:
                acc = ops.binop(e.op.value, acc, self.ev(ch, st, inval, ctx))
            return acc
        if isinstance(e, (n.DisjunctionIntegerExpr, n.ConjunctionIntegerExpr)):
            op = "||" if isinstance(e, n.DisjunctionIntegerExpr) else "&&"
            acc = self.ev(e.children[0], st, inval, ctx)
            for ch in e.children[1:]:
                acc = ops.binop(op, acc, self.ev(ch, st, inval, ctx))
            return acc
        raise SpecError(f"unknown integer expression {type(e).__name__}")

    def cond(self, c, st, inval, ctx):
        n = self.nmfu
        if isinstance(c, n.ConstantCondition):
            return z3.BoolVal(bool(c.value))
        if isinstance(c, n.IntegerCondition):
            return ops.truth(self.ev(c.expr, st, inval, ctx))
        raise SpecError("condition kind")

    # ---- actions ----
    def run_actions(self, actions, st, trace, inval, ctx, conds, out, k, kepi=None):
        """execute `actions` from index 0 on store st; on completion call k(st, trace, conds); terminal outcomes appended to out.
        ctx in feed/end/start."""
        n = self.nmfu
        if kepi is None:
            kepi = k
        if not actions:
            return k(st, trace, conds)
        a, rest = actions[0], actions[1:]
        if isinstance(a, n.CustomFinishAction):
            out.append({"conds": conds, "st": st, "trace": trace, "term": ("return", f"FINISH_{a.result_code}")})
            return
        if isinstance(a, n.FinishAction):
            out.append({"conds": conds, "st": st, "trace": trace, "term": ("return", "DONE")})
            return
        if isinstance(a, n.CustomYieldAction):
            out.append({"conds": conds, "st": st, "trace": trace, "term": ("return", f"YIELD_{a.result_code}"), "yield": True})
            return
        if isinstance(a, n.SetTo):
            o = a.into_storage
            v = ops.b2i(self.ev(a.value_expr, st, inval, ctx))
            st = dict(st)
            st[("c", o.name)] = ops.conv(self.decl_ctype(o), v)
            return self.run_actions(rest, st, trace, inval, ctx, conds, out, k, kepi)
        if isinstance(a, n.SetToStr):
            o = a.into_storage
            st = dict(st)
            val = a.value_expr
            codes = [x if isinstance(x, int) else ord(x) for x in val]
            if len(codes) > self.capacity(o):
                raise SpecError(f"constant of {len(codes)} bytes assigned to {o.name} (capacity {self.capacity(o)}) was accepted")
            arr = st[("buf", o.name)]
            for i, cpt in enumerate(codes):
                arr = z3.Store(arr, i, z3.IntVal(cpt))
            if o.str_null:
                arr = z3.Store(arr, len(codes), z3.IntVal(0))
            st[("buf", o.name)] = arr
            st[("m", o.name + "_counter")] = z3.IntVal(len(codes))
            if ("tag", o.name) in st:
                st[("tag", o.name)] = z3.IntVal(1)
            return self.run_actions(rest, st, trace, inval, ctx, conds, out, k, kepi)
        if isinstance(a, n.DeleteBuf):
            o = a.into_storage
            st = dict(st)
            T = n.OutputStorageType
            frees = (self.flags["ALLOCATE_STR_SPACE_DYNAMIC_ON_DEMAND"] and self.flags["DELETE_STRING_FREE_MEMORY"] and ctx != "start"
                     and o.type == T.STR and self.flags["ALLOCATE_STR_SPACE_DYNAMIC"])
            if not frees and o.type == T.STR and o.str_null:
                z = z3.Store(st[("buf", o.name)], 0, z3.IntVal(0))
                if self.may_be_unallocated(o) and ("tag", o.name) in st:
                    z = z3.If(st[("tag", o.name)] == 1, z, st[("buf", o.name)])
                st[("buf", o.name)] = z
            if frees and ("tag", o.name) in st:
                st[("tag", o.name)] = z3.IntVal(0)
            st[("m", o.name + "_counter")] = z3.IntVal(0)
            return self.run_actions(rest, st, trace, inval, ctx, conds, out, k, kepi)
        if isinstance(a, (n.AppendTo, n.AppendCharTo)):
            o = a.into_storage
            ln = st[("m", o.name + "_counter")]
            cap = self.capacity(o)
            full = ln == cap
            # overflow branch
            st_o = dict(st)
            tgt = self.idx(a.end_target)
            if tgt is None:
                raise SpecError("out-of-space target is not a state of the machine")
            st_o[("m", "state")] = z3.IntVal(tgt)
            if ctx in ("feed", "end"):
                # the handler takes over at the offending symbol (byte or end-of-input), nothing is consumed
                out.append({"conds": conds + [full], "st": st_o, "trace": trace, "term": ("redispatch",)})
            else:
                out.append({"conds": conds + [full], "st": st_o, "trace": trace, "term": ("return", "OK")})
            # normal branch
            st_n = dict(st)
            if isinstance(a, n.AppendTo):
                v = inval
            else:
                v = ops.b2i(self.ev(a.append_value, st, inval, ctx))
            T = n.OutputStorageType
            ct = "uint8_t" if o.type == T.RAW else self.char_type()
            arr = z3.Store(st_n[("buf", o.name)], ln, ops.conv(ct, v))
            if o.type == T.STR and o.str_null:
                arr = z3.Store(arr, ln + 1, z3.IntVal(0))
            st_n[("buf", o.name)] = arr
            st_n[("m", o.name + "_counter")] = ln + 1
            if ("tag", o.name) in st_n:
                st_n[("tag", o.name)] = z3.IntVal(1)
            return self.run_actions(rest, st_n, trace, inval, ctx, conds + [z3.Not(full)], out, k, kepi)
        if isinstance(a, n.CallHook):
            arg = z3.IntVal(0) if ctx == "start" else inval
            trace = trace + [("hook", a.name, arg, dict(st))]
            return self.run_actions(rest, st, trace, inval, ctx, conds, out, k, kepi)
        if isinstance(a, n.BreakAction):
            loop = a.refers_to
            tgt = self.idx(loop.end_state)
            if tgt is None:
                raise SpecError("break target is not a state of the machine")

            def after(st2, trace2, conds2):
                st3 = dict(st2)
                st3[("m", "state")] = z3.IntVal(tgt)
                if ctx in ("feed", "end"):
                    # remaining actions of the transition are skipped; the transition epilogue still runs
                    return kepi(st3, trace2, conds2)
                out.append({"conds": conds2, "st": st3, "trace": trace2, "term": ("return", "OK")})
            return self.run_actions(list(a.replacement_actions()), st, trace, inval, ctx, conds, out, after, kepi if ctx in ('feed', 'end') else after)
        if isinstance(a, n.ConditionalAction):
            neg = []
            for c in a.conditions:
                cv = self.cond(c, st, inval, ctx)
                here = conds + neg + [cv]
                self.run_actions(list(a.sub_actions[c]), st, trace, inval, ctx, here, out,
                                 lambda s2, t2, c2, rest=rest: self.run_actions(rest, s2, t2, inval, ctx, c2, out, k, kepi), kepi)
                neg.append(z3.Not(cv))
            if not any(isinstance(c, n.ElseCondition) for c in a.conditions):
                self.run_actions(rest, st, trace, inval, ctx, conds + neg, out, k, kepi)
            return
        raise SpecError(f"unknown action {type(a).__name__}")

    def decl_ctype(self, out):
        # the type the header declares, after it was checked against expected_ctypes() by the caller
        return self.declared.get(out.name) or sorted(self.expected_ctypes(out))[0]

    declared = {}

    # ---- one step ----
    def transition_outcomes(self, t, st, inval, ctx):
        """outcomes of taking transition t (feed: one byte inval; end: End). store must contain ('m','state')."""
        n = self.nmfu
        out = []
        st = dict(st)
        ti = self.idx(t.target)
        if ti is not None:
            st[("m", "state")] = z3.IntVal(ti)
        strict = self.flags["STRICT_DONE_TOKEN_GENERATION"]
        tgt_acc = t.target is not None and self.is_accepting(t.target)
        immediate_done = tgt_acc and not strict and all(x.error_handling for x in t.target.transitions)
        breaks = [False]

        def epilogue(st2, trace2, conds2):
            if t.is_fallthrough:
                if ti is None:
                    out.append({"conds": conds2, "st": st2, "trace": trace2, "term": ("unspecified",)})
                else:
                    out.append({"conds": conds2, "st": st2, "trace": trace2, "term": ("redispatch",)})
            elif ctx == "end":
                # `end` never consumes: the parse is complete iff the machine now sits in an accepting state
                overridden = not z3.eq(z3.simplify(st2[("m", "state")]), z3.simplify(st[("m", "state")]))
                out.append({"conds": conds2, "st": st2, "trace": trace2, "term": ("end-verdict",), "overridden": overridden})
            elif immediate_done:
                out.append({"conds": conds2, "st": st2, "trace": trace2, "term": ("return", "DONE")})
            elif ti is None:
                out.append({"conds": conds2, "st": st2, "trace": trace2, "term": ("unspecified",)})
            else:
                out.append({"conds": conds2, "st": st2, "trace": trace2, "term": ("consume",)})
        self.run_actions(list(t.actions), st, [], inval, ctx, [], out, epilogue)
        # a yield (or any early return that expects resumption) on a consuming, not immediately-done transition returns after the advance
        for o in out:
            o["advance_before_return"] = bool(o.get("yield")) and ctx == "feed" and not t.is_fallthrough and not immediate_done
        return out

    def state_outcomes(self, state, st, inval, ctx, sym):
        """ctx feed: sym is a concrete byte class representative handled by the caller (transition already chosen);
        this handles condition points and the no-transition case."""
        raise NotImplementedError


def rest_marker(rest):
    return rest
