"""Program corpus: repo examples, repo test programs, /verif/corpus, and generated programs."""
import glob, os, shlex
from . import common


def _args_of(src):
    lines = src.splitlines()
    if lines and lines[0].startswith("// args: "):
        return shlex.split(lines[0][len("// args: "):])
    return []


def corpus(include_fail=False, big=True):
    out = []
    pats = []
    if big:
        pats.append(os.path.join(common.REPO, "example", "*.nmfu"))
    pats.append(os.path.join(common.REPO, "example", "test", "*.ok.nmfu"))
    pats.append(os.path.join(common.ROOT, "corpus", "*.nmfu"))
    if include_fail:
        pats.append(os.path.join(common.REPO, "example", "test", "*.fail.nmfu"))
        pats.append(os.path.join(common.ROOT, "corpus", "fail", "*.nmfu"))
    for pat in pats:
        for f in sorted(glob.glob(pat)):
            src = open(f).read()
            rel = os.path.relpath(f, common.REPO) if f.startswith(common.REPO) else os.path.relpath(f, common.ROOT)
            out.append({"name": rel, "src": src, "args": _args_of(src), "path": f})
    return out
