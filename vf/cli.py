import sys, os, importlib, json
from . import common

def main():
    args = sys.argv[1:]
    if not args:
        print("usage: check <id> [--tier quick|thorough] [--replay file]"); sys.exit(3)
    prop = args[0]
    i = 1
    replay = None
    while i < len(args):
        if args[i] == "--tier":
            os.environ["VERIF_TIER"] = args[i+1]; i += 2
        elif args[i] == "--replay":
            replay = args[i+1]; i += 2
        else:
            i += 1
    if prop == "selftest":
        from .pyvc import selftest
        common.run_guarded(selftest.main)
    mod = importlib.import_module(f"vf.props.{prop.lower()}")
    if replay:
        common.run_guarded(lambda: mod.replay(replay))
    common.run_guarded(mod.main)

if __name__ == "__main__":
    main()
