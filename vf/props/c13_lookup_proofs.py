"""C13, proved part: ParseCtx._lookup_named_entity resolves a name innermost-first - the binding of the innermost macro expansion that
binds (kind, name), else the global entity of that kind, else a diagnosed UndefinedReferenceError - executed from the real AST (pyvc)
for every kind, every pattern of which of up to three nested frames bind the name (also under another kind, which must not count) and
global presence/absence.  Depth: the loop is one `for entry in reversed(stack)` with a return on the first hit; depth 3 distinguishes
innermost / middle / outermost / none (stated as the bound of this part)."""
import itertools
from ..common import Finding
from ..pyvc.sym import *
from ..pyvc.driver import Program, explore, call_function
from ..pyvc.interp import SObj, HList, HDict
from .leaf_proofs import DEBUG_CONTRACTS
from .codegen_proofs import _agg_report


def prove(rep, nmfu, program, prop="C13"):
    import lark
    fnq = "ParseCtx._lookup_named_entity"
    rep.fn(fnq)
    K = nmfu.MacroArgumentKind
    GLOBAL = {K.MACRO: "macros", K.LOOP: "break_handlers", K.OUT: "state_object_spec", K.HOOK: "hooks", K.FINISHCODE: "finish_codes", K.YIELDCODE: "yield_codes"}
    agg = {}

    def record(clause, ok, what, detail):
        a = agg.setdefault(clause, {"n": 0, "bad": None, "secs": 0.0})
        a["n"] += 1
        if not ok and a["bad"] is None:
            a["bad"] = (what, detail)
    tok = SObj(lark.Token, {"type": "IDENTIFIER", "value": "nm"})          # the identifier token as the function reads it: .type and .value
    for kind in K:
        other = K.OUT if kind is not K.OUT else K.HOOK
        for depth in range(0, 4):
            for pattern in itertools.product(("absent", "bound", "other-kind"), repeat=depth):
                for glob in (False, True):
                    marks = [SObj(nmfu.OutputStorage, {"name": f"frame{i}"}) for i in range(depth)]
                    gobj = SObj(nmfu.OutputStorage, {"name": "global"})

                    def body(eng, kind=kind, pattern=pattern, glob=glob, marks=marks, gobj=gobj, other=other):
                        frames = []
                        for i, p_ in enumerate(pattern):            # frames[0] is the outermost expansion
                            d = {}
                            if p_ == "bound":
                                d[(kind, "nm")] = marks[i]
                            elif p_ == "other-kind":
                                d[(other, "nm")] = marks[i]
                            d[(kind, "unrelated")] = SObj(nmfu.OutputStorage, {"name": "unrelated"})
                            frames.append(HDict(d))
                        fields = {"bound_argument_stack": HList(frames), "macros": HDict({}), "break_handlers": HDict({}), "state_object_spec": HDict({}),
                                  "hooks": HList([]), "finish_codes": HList([]), "yield_codes": HList([])}
                        if glob and kind in GLOBAL:
                            if GLOBAL[kind] in ("hooks", "finish_codes", "yield_codes"):
                                fields[GLOBAL[kind]] = HList(["nm"])
                            else:
                                fields[GLOBAL[kind]] = HDict({"nm": gobj})
                        me = SObj(nmfu.ParseCtx, fields)
                        v, _ = call_function(eng, fnq, [kind, tok], self_obj=me)
                        return v, {}
                    rs = list(explore(program, body, contracts=DEBUG_CONTRACTS, fork_functions="*"))
                    detail = {"kind": kind.name, "frames(outermost first)": list(pattern), "global": glob}
                    if len(rs) != 1:
                        record("deterministic", False, f"{len(rs)} paths on concrete data", detail)
                        continue
                    r = rs[0]
                    hits = [i for i, p_ in enumerate(pattern) if p_ == "bound"]
                    if hits:
                        want = marks[hits[-1]]
                        ok = not r.exits and r.value is want
                        record("innermost-binding-wins", ok, f"resolved to {getattr(r.value, 'fields', {}).get('name', r.value) if not r.exits else [e.exc_cls.__name__ for e in r.exits]}, expected the binding of frame {hits[-1]}", detail)
                    elif glob and kind in GLOBAL:
                        want = "nm" if GLOBAL[kind] in ("hooks", "finish_codes", "yield_codes") else gobj
                        ok = not r.exits and (r.value is want or r.value == want)
                        record("falls-back-to-the-global-entity", ok, f"resolved to {r.value!r} / {[e.exc_cls.__name__ for e in r.exits]}", detail)
                    else:
                        ok = len(r.exits) >= 1 and all(e.exc_cls is nmfu.UndefinedReferenceError for e in r.exits)
                        record("unknown-name-is-diagnosed", ok, f"no UndefinedReferenceError: value {r.value!r}, exits {[e.exc_cls.__name__ for e in r.exits]}", detail)
    return _agg_report(rep, prop, fnq, agg)


def run(rep, prop="C13"):
    from .. import common
    nmfu = common.load_nmfu()
    program = Program(nmfu, common.repo_source())
    try:
        return prove(rep, nmfu, program, prop)
    except (Unsupported, NeedFork, KeyError, AttributeError) as e:
        rep.unavailable(f"{prop}/pyvc/ParseCtx._lookup_named_entity/engine", f"outside the modelled Python subset: {type(e).__name__}: {e}")
        return 0
