"""C19 - command-line options resolve to a consistent configuration.

Contracts on ProgramData.load_commandline_flags (resolution tail) and ProgramData._reset_flags, discharged by
pyvc (VCs generated from the real AST) + z3 for ALL levels and ALL override maps (finite flag universe, no bound).
"""
import ast, itertools, time, sys, json
import z3
from .. import common
from ..common import Report, Finding
from ..pyvc.sym import *
from ..pyvc.driver import Program, explore, run_stmts, call_function
from ..pyvc.interp import SObj, HDict, HList

PROP = "C19"
FN = "ProgramData.load_commandline_flags"


def mentions(node, name):
    for n in ast.walk(node):
        if isinstance(n, ast.Attribute) and n.attr == name:
            return True
        if isinstance(n, ast.Name) and n.id == name:
            return True
    return False


def tail_slice(program):
    fn = program.proto.func_ast(FN)
    idx = None
    for i, st in enumerate(fn.body):
        if mentions(st, "_OPTIMIZE_LEVELS"):
            idx = i
            break
    if idx is None:
        raise Unsupported("load_commandline_flags: no statement mentions _OPTIMIZE_LEVELS (slice boundary lost)")
    dropped = [f"line {s.lineno}: {type(s).__name__}" for s in fn.body[:idx]]
    return fn.body[idx:], dropped


def flagname(f):
    return f.name


def setup_tail(nmfu, eng, order, level):
    """symbolic pre-state of the tail: fresh flags (via real _reset_flags), symbolic level, overrides (presence, value) per flag"""
    PD = nmfu.ProgramData
    call_function(eng, "ProgramData._reset_flags", [], self_obj=PD)
    ov = HDict()
    for f in order:
        ov.items[f] = z3.Bool("ov_" + f.name)
        ov.present[f] = z3.Bool("pr_" + f.name)
    env = {"cls": PD, "optimize_level": level, "flag_overrides": ov,
           "input_filename": "in.nmfu", "program_output_name": "in"}
    return env, ov


def run_tail(program, nmfu, stmts, order, level_constraint):
    level = z3.Int("level")

    def body(eng):
        eng.pc.extend(level_constraint(level))
        env, ov = setup_tail(nmfu, eng, order, level)
        value, fr = run_stmts(eng, FN, stmts, env)
        flags = eng.class_store[nmfu.ProgramData]["_flags"]
        return value, {"flags": flags, "frame": fr}
    return explore(program, body)


def replay_cmdline(nmfu, model, order, level):
    args = []
    lv = model_value(model, level)
    args.append(f"-O{lv}")
    for f in order:
        if model_value(model, z3.Bool("pr_" + f.name)):
            on = model_value(model, z3.Bool("ov_" + f.name))
            nm = f.name.lower().replace("_", "-")
            args.append(("-f" if on else "-fno-") + nm)
    args.append("in.nmfu")
    return args


def real_run(nmfu, args):
    try:
        nmfu.ProgramData.load_commandline_flags(list(args))
        return ("ok", {f.name: bool(v) for f, v in nmfu.ProgramData._flags.items()})
    except RuntimeError as e:
        return ("RuntimeError", str(e))
    except SystemExit as e:
        return ("SystemExit", str(e))
    except Exception as e:
        return (type(e).__name__, str(e))


def check_concrete(nmfu, args, levelsets):
    """evaluate the property's clauses on a concrete command line against the real function. returns list of violated clause names"""
    PF = nmfu.ProgramFlag
    res = real_run(nmfu, args)
    bad = []
    explicit = {}
    level = 1
    for a in args:
        if a.startswith("-O"):
            level = int(a[2:])
        elif a.startswith("-fno-"):
            explicit[PF[a[5:].upper().replace("-", "_")]] = False
        elif a.startswith("-f"):
            explicit[PF[a[2:].upper().replace("-", "_")]] = True
    if res[0] == "ok":
        fl = {PF[k]: v for k, v in res[1].items()}
        for f in PF:
            if fl[f]:
                for g in f.implies:
                    if not fl[PF(g)]:
                        bad.append(f"implies:{f.name}->{PF(g).name}")
                for g in f.exclusive_with:
                    if fl[PF(g)]:
                        bad.append(f"exclusive:{f.name}/{PF(g).name}")
        for f, v in explicit.items():
            if v and not fl[f]:
                bad.append(f"override-on-lost:{f.name}")
            if not v and fl[f] and not any(fl[g] and f.value in g.implies for g in PF if g is not f):
                bad.append(f"override-off-lost:{f.name}")
        for f in PF:
            for g in f.exclusive_with:
                if explicit.get(f) and explicit.get(PF(g)):
                    bad.append(f"explicit-conflict-not-error:{f.name}/{PF(g).name}")
    return res, bad


_ORDER_CTX = None


def _sig(rr, flags):
    sig = []
    for r in rr:
        fl = r.env.get("flags")
        sig.append((r.pc, zbool(r.raised(None)), {f: to_bool(fl.items[f]) for f in flags} if fl else None))
    return sig


def _order_worker(perm):
    program, nmfu, stmts, flags, passive, border, bsig = _ORDER_CTX
    level = z3.Int("level")
    order = list(perm) + passive
    rr = run_tail(program, nmfu, stmts, order, lambda L: [L >= 0, L <= 3])
    sig = _sig(rr, flags)
    out = []
    for (pc1, ra1, F1) in bsig:
        for (pc2, ra2, F2) in sig:
            hyp = pc1 + pc2
            if not feasible(hyp):
                continue
            goal = [ra1 == ra2]
            if F1 and F2:
                for f in flags:
                    goal.append(z3.Implies(z3.Not(ra1), zbool(F1[f]) == zbool(F2[f])))
            oid = f"C19/pyvc/{FN}/order." + ">".join(x.name for x in perm)
            v, m, backend, secs = prove(hyp, z3.And(*goal))
            if v == "proved":
                out.append(("proved", oid, backend, secs, None))
            elif v == "refuted":
                a1 = replay_cmdline(nmfu, m, border, level)
                a2 = replay_cmdline(nmfu, m, order, level)
                r1, r2 = real_run(nmfu, a1), real_run(nmfu, a2)
                replayed = r1 != r2
                out.append(("refuted", oid, backend, secs, {
                    "signature": f"order|{' '.join(a1)}|{' '.join(a2)}" if replayed else oid,
                    "what": f"result depends on the order of options: {' '.join(a1)} -> {r1[0]}  vs  {' '.join(a2)} -> {r2[0]}",
                    "replay": {"args_a": a1, "args_b": a2, "result_a": r1, "result_b": r2}, "replayed": replayed}))
            else:
                out.append(("unknown", oid, backend, secs, None))
    return out


def main():
    rep = Report(PROP, "proof")
    nmfu = common.load_nmfu()
    program = Program(nmfu, common.repo_source())
    PF = nmfu.ProgramFlag
    PD = nmfu.ProgramData
    rep.fn(FN + " (resolution tail)", "ProgramData._reset_flags")
    rep.assume("smt")
    rep.trust("vf/pyvc symbolic semantics of the Python subset used (CPython evaluation order, dict insertion order)",
              "flag metadata (implies/exclusive_with/default, _OPTIMIZE_LEVELS) is read from the imported real module")
    stmts, dropped = tail_slice(program)
    rep.coverage["slice_dropped_statements"] = dropped
    flags = list(PF)
    level = z3.Int("level")
    levels_tbl = PD._OPTIMIZE_LEVELS
    opt_level_of = {}
    for lv, fs in levels_tbl.items():
        for f in fs:
            opt_level_of[f] = lv

    def pr(f):
        return z3.Bool("pr_" + f.name)

    def ov(f):
        return z3.Bool("ov_" + f.name)

    findings = []

    def obligation(oid, hyps, goal, order, describe, clause):
        v, m, backend, secs = prove(hyps, goal)
        if v == "proved":
            rep.discharged_ob(oid, backend, secs)
        elif v == "refuted":
            args = replay_cmdline(nmfu, m, order, level)
            res, bad = check_concrete(nmfu, args, None)
            replayed = any(b.startswith(clause) for b in bad) or (clause == "*" and res[0] not in ("ok", "RuntimeError", "SystemExit"))
            if not replayed and clause in ("implies", "exclusive", "explicit-conflict", "override-on-lost", "override-off-lost", "*"):
                # the counter-model is a complete input of a deterministic function and the real function satisfies this very clause on it:
                # the refutation comes from an imprecision of the engine's model of the code, not from the code -> no verdict
                rep.undecided_ob(oid, f"z3 counter-model `{' '.join(args)}` does not fail on the real function (spurious refutation: engine imprecision)")
                return
            rep.failed_ob(Finding(PROP, oid, f"{clause}|{' '.join(args)}" if replayed else f"{oid}",
                                  f"{describe}; counterexample command line: {' '.join(args)} -> real function: {res[0]}; violated clauses on replay: {bad}",
                                  replay={"args": args, "real_result": res, "violated": bad}, replayed=replayed,
                                  details={"solver": backend}))
        else:
            rep.undecided_ob(oid, f"solver returned unknown ({backend})")

    # ---- canonical order run, levels 0..3 (symbolic) ----
    t0 = time.time()
    canon = flags
    runs = run_tail(program, nmfu, stmts, canon, lambda L: [L >= 0, L <= 3])
    rep.coverage["decision_paths_levels_0_3"] = len(runs)
    # frame: the resolution step may write ProgramData._flags / _options only; it must not modify the flag metadata or the level table in
    # place (they are shared by every later call: a configuration would then depend on earlier command lines)
    muts = sorted(set(m for r in runs for m in r.mutated_real))
    oid = f"C19/pyvc/{FN}/frame.no-in-place-change-of-shared-tables"
    if not muts:
        rep.discharged_ob(oid, "pyvc")
    else:
        # replay on the real function: resolve -O3, then -O0, and compare with -O0 resolved first in a fresh interpreter state
        import subprocess, sys as _sys, json as _json
        code = ("import sys, json; sys.path.insert(0, %r); import nmfu; P = nmfu.ProgramData\n"
                "def res(a):\n P._reset_flags() if hasattr(P, '_reset_flags') else None\n P.load_commandline_flags(a)\n return sorted(f.name for f, v in P._flags.items() if v)\n"
                "first = res(['-O0', 'x.nmfu']); res(['-O3', 'x.nmfu']); again = res(['-O0', 'x.nmfu']); print(json.dumps([first, again]))") % common.REPO
        try:
            out = subprocess.run([_sys.executable, "-c", code], capture_output=True, text=True, timeout=60)
            first, again = _json.loads(out.stdout.strip().splitlines()[-1])
            differs = first != again
            info = f"-O0 resolved first: {first}; -O0 resolved after -O3: {again}"
        except Exception as e:
            differs, info = False, f"replay failed: {type(e).__name__}"
        rep.failed_ob(Finding(PROP, oid, f"frame|{muts[0][3]}" if differs else oid,
                              f"the resolution step modifies a shared table in place ({'; '.join(m[3] + ' at line ' + str(m[1]) for m in muts[:3])}): later resolutions depend on earlier ones; real function: {info}",
                              replay={"mutations": [list(m) for m in muts], "real": info, "args": [["-O0"], ["-O3"], ["-O0"]]}, replayed=differs))
    is_rt = lambda c: issubclass(c, RuntimeError)
    not_rt = lambda c: not issubclass(c, RuntimeError)
    for ri, r in enumerate(runs):
        fl = r.env.get("flags")
        hyp = r.pc
        tag = f"path{ri}"
        # no exception other than RuntimeError on levels 0..3
        other = r.raised(not_rt)
        obligation(f"C19/pyvc/{FN}/tail.{tag}.only-RuntimeError", hyp, znot(other), canon,
                   "an exception other than RuntimeError escapes the resolution step", "*")
        if fl is None:
            continue
        normal = r.normal_cond()
        F = {f: to_bool(fl.items[f]) for f in flags}
        # (3) consistency
        for f in flags:
            for g in f.implies:
                g = PF(g)
                obligation(f"C19/pyvc/{FN}/tail.{tag}.implies.{f.name}->{g.name}", hyp + [zbool(normal), zbool(F[f])], F[g], canon,
                           f"{f.name} is on but its implied flag {g.name} is off", "implies")
            for g in f.exclusive_with:
                g = PF(g)
                obligation(f"C19/pyvc/{FN}/tail.{tag}.exclusive.{f.name}/{g.name}", hyp + [zbool(normal), zbool(F[f])], znot(F[g]), canon,
                           f"mutually exclusive flags {f.name} and {g.name} are both on", "exclusive")
                # (4) explicit conflict is an error
                obligation(f"C19/pyvc/{FN}/tail.{tag}.explicit-conflict.{f.name}/{g.name}",
                           hyp + [pr(f), ov(f), pr(g), ov(g)], r.raised(is_rt) if r.exits else False, canon,
                           f"explicitly requesting both {f.name} and {g.name} is not reported as an error", "explicit-conflict")
        # (2) overrides win
        for f in flags:
            obligation(f"C19/pyvc/{FN}/tail.{tag}.override-on.{f.name}", hyp + [zbool(normal), pr(f), ov(f)], F[f], canon,
                       f"explicit -f{f.name} is lost", "override-on-lost")
            implied_by = [F[g] for g in flags if g is not f and f.value in g.implies]
            obligation(f"C19/pyvc/{FN}/tail.{tag}.override-off.{f.name}", hyp + [zbool(normal), pr(f), znot(ov(f)), zbool(F[f])],
                       zor(*implied_by), canon, f"explicit -fno-{f.name} is lost although nothing implies it", "override-off-lost")
        # (1) levels cumulative: optimisation flag without override is on iff its level <= level
        for f, lv in opt_level_of.items():
            obligation(f"C19/pyvc/{FN}/tail.{tag}.level.{f.name}", hyp + [zbool(normal), znot(pr(f))],
                       simp(zbool(F[f]) == (level >= lv)) if not any(f.value in g.implies for g in flags) else True, canon,
                       f"optimisation flag {f.name} (level {lv}) not enabled exactly at levels >= {lv}", "level")
        # flags with no override, not an optimisation flag, not implied/excluded by anything: keep their default
        for f in flags:
            if f in opt_level_of:
                continue
            touched = any(f.value in g.implies or f.value in g.exclusive_with for g in flags) or f.exclusive_with or f.implies
            if touched:
                continue
            obligation(f"C19/pyvc/{FN}/tail.{tag}.default.{f.name}", hyp + [zbool(normal), znot(pr(f))],
                       simp(zbool(F[f]) == bool(f.default)), canon, f"flag {f.name} without any option does not keep its default", "default")
    # vacuity: normal completion reachable, error reachable
    r0 = runs[0]
    v, _, _ = check(r0.pc + [zbool(r0.normal_cond())])
    if v != "sat":
        rep.undecided_ob("C19/vacuity/normal-reachable", "normal completion not satisfiable: contradictory harness")
    else:
        rep.discharged_ob("C19/vacuity/normal-reachable(cover)", "z3")
    v, _, _ = check(r0.pc + [zbool(r0.raised(is_rt))])
    if v != "sat":
        rep.undecided_ob("C19/vacuity/error-reachable", "no RuntimeError reachable at all")
    else:
        rep.discharged_ob("C19/vacuity/error-reachable(cover)", "z3")

    # ---- out-of-range levels ----
    for name, cons in (("neg", lambda L: [L < 0]), ("big", lambda L: [L >= 4])):
        rr = run_tail(program, nmfu, stmts, canon, cons)
        for ri, r in enumerate(rr):
            esc = [e.exc_cls.__name__ for e in r.exits if not issubclass(e.exc_cls, RuntimeError)]
            rep.notes.append(f"-O level {name}: path{ri} exits={sorted(set(esc))} (statement asks that malformed levels are reported, not silently accepted)")
            if name == "big":
                # must not complete normally (a level above the table is never silently accepted)
                v, m, b, s = prove(r.pc, znot(zbool(r.normal_cond())))
                if v == "proved":
                    rep.discharged_ob(f"C19/pyvc/{FN}/tail.level-ge-4.reported.path{ri}", b, s)
                elif v == "refuted":
                    lv = model_value(m, level)
                    args = [f"-O{lv}", "in.nmfu"]
                    rep.failed_ob(Finding(PROP, f"C19/pyvc/{FN}/tail.level-ge-4.reported", f"level-silently-accepted|{lv}",
                                          f"-O{lv} is accepted silently", replay={"args": args, "real_result": real_run(nmfu, args)}))
                else:
                    rep.undecided_ob(f"C19/pyvc/{FN}/tail.level-ge-4.reported.path{ri}", "unknown")

    # ---- (5) order independence ----
    # identity flags: the per-flag step `if _flags[f]: aux(f)` neither writes nor raises
    closure = {}
    for f in flags:
        seen = set()
        st = [f]
        while st:
            x = st.pop()
            if x in seen:
                continue
            seen.add(x)
            st.extend(PF(g) for g in x.implies)
        closure[f] = seen
    active = [f for f in flags if any(x.exclusive_with for x in closure[f])]
    rep.coverage["active_flags"] = [f.name for f in active]
    if len(active) > 7:
        rep.undecided_ob("C19/order/too-many-active", f"{len(active)} active flags: exhaustive permutation not attempted")
    else:
        passive = [f for f in flags if f not in active]
        # identity proof for passive flags: tail run with only that flag overridden-on from an arbitrary consistent state
        # is covered structurally: aux(f) for passive f visits only flags without exclusive_with -> loop body never executes.
        for f in passive:
            assert not any(x.exclusive_with for x in closure[f])
            rep.discharged_ob(f"C19/meta/{f.name}.aux-identity", "metadata", sample=f"aux({f.name}) visits {sorted(x.name for x in closure[f])}: no exclusive_with -> no write, no raise")
        border = list(active) + passive
        global _ORDER_CTX
        brun = run_tail(program, nmfu, stmts, border, lambda L: [L >= 0, L <= 3])
        _ORDER_CTX = (program, nmfu, stmts, flags, passive, border, _sig(brun, flags))
        perms = list(itertools.permutations(active))[1:]
        import multiprocessing as mp
        ctx = mp.get_context("fork")
        with ctx.Pool(min(16, max(1, len(perms)))) as pool:
            results = pool.map(_order_worker, perms, chunksize=1)
        nperm = 1 + len(perms)
        for res in results:
            for kind, oid, backend, secs, payload in res:
                if kind == "proved":
                    rep.discharged_ob(oid, backend, secs)
                elif kind == "refuted" and not payload["replayed"]:
                    # both command lines give the same result on the real function: the counter-model is spurious (engine imprecision) -> no verdict
                    rep.undecided_ob(oid, "z3 counter-model of order dependence does not show on the real function: " + payload["what"][:200])
                elif kind == "refuted":
                    rep.failed_ob(Finding(PROP, oid, payload["signature"], payload["what"], replay=payload["replay"], replayed=payload["replayed"]))
                else:
                    rep.undecided_ob(oid, "unknown")
        rep.coverage["permutations"] = nperm

    # ---- (7) _reset_flags restores every class attribute that the module writes ----
    def body(eng):
        return call_function(eng, "ProgramData._reset_flags", [], self_obj=PD)
    rr = explore(program, body)
    store = rr[0].class_store.get(PD, {})
    written = set()
    cls_node = program.proto.classes["ProgramData"]
    for n in ast.walk(cls_node):
        if isinstance(n, (ast.Assign, ast.AugAssign, ast.Delete)):
            tg = n.targets if not isinstance(n, ast.AugAssign) else [n.target]
            for t in tg:
                if isinstance(t, ast.Attribute) and isinstance(t.value, ast.Name) and t.value.id in ("cls", "self", "ProgramData"):
                    written.add(t.attr)
                if isinstance(t, ast.Subscript) and isinstance(t.value, ast.Attribute) and isinstance(t.value.value, ast.Name) and t.value.value.id in ("cls", "self", "ProgramData"):
                    written.add(t.value.attr)
    import collections
    for attr in sorted(written):
        if attr == "_current_source":
            # source text of the current compilation, reloaded by load_source before each parse
            continue
        oid = f"C19/pyvc/ProgramData._reset_flags/restores.{attr}"
        if attr not in store:
            rep.failed_ob(Finding(PROP, oid, f"reset-misses|{attr}", f"_reset_flags does not reset ProgramData.{attr}, which other methods write",
                                  replay={"attr": attr}, replayed=True))
            continue
        val = store[attr]
        init = PD.__dict__.get(attr)
        # expected: the class-body initial value
        ok = False
        if isinstance(val, HDict):
            if attr == "_flags":
                ok = all(val.items.get(f) == f.default for f in PF) and len(val.items) == len(PF)
            elif attr == "_options":
                ok = all(val.items.get(o) == o.default for o in nmfu.ProgramOption) and len(val.items) == len(nmfu.ProgramOption)
            else:
                ok = len(val.items) == 0
        elif isinstance(val, HList):
            ok = len(val.items) == 0
        elif isinstance(val, collections.defaultdict):
            ok = len(val) == 0 and val.default_factory is type(PD.__dict__[attr]).__call__ or (len(val) == 0 and val.default_factory in (dict, list))
        elif isinstance(val, dict):
            ok = len(val) == 0
        else:
            ok = val in (None, False)
        if ok:
            rep.discharged_ob(oid, "pyvc-concrete", sample=f"{attr} reset")
        else:
            rep.failed_ob(Finding(PROP, oid, f"reset-wrong|{attr}", f"_reset_flags leaves ProgramData.{attr} = {val!r}", replay={"attr": attr}))

    rep.coverage["solver_stats"] = dict(STATS)
    return rep.finish(
        "Resolution tail of load_commandline_flags executed symbolically (all 4 levels as one symbolic Int, every flag override as a (present,value) pair of Booleans): "
        "consistency, override precedence, cumulative levels, explicit-conflict errors proved for all inputs; order independence by exhaustive symbolic permutation of the active flags; "
        "_reset_flags checked attribute by attribute. Option-token parsing (loop body before the tail) is outside the slice.",
        checker_cmd="./check C19")


def replay(path):
    nmfu = common.load_nmfu()
    d = json.load(open(path))
    inp = d["input"]
    for k in ("args", "args_a", "args_b"):
        if k in inp:
            print(k, inp[k], "->", real_run(nmfu, inp[k]))
    return 0
