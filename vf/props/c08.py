"""C08 - a case statement runs exactly the clause whose pattern matched.

 bounded-exact, two independent contracts on the real functions:
  (a) CaseNode._merge = subset construction over the clause automata (state map, acceptance, clause ownership, priorities, no-match edges) - every call;
  (b) CaseNode.convert end to end: the compiled case statement is compared, by exact product search over all 256 bytes, with a reference that runs
      the clause patterns in parallel as derivatives (else clause / no-match error exactly when no pattern can continue, body at the offending byte,
      greedy: keep consuming while any pattern continues, then the highest-priority complete pattern)."""
from .. import common, gen
from ..common import Finding
from . import _rtcprops as R
from ..rtc import case_ref

TEXT = ("(a) run-time contract on every CaseNode._merge call: the result is the subset construction of the clause automata over all 257 symbols, finish states owned by the (highest-priority) finishing clause; "
        "(b) generated clause sets (literals, case-insensitive, regexes, binary, several patterns per clause, else alone/combined, priorities): compiled machine vs derivative-based reference by exact product search. Bounded over the generated clause sets.")


def post(nmfu, c, prog, flags):
    if not prog["name"].startswith(("case/", "caseE/", "caseM/", "caseT/", "caseN/")):
        return None
    try:
        spec = case_ref.spec_from_source(nmfu, prog["src"])
    except ValueError as e:
        return {"skip": str(e)}
    msg, n = case_ref.check(nmfu, c.cctx, spec)
    return {"msg": msg, "n": n}


def main():
    sel = lambda c: c.startswith("CaseNode._merge") and ("C08" in c or c == "CaseNode._merge" or "C01" in c)
    rep, outs = R.run_contracts("C08", sel, ["CaseNode._merge"], ["dfa", "merge"], "case", TEXT, ["CaseNode._merge", "CaseNode.convert", "DFA.append_after (clause bodies)"], post=post)
    # which clause owns a merged state / when the merge is refused: discharged from the real AST for all priorities (pyvc + z3)
    from . import merge_proofs
    merge_proofs.run(rep, "C08")
    nref = steps = 0
    srcs = None
    for o in outs:
        p = o.get("post")
        if not p or "skip" in p:
            continue
        if p["msg"]:
            if srcs is None:
                srcs = {x["name"]: x["src"] for x in gen.case_programs() + gen.case_programs(empty_bodies=True)}
            kind = "ref"
            if o["prog"].startswith(("caseE/", "caseM/")) and "prescribes no clause" in p["msg"] and "the machine runs [('set'" in p["msg"]:
                kind = "empty-body-provisional"
            rep.bounded_violation(Finding("C08", "C08/ref/CaseNode.convert/runs-the-matching-clause", f"{o['prog']}|{' '.join(o['flags'])}|{kind}",
                                  f"{o['prog']} [{' '.join(o['flags'])}]: {p['msg']}", replay={"program": o["prog"], "source": srcs.get(o["prog"]), "flags": o["flags"]}, replayed=True))
        else:
            nref += 1
            steps += p["n"]
    rep.bounded_count("case statements proved equal to the derivative reference (program x option set)", nref)
    rep.bounded_count("product-state x byte comparisons", steps)
    if nref == 0:
        rep.undecided_ob("C08/vacuity/ref", "no case statement compared with the reference")
    return R.finish(rep, TEXT + " Proved (pyvc on the real AST of CaseNode._merge.create_real_state_of; merged states of up to 3 clauses, every acceptance pattern, symbolic priorities): the clause that owns a merged state of a greedy case "
                    "has the strictly highest priority among the finishing clauses (z3), a single finisher owns its state, nobody owns a state in which nothing finishes, and ambiguous merges are refused.", "C08")


def replay(path):
    import json
    from ..csem import tv
    d = json.load(open(path))["input"]
    nmfu = common.load_nmfu()
    if d.get("source"):
        c = tv.compile_program(nmfu, d["source"], d["flags"])
        print(case_ref.check(nmfu, c.cctx, case_ref.spec_from_source(nmfu, d["source"])))
    return 0
