"""C17 - end-of-input handling: emitted end() proved per program against the abstract machine (csem+z3); that data patterns never
consume end-of-input is the End clause of the regex contract (bounded-exact) plus the literal-match shape."""
from .. import common, gen
from ..common import Finding
from . import _tvprops as P
from . import _tvcommon as T


def main():
    spec = P.SPECS["C17"]
    rep, recs = T.run("C17", spec["families"], spec["level"], spec["text"], optsets=P.optsets_for("C17"), programs=P.programs_for("C17"), fns=P.CODEGEN_FNS)
    # EndMatch.convert: shape proved for all action lists from the real AST (End -> accepting state with all actions; every data byte -> handler)
    from . import leaf_proofs
    from ..pyvc.driver import Program
    nm = common.load_nmfu()
    leaf_proofs.run(rep, "C17", ["EndMatch", "DirectMatch", "CaseDirectMatch"], nm, Program(nm, common.repo_source()))
    # `end` is refused without EOF support and is an EndMatch with it, for all flag values (pyvc on ParseCtx._parse_match_expr)
    from . import c17_proofs
    c17_proofs.run(rep, "C17")
    # data patterns never match End (regexes incl. wildcard / inverted sets; literal matches list characters only)
    from ..rtc import run as rrun, regex_contract
    ps = gen.regex_programs(common.tier() == "thorough", common.seed())
    outs = rrun.run(ps, [["-O1", "-feof-support"]], [regex_contract.install], time_limit=60)
    n = 0
    for o in outs:
        if o["error"]:
            rep.undecided_ob(f"C17/rtc/{o['prog']}", o["error"][-200:])
            continue
        n += sum(v for k, v in (o["evals"] or {}).items() if k == "RegexMatch.convert")
        for f in o["fails"] or []:
            if "end-of-input" in f["msg"]:
                rep.bounded_violation(Finding("C17", "C17/rtc/RegexMatch.convert/never-consumes-End", f"{o['prog']}|End", f"{o['prog']}: {f['msg']}",
                                      replay={"program": o["prog"], "source": next(p["src"] for p in ps if p["name"] == o["prog"])}, replayed=True))
    rep.bounded_count("regex DFAs checked never to consume End (product states x symbols)", n)
    # the compiled (optimised) parsers at end-of-input: wildcards, inverted sets, `end`, `wait end` behind case-else / catch / optional /
    # loop exits, run on all short inputs followed by end(), against the reading in which end-of-input is matched by `end` only
    import multiprocessing, os
    from . import c01
    eps = end_programs()
    thorough = common.tier() == "thorough"
    jobs = [(p, [["-O0"], ["-O3"]] + ([["-O1"], ["-O2"]] if thorough else []), 400 if not thorough else 1500, 150 if not thorough else 800, common.seed(), None) for p in eps]
    with multiprocessing.get_context("fork").Pool(min(16, os.cpu_count() or 4)) as pool:
        results = pool.map(c01._work, jobs, chunksize=2)
    src_of = {p["name"]: p["src"] for p in eps}
    ncmp = nrun = 0
    for o in results:
        nrun += o["status"] == "checked"
        ncmp += o["checked"]
        for b in o["bad"] + o["known"]:
            rep.bounded_violation(Finding("C17", f"C17/compiled/{o['name']}", f"{o['name']}|{' '.join(b['flags'])}|{b['input']}|{'+'.join(b['kinds'])}",
                                          f"{o['name']} [{' '.join(b['flags'])}] input {b['input']}: {b['msg'][:400]}",
                                          replay={"source": src_of[o["name"]], "flags": b["flags"], "input": b["input"]}, replayed=True))
    rep.bounded_count("end-of-input programs: inputs on which the generated parser (feed ... end) was compared with the reading", ncmp)
    rep.coverage["end_programs_run"] = nrun
    rep.fn("RegexMatch._create_dfa_state (End routed to the error path)", "EndMatch.convert")
    rep.coverage["bound"] = "per program; the End-exclusion of regexes is a run-time contract over the generated regex set (bounded)"
    return rep.finish(spec["text"] + " Data patterns never consuming End: End clause of the RegexMatch.convert contract over the generated regex set (bounded-exact); for literal and case-insensitive matches and for `end` itself the shape "
                      "contracts of DirectMatch/CaseDirectMatch/EndMatch.convert are discharged by pyvc for all literals and action lists (literal states list characters only; `end` lists exactly End).", checker_cmd="./check C17")


def end_programs():
    decl = "out int n = 0;\nhook h;\nhook g;\n"
    xs = ['/./; h();', '/[^a]/; h();', 'wait end; h();', 'end; h();', '/[^a]*/; end; h();', 'wait "x"; h();', '/.+/; h();', 'b/[^61]/; h();', '/[^a]?/; "b"; h();']
    ctxs = ['case {{ "a" -> {{ g(); }} else -> {{ {x} }} }}', 'try {{ "ab"; g(); }} catch {{ {x} }}', '"q"; optional {{ "r"; g(); }} {x}', 'loop {{ "a"; optional {{ "!"; break; }} }} {x}',
            'case {{ "ab" -> {{ g(); }} "a" -> {{ {x} }} }}', 'if n == 0 {{ {x} }} else {{ "z"; }}', 'foreach {{ {x} }} do {{ n = [n + 1]; }}', '{x}']
    out = []
    k = 0
    for c in ctxs:
        for x in xs:
            out.append({"name": f"end/{k}", "src": decl + "parser { " + c.format(x=x) + " }\n"})
            k += 1
    # a greedy case in a finishing state of one clause while the wildcard of another clause could go on (corpus/greedy-wildcard-end.nmfu)
    out.append({"name": "end/greedy-wildcard", "src": 'out int seen = 0;\nparser { greedy case { "a" -> { seen = 1; } /a./ -> { seen = 2; } } }\n'})
    return out


def replay(path):
    import json
    d = json.load(open(path))["input"]
    if "input" in d:
        from . import c01
        return c01.replay(path)
    return P.replay_for("C17", path)
