"""C17 - end-of-input handling: emitted end() proved per program against the abstract machine (csem+z3); that data patterns never
consume end-of-input is the End clause of the regex contract (bounded-exact) plus the literal-match shape."""
from .. import common, gen
from ..common import Finding
from . import _tvprops as P
from . import _tvcommon as T


def main():
    spec = P.SPECS["C17"]
    rep, recs = T.run("C17", spec["families"], spec["level"], spec["text"], optsets=P.optsets_for("C17"), programs=P.programs_for("C17"), fns=P.CODEGEN_FNS)
    # data patterns never match End (regexes incl. wildcard / inverted sets; literal matches list characters only)
    from ..rtc import run as rrun, regex_contract
    ps = gen.regex_programs(common.tier() == "thorough", common.seed())
    outs = rrun.run(ps, [["-O1", "-feof-support"]], [regex_contract.install], time_limit=10)
    n = 0
    for o in outs:
        if o["error"]:
            rep.undecided_ob(f"C17/rtc/{o['prog']}", o["error"][-200:])
            continue
        n += sum(v for k, v in (o["evals"] or {}).items() if k == "RegexMatch.convert")
        for f in o["fails"] or []:
            if "end-of-input" in f["msg"]:
                rep.bounded_violation(Finding("C17", "C17/rtc/RegexMatch.convert/never-consumes-End", f"{o['prog']}|End", f"{o['prog']}: {f['msg']}",
                                      replay={"program": o["prog"], "source": next(p["src"] for p in ps if p["name"] == o["prog"])}, replayed=True))
    rep.bounded_count("regex DFAs checked never to consume End (product states x symbols)", n)
    rep.fn("RegexMatch._create_dfa_state (End routed to the error path)", "EndMatch.convert")
    rep.coverage["bound"] = "per program; the End-exclusion of regexes is a run-time contract over the generated regex set (bounded)"
    return rep.finish(spec["text"] + " Data patterns never consuming End: End clause of the RegexMatch.convert contract over the generated regex set (bounded-exact).", checker_cmd="./check C17")


def replay(path):
    return P.replay_for("C17", path)
