"""C05 - optimisation levels and flags never change parser behaviour.

Contract on DfaCompileCtx.compile's optimisation loop (and its three passes): the optimised machine is bisimilar to the unoptimised one
after both are put in eager normal form (which absorbs exactly the permitted one-byte slack).  Evaluated exactly (all 257 symbols,
data-dependent outcomes as symbolic branches) per program: bounded over programs.  Pass-level contracts (simplify keeps every
symbol's behaviour, remove-inaccessible only removes unreachable states) are evaluated on every call.  The delete/empty-string
rewrite is a z3 lemma on the abstract machine.  That each level's C executes its own machine is C06."""
import multiprocessing as mp, time, traceback
import z3
from .. import common, progs, gen
from ..common import Report, Finding

VARIANTS_QUICK = [["-O1"], ["-O2"], ["-O3"], ["-O0", "-fsimplify-else-conditions"], ["-O0", "-fremove-inaccesible-states"],
                  ["-O0", "-fuse-delete-for-empty-string"], ["-O0", "-fshortcircuit-fallthroughs"], ["-O3", "-fno-remove-inaccesible-states"]]
VARIANTS_THOROUGH = VARIANTS_QUICK + [["-O3", "--max-shortcircuit-fallthrough", "0"], ["-O3", "--max-shortcircuit-fallthrough", "1"],
                                      ["-O3", "--max-shortcircuit-fallthrough", "3", "--max-shortcircuit-action-penalty", "0"],
                                      ["-O3", "-fno-simplify-else-conditions"], ["-O2", "-fshortcircuit-fallthroughs", "-fno-use-delete-for-empty-string"]]

_CTX = {}


def _install_pass_contracts(nmfu, fails, counts):
    from ..rtc.core import table, symbols, beh, reachable
    SY = symbols(nmfu)
    D = nmfu.DfaCompileCtx
    orig_simplify = D._optimize_simplify_transition_matches
    orig_remove = D._optimize_remove_inaccessible

    def simplify(self):
        pre = {id(s): {y: beh(t) for y, t in table(nmfu, s).items()} for s in self.dfa.states}
        states = list(self.dfa.states)
        r = orig_simplify(self)
        for s in states:
            post = table(nmfu, s)
            for y in SY:
                if pre[id(s)][y] != beh(post[y]):
                    fails.append(("simplify/keeps-behaviour", "else-simplification changed what a state does on some symbol"))
                    return r
        counts["simplify"] = counts.get("simplify", 0) + len(states) * len(SY)
        return r

    def remove(self):
        before = list(self.dfa.states)
        r = orig_remove(self)
        after = list(self.dfa.states)
        reach = reachable(nmfu, self.dfa.starting_state)
        kept = set(id(s) for s in after)
        for s in before:
            if id(s) not in kept and id(s) in reach:
                fails.append(("remove-inaccessible/only-unreachable", "a state that is reachable (through transitions or action targets) was removed"))
                return r
        if [s for s in before if id(s) in kept] != after:
            fails.append(("remove-inaccessible/order", "relative order of the kept states changed"))
        counts["remove"] = counts.get("remove", 0) + len(before)
        return r
    D._optimize_simplify_transition_matches = simplify
    D._optimize_remove_inaccessible = remove


def _task(job):
    pi = job
    prog = _CTX["programs"][pi]
    nmfu = common.load_nmfu()
    from ..csem import tv
    from ..rtc import bisim
    fails, counts = _CTX.setdefault("fails", []), _CTX.setdefault("counts", {})
    del fails[:]
    counts.clear()
    if not _CTX.get("installed"):
        _install_pass_contracts(nmfu, fails, counts)
        _CTX["installed"] = True
    out = {"prog": prog["name"], "results": [], "base": None, "error": None}
    try:
        try:
            base = tv.compile_program(nmfu, prog["src"], ["-O0"] + prog["args"], path=prog["name"])
            out["base"] = "accepted"
        except nmfu.NMFUError as e:
            base = None
            out["base"] = "rejected:" + type(e).__name__
        except tv.InternalCompilerError as e:
            base = None
            out["base"] = "internal"
        for var in _CTX["variants"]:
            try:
                c = tv.compile_program(nmfu, prog["src"], list(var) + prog["args"], path=prog["name"])
                verdict = "accepted"
            except nmfu.NMFUError as e:
                c = None
                verdict = "rejected:" + type(e).__name__
            except tv.InternalCompilerError:
                c = None
                verdict = "internal"
            if (base is None) != (c is None) and "internal" not in (out["base"], verdict):
                # the statement is about the parsers the levels yield; a program that only one level accepts is noted, not judged
                out["results"].append((var, "note", {"what": f"accepted at one level and rejected at the other (-O0: {out['base']}, {' '.join(var)}: {verdict})"}, {}))
                continue
            if base is None or c is None:
                continue
            A = bisim.NF(nmfu, base.cctx)
            B = bisim.NF(nmfu, c.cctx)
            ok, wit, st = bisim.compare(nmfu, A, B)
            out["results"].append((var, "proved" if ok is True else ("refuted" if ok is False else "unknown"), wit, st))
        out["pass_fails"] = list(fails)
        out["pass_counts"] = dict(counts)
    except Exception:
        out["error"] = traceback.format_exc()[-1200:]
    return out


def lemma_delete_equals_empty_assign(rep):
    """abstract effect of `s = ""` and `delete s` on a terminated / unterminated string: same length, same content up to the length, terminator"""
    I = z3.IntSort()
    for null in (True, False):
        buf = z3.Array("buf", I, I)
        a_buf = z3.Store(buf, 0, z3.IntVal(0)) if null else buf     # SetToStr "": memcpy of the terminator only
        a_len = z3.IntVal(0)
        d_buf = z3.Store(buf, 0, z3.IntVal(0)) if null else buf     # DeleteBuf (not freeing): [0] = 0 for terminated strings
        d_len = z3.IntVal(0)
        k = z3.Int("k")
        s = z3.Solver()
        s.add(z3.Not(z3.And(a_len == d_len, z3.Implies(z3.And(k >= 0, k <= a_len if null else k < a_len), z3.Select(a_buf, k) == z3.Select(d_buf, k)))))
        r = s.check()
        if r == z3.unsat:
            rep.discharged_ob(f"C05/lemma/delete-equals-empty-assign.{'terminated' if null else 'unterminated'}", "z3")
        else:
            rep.undecided_ob("C05/lemma/delete-equals-empty-assign", str(r))


def main():
    rep = Report("C05", "other")
    thorough = common.tier() == "thorough"
    ps = progs.corpus(big=True, include_fail=True) + gen.generated_programs(1500 if thorough else 200, common.seed())
    variants = VARIANTS_THOROUGH if thorough else VARIANTS_QUICK
    _CTX.clear()
    _CTX.update(programs=ps, variants=variants)
    rep.fn("DfaCompileCtx.compile (optimisation loop)", "DfaCompileCtx._optimize_shortcircuit_fallthroughs", "DfaCompileCtx._optimize_simplify_transition_matches",
           "DfaCompileCtx._optimize_remove_inaccessible", "DFState.compute_foreign_else_definition", "ParseCtx._parse_assign_stmt (empty-string rewrite)")
    rep.assume("debug")
    rep.trust("vf/rtc/bisim.py: eager normal form + bisimulation over the DFA classes (specification of 'same behaviour up to the permitted one-byte slack')")
    order = sorted(range(len(ps)), key=lambda i: -len(ps[i]["src"]))
    ctx = mp.get_context("fork")
    with ctx.Pool(16) as pool:
        outs = pool.map(_task, order, chunksize=1)
    n_ok = 0
    pairs = steps = 0
    pass_counts = {}
    for o in outs:
        if o["error"]:
            rep.undecided_ob(f"C05/bisim/{o['prog']}", "checker crash: " + o["error"][-300:])
            continue
        for (var, verdict, wit, st) in o["results"]:
            label = f"{o['prog']} [-O0 vs {' '.join(var)}]"
            if verdict == "proved":
                n_ok += 1
                pairs += st.get("pairs", 0)
                steps += st.get("steps", 0)
            elif verdict == "refuted":
                src = next(p["src"] for p in ps if p["name"] == o["prog"])
                rep.bounded_violation(Finding("C05", f"C05/bisim/{label}", f"{o['prog']}|{' '.join(var)}|{(wit or {}).get('what', '')[:60]}",
                                      f"{label}: optimised and unoptimised machines are not equivalent: {wit.get('what')} (state {wit.get('state_a')} vs {wit.get('state_b')}, symbol {wit.get('symbol')}, reached via {wit.get('reached_via', wit.get('via'))})",
                                      replay={"program": o["prog"], "source": src if o["prog"].startswith("gen/") else None, "variant": var, "witness": wit}, replayed=True))
            elif verdict == "note":
                if len(rep.notes) < 30:
                    rep.notes.append(f"{label}: {wit['what']}")
            else:
                rep.undecided_ob(f"C05/bisim/{label}", str(wit))
        for (c, msg) in o.get("pass_fails", []):
            rep.bounded_violation(Finding("C05", f"C05/rtc/{c}", f"{o['prog']}|{c}", f"{o['prog']}: {msg}", replay={"program": o["prog"]}, replayed=True))
        for k, v in o.get("pass_counts", {}).items():
            pass_counts[k] = pass_counts.get(k, 0) + v
    rep.bounded_count("machine pairs proved bisimilar in eager normal form (program x variant)", n_ok)
    rep.bounded_count("related state pairs x 257 symbols compared", steps)
    for k, v in pass_counts.items():
        rep.bounded_count(f"pass contract {k}: symbol/state checks", v)
    if n_ok == 0:
        rep.undecided_ob("C05/vacuity", "no machine pair compared")
    lemma_delete_equals_empty_assign(rep)
    # optimisation flags that act in the code generator (range collapsing) leave the machine untouched: for them the contract is on the
    # emitted C, which is proved to execute the machine with the flag on and off (same obligations as C06, 'refine' family)
    from . import _tvcommon as T
    cg_sets = {"O0": ["-O0"], "O0-collapse": ["-O0", "-fcollapse-transition-ranges"], "O2": ["-O2"], "O2-collapse1": ["-O2", "--collapsed-range-length", "1"]}
    cg_ps = progs.corpus(big=False, include_fail=False) + gen.regex_programs(False, common.seed())[:: 40] + gen.generated_programs(40 if thorough else 12, common.seed())
    T.run("C05", {"refine", "consume"}, "other", "", optsets=cg_sets, programs=cg_ps, rep=rep)
    rep.coverage["codegen_option_sets"] = cg_sets
    rep.coverage["variants"] = variants
    rep.coverage["programs_in_set"] = len(ps)
    rep.samples = [f"{o['prog']}: " + ", ".join(f"{' '.join(v)}={verdict}" for v, verdict, _, _ in o["results"][:3]) for o in outs[:6]]
    text = ("Bounded-exact: for each program the machine compiled at -O0 is compared with the machine compiled at each level / with each optimisation flag alone by an exact bisimulation in eager normal form "
            "(all 257 symbols; append overflow and conditions as symbolic branches; actions, consumption, acceptance, finish/yield codes compared; the only slack absorbed is an action sitting between two consumed bytes). "
            "Pass-level contracts for simplify / remove-inaccessible on every call. collapse-transition-ranges only affects code generation: for it the emitted C is proved (csem+z3, 'refine' obligations as in C06) to execute the same machine with the flag on and off, on the corpus, a regex sample and generated programs.")
    # else-simplification pass: per-transition contract from the real AST (pyvc) + L-simplify (Lean): the pass cannot change any lookup
    from . import c05_proofs
    c05_proofs.run(rep, "C05")
    # the byte-test emitter (range collapsing is an optimisation flag): its text denotes exactly the transition's symbols for ALL symbol lists,
    # thresholds and flag values (loop invariants + z3 on the real AST, vf/props/cond_proofs.py)
    from . import cond_proofs
    cond_proofs.run(rep, "C05")
    text += (" Proved (pyvc + Lean 4): _optimize_simplify_transition_matches rewrites a symbol list to [Else] exactly when it lists Else among other symbols and touches nothing else (arbitrary transition, symbolic flag); "
             "L-simplify: under RI1 that rewrite preserves the transition every symbol selects. DFA.dfs (what remove-inaccessible keeps) yields every state a transition can lead to, "
             "for every override mode and every ordered pair of modes of its actions; _optimize_remove_inaccessible removes exactly the unreached states (start-action targets count as reached), keeps the order, and does nothing with the flag off.")
    text += (" Proved for all symbol lists, collapse thresholds and flag values (pyarr: VCs from the real AST with loop invariants, z3): the condition text emitted by "
             "_generate_condition_for_transition denotes exactly the transition's byte symbols, with or without range collapsing; the leaf templates (_generate_equal_check, _generate_range_check) by exhaustion.")
    return rep.finish(text, checker_cmd="./check C05", require_obligations=False)


def replay(path):
    import json
    from ..csem import tv
    from ..rtc import bisim
    d = json.load(open(path))["input"]
    nmfu = common.load_nmfu()
    if "obligation" in d:
        from ..csem import tv as tvm
        from . import _tvcommon as T
        ps = {p["name"]: p for p in progs.corpus(big=False) + gen.regex_programs(False, common.seed()) + gen.generated_programs(40, common.seed())}
        p = ps[d["program"]]
        c = tvm.compile_program(nmfu, p["src"], d["flags"] + p["args"], path=p["name"])
        Tt = tvm.TV(c)
        Tt.run()
        for r in Tt.results:
            if r.oid == d["obligation"]:
                print(r.family, r.oid, r.verdict, r.what, r.witness)
        return 0
    src = d.get("source") or next(p["src"] for p in progs.corpus(include_fail=True) if p["name"] == d["program"])
    from ..progs import _args_of
    a = tv.compile_program(nmfu, src, ["-O0"] + _args_of(src))
    b = tv.compile_program(nmfu, src, d["variant"] + _args_of(src))
    print(bisim.compare(nmfu, bisim.NF(nmfu, a.cctx), bisim.NF(nmfu, b.cctx)))
    return 0
