"""Frame lemma for the debug bookkeeping (ProgramData.imbue / lookup / _ensure_refmapped), by write-set / read-set analysis of the real
AST of /repo/nmfu.py, re-done on every run.  It replaces what used to be a standing *assumption* of every pyvc proof and run-time
contract ("imbue returns its first argument and has no semantic effect; lookup may be replaced by None") by obligations:

  W1  the three functions store only into locals and into the three registries cls._refmap / _children / _collection, and call only
      functions from a fixed list of effect-free callables (and each other);
  W2  every `return` of imbue returns the parameter `obj` (or the recursive call on `obj`), and `obj` is never re-bound;
  R1  the three registries are mentioned nowhere else but in _reset_flags and the debug_dump_* printers;
  R2  every call of lookup outside diagnostic code (debug_lookup / __str__ / __repr__ / _get_message / debug_dump_* / add_info)
      either only guards imbue calls (`if lookup(x, TAG) is None: x = imbue(x, TAG, ...)`), or asks for a tag that the proofs model
      explicitly (ACTION_MAY_SKIP, STRICT_TIMING_REASON), or is one of the semantic reads LISTED below - those are not covered by the
      lemma and are named in the evidence as what remains;
  D   the debug_lookup methods (called by lookup on arbitrary nodes) store nowhere and call no mutator.

A failing clause means that the premise of the proofs is gone, not that a property is violated: it is reported as *undecided*.
What stays trusted: that the analysis is syntactic (no setattr / getattr-by-string / exec on these names - also scanned for)."""
import ast
from .. import common

REG = ("_refmap", "_children", "_collection")
W_FUNCS = ("imbue", "lookup", "_ensure_refmapped")
PURE_CALLS = {"id", "type", "isinstance", "NMFUError", "weakref.ref", "cls.do", "cls.lookup", "cls.imbue", "cls._ensure_refmapped"}
DIAG_FUNCS = {"debug_lookup", "__str__", "__repr__", "_get_message", "add_info", "_generate_whitespace_marker"}
MODELLED_TAGS = {"ACTION_MAY_SKIP", "STRICT_TIMING_REASON"}
# semantic reads that exist on purpose; (qualified function, tag).  Not covered by the lemma: no pyvc proof executes these functions
# (they are under run-time contract on the real code, where the real lookup runs).
LISTED_SEMANTIC_READS = {("DFA.chain_actions_into", "PARENT")}
MUTATORS = {"append", "extend", "add", "remove", "pop", "clear", "update", "insert", "setdefault", "imbue", "discard", "sort", "reverse", "popitem"}


def _dotted(n):
    if isinstance(n, ast.Name):
        return n.id
    if isinstance(n, ast.Attribute):
        b = _dotted(n.value)
        return None if b is None else b + "." + n.attr
    return None


def _root_registry(n):
    """is the store target / receiver rooted at cls.<registry> or ProgramData.<registry> ?"""
    while isinstance(n, (ast.Subscript, ast.Attribute)):
        d = _dotted(n)
        if d and d.split(".")[0] in ("cls", "ProgramData") and len(d.split(".")) == 2 and d.split(".")[1] in REG:
            return True
        n = n.value
    return False


def _functions(tree):
    out = []

    def scan(node, owner, outer):
        for ch in ast.iter_child_nodes(node):
            if isinstance(ch, ast.ClassDef):
                scan(ch, ch.name, outer)
            elif isinstance(ch, (ast.FunctionDef, ast.AsyncFunctionDef)):
                ch._outermost = outer or ch.name          # nested functions belong to their outermost function
                out.append((owner, ch))
                scan(ch, owner, ch._outermost)
            else:
                scan(ch, owner, outer)
    scan(tree, None, None)
    return out


def analyse(src):
    tree = ast.parse(src)
    funcs = _functions(tree)
    bad = {k: [] for k in ("W1", "W2", "R1", "R2", "D", "dyn")}
    counts = {"lookup_calls": 0, "guard_only": 0, "diagnostic": 0, "modelled_tag": 0, "listed": 0, "debug_lookup_methods": 0}
    listed_seen = set()
    pd = {f.name: f for o, f in funcs if o == "ProgramData" and f.name in W_FUNCS}
    for name in W_FUNCS:
        if name not in pd:
            bad["W1"].append(f"ProgramData.{name} not found")
    # ---- W1 / W2
    for name, f in pd.items():
        for n in ast.walk(f):
            if isinstance(n, (ast.Attribute, ast.Subscript)) and isinstance(n.ctx, (ast.Store, ast.Del)):
                if not _root_registry(n):
                    bad["W1"].append(f"ProgramData.{name} line {n.lineno}: stores into {ast.unparse(n)}")
            if isinstance(n, (ast.Global, ast.Nonlocal)):
                bad["W1"].append(f"ProgramData.{name} line {n.lineno}: global/nonlocal")
            if isinstance(n, ast.Call):
                d = _dotted(n.func)
                if d in PURE_CALLS:
                    continue
                if isinstance(n.func, ast.Attribute) and n.func.attr == "append" and _root_registry(n.func.value):
                    continue
                if isinstance(n.func, ast.Attribute) and n.func.attr == "debug_lookup":
                    continue                                      # clause D
                if isinstance(n.func, ast.Subscript) and _root_registry(n.func):
                    continue                                      # cls._refmap[k]()  (weak reference call)
                if d is not None and d.endswith(".__repr__.__self__"):
                    continue
                bad["W1"].append(f"ProgramData.{name} line {n.lineno}: calls {ast.unparse(n.func)}")
    if "imbue" in pd:
        f = pd["imbue"]
        first = f.args.args[1].arg if len(f.args.args) > 1 else None
        for n in ast.walk(f):
            if isinstance(n, ast.Name) and n.id == first and isinstance(n.ctx, (ast.Store, ast.Del)):
                bad["W2"].append(f"imbue re-binds its parameter {first} (line {n.lineno})")
            if isinstance(n, ast.Return):
                v = n.value
                ok = isinstance(v, ast.Name) and v.id == first
                if isinstance(v, ast.Call) and _dotted(v.func) == "cls.imbue" and v.args and isinstance(v.args[0], ast.Name) and v.args[0].id == first:
                    ok = True
                if not ok:
                    bad["W2"].append(f"imbue line {n.lineno}: returns {ast.unparse(v) if v else None}, not its first argument")
    # ---- R1 and dynamic access
    for owner, f in funcs:
        q = f"{owner}.{f.name}" if owner else f.name
        allowed = (owner == "ProgramData" and f.name in W_FUNCS + ("_reset_flags",)) or f._outermost.startswith("debug_dump")
        for n in ast.walk(f):
            if isinstance(n, ast.Attribute) and n.attr in REG and not allowed:
                # the attribute names are only meaningful on ProgramData / cls; other objects do not have them
                base = _dotted(n.value)
                if base in ("ProgramData", "cls"):
                    bad["R1"].append(f"{q} line {n.lineno}: touches {ast.unparse(n)}")
            if isinstance(n, ast.Call) and _dotted(n.func) in ("setattr", "getattr", "delattr", "exec", "eval", "vars"):
                args = " ".join(ast.unparse(a) for a in n.args[:2])
                if "ProgramData" in args or any(r in args for r in REG):
                    bad["dyn"].append(f"{q} line {n.lineno}: dynamic access {ast.unparse(n)[:80]}")
    # ---- R2: classify every lookup call site
    for owner, f in funcs:
        q = f"{owner}.{f.name}" if owner else f.name
        if owner == "ProgramData" and f.name in W_FUNCS:
            continue
        diag = f.name in DIAG_FUNCS or f._outermost in DIAG_FUNCS or f._outermost.startswith("debug_dump")
        # parents map for guard detection
        parents = {}
        for n in ast.walk(f):
            for ch in ast.iter_child_nodes(n):
                parents[ch] = n
        for n in ast.walk(f):
            if not (isinstance(n, ast.Call) and _dotted(n.func) in ("ProgramData.lookup", "cls.lookup")):
                continue
            # nested function definitions are visited on their own
            p = n
            inner = False
            while p in parents:
                p = parents[p]
                if isinstance(p, (ast.FunctionDef, ast.Lambda)) and p is not f:
                    inner = isinstance(p, ast.FunctionDef)
                    break
            if inner:
                continue
            counts["lookup_calls"] += 1
            if diag:
                counts["diagnostic"] += 1
                continue
            tag = None
            if len(n.args) > 1:
                d = _dotted(n.args[1])
                if d and d.startswith("DTAG."):
                    tag = d.split(".", 1)[1]
            if tag in MODELLED_TAGS:
                counts["modelled_tag"] += 1
                continue
            if _guards_only_imbue(n, parents):
                counts["guard_only"] += 1
                continue
            if (q, tag) in LISTED_SEMANTIC_READS:
                counts["listed"] += 1
                listed_seen.add((q, tag))
                continue
            bad["R2"].append(f"{q} line {n.lineno}: the result of lookup(.., {tag}) is used outside diagnostics: {ast.unparse(parents.get(n, n))[:100]}")
    # ---- D
    for owner, f in funcs:
        if f.name != "debug_lookup":
            continue
        counts["debug_lookup_methods"] += 1
        for n in ast.walk(f):
            if isinstance(n, (ast.Attribute, ast.Subscript)) and isinstance(n.ctx, (ast.Store, ast.Del)):
                bad["D"].append(f"{owner}.debug_lookup line {n.lineno}: stores into {ast.unparse(n)}")
            if isinstance(n, ast.Call) and isinstance(n.func, ast.Attribute) and n.func.attr in MUTATORS:
                bad["D"].append(f"{owner}.debug_lookup line {n.lineno}: calls mutator {ast.unparse(n.func)}")
            if isinstance(n, (ast.Global, ast.Nonlocal)):
                bad["D"].append(f"{owner}.debug_lookup line {n.lineno}: global/nonlocal")
    return bad, counts, listed_seen


def _guards_only_imbue(call, parents):
    """the call sits in the test of an `if` (as `<call> is None`, possibly one conjunct of an `and`) whose body consists only of imbue
    statements (`x = ProgramData.imbue(x, ...)` or the bare call) and that has no else branch"""
    p = parents.get(call)
    if not (isinstance(p, ast.Compare) and len(p.ops) == 1 and isinstance(p.ops[0], ast.Is) and isinstance(p.comparators[0], ast.Constant) and p.comparators[0].value is None):
        return False
    top = p
    while isinstance(parents.get(top), ast.BoolOp) and isinstance(parents[top].op, ast.And):
        top = parents[top]
    iff = parents.get(top)
    if not (isinstance(iff, ast.If) and iff.test is top and not iff.orelse):
        return False
    for st in iff.body:
        v = st.value if isinstance(st, (ast.Expr, ast.Assign)) else None
        if not (isinstance(v, ast.Call) and _dotted(v.func) in ("ProgramData.imbue", "cls.imbue")):
            return False
        if isinstance(st, ast.Assign):
            t = st.targets[0]
            if not (len(st.targets) == 1 and isinstance(t, ast.Name) and v.args and isinstance(v.args[0], ast.Name) and v.args[0].id == t.id):
                return False
    return True


_done = {}


def check(rep, prop):
    """adds the lemma's clauses to the report of `prop` (once per report); returns the text describing what remains assumed"""
    if id(rep) in _done:
        return _done[id(rep)]
    bad, counts, listed = analyse(common.repo_source())
    rep.fn("ProgramData.imbue", "ProgramData.lookup", "ProgramData._ensure_refmapped")
    names = {"W1": "writes-only-the-debug-registries", "W2": "imbue-returns-its-first-argument", "R1": "registries-read-only-by-debug-code",
             "R2": "lookup-results-used-only-by-diagnostics-or-imbue-guards", "D": "debug_lookup-methods-store-nothing", "dyn": "no-dynamic-access"}
    for k, nm in names.items():
        oid = f"{prop}/frame/debug-bookkeeping/{nm}"
        if bad[k]:
            rep.undecided_ob(oid, "premise of the proofs (debug bookkeeping has no semantic effect) no longer established: " + "; ".join(bad[k][:4]))
        else:
            rep.discharged_ob(oid, "ast-write-read-set", sample=f"{oid} ({counts['lookup_calls']} lookup call sites: {counts['diagnostic']} diagnostic, {counts['guard_only']} guard-only-imbue, "
                              f"{counts['modelled_tag']} modelled tags, {counts['listed']} listed semantic; {counts['debug_lookup_methods']} debug_lookup methods)")
    rest = ("debug bookkeeping (ProgramData.imbue/lookup): frame lemma discharged by write/read-set analysis of the real AST on this run; what remains assumed: the analysis is syntactic "
            "(names not rebound, no dynamic attribute access beyond the scanned forms), weak references and id() behave as documented"
            + (", and the listed semantic reads " + ", ".join(f"{q} ({t})" for q, t in sorted(listed)) + " are outside the lemma (run on the real code only)" if listed else ""))
    _done[id(rep)] = rest
    return rest
