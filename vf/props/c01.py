"""C01 - accepted programs behave as their procedural reading prescribes.

Contract on the whole compiler, `DfaCompileCtx.compile` + `CodegenCtx.generate_*`:
    post:  for every input w:  observe(generated parser, w)  is one of  allowed(reading(program text), w)
where reading() is the reference interpreter of vf/c01/refint.py (run on the Lark parse tree only) and observe() is what the API
user sees when the real generated C runs (vf/c01/crun.py).  The post-condition is evaluated exactly per (program, option set,
input); the quantifier over programs and inputs is bounded (all strings up to a length over the program's byte classes + inputs
guided by the reading) - a bounded stand-in, nothing of it is counted as proved.
Combinator-level run-time contracts on append_after / Optional / Loop conversion (clauses named C01-*) run on the same programs."""
import os, sys, time, multiprocessing, collections, subprocess
from ..common import Report, Finding, load_nmfu
from .. import common
from .. import gen, progs
from ..c01 import refint, compare, crun, gen01

EXTRA = ["-feof-support", "-fyield-support", "-findirect-start-ptr"]
FLAGSETS_QUICK = [["-O0"], ["-O3"]]
FLAGSETS_THOROUGH = [["-O0"], ["-O1"], ["-O2"], ["-O3"], ["-O3", "-fallocate-str-space-dynamic"], ["-O2", "-fstrings-as-u8"]]

KNOWN_BY_TAG = {
    # tag of the reading's run -> (finding id, mismatch kinds it explains)
    "do-action-after-provisional-end": ("F-01f", {"event-data", "final-data"}),
    "end-during-wait-in-foreach": ("F-01g", {"event-order"}),
    "case-provisional-match": ("F-01k", {"event-data", "final-data", "event-order"}),
    "condition-after-consumed-end": ("F-01p", {"rc", "event-order"}),
    "lookahead-after-consumed-end": ("F-01p", {"rc", "event-order"}),
    "do-actions-before-pending-actions": ("F-01s", {"event-data", "final-data"}),
}


def program_set(tier, seed):
    ps = []
    for p in progs.corpus(include_fail=True, big=False):      # programs the unchanged compiler refuses are kept: a change that accepts one is cross-checked
        if "// only: " in p["src"] and "// only: C01" not in p["src"]:
            continue                                            # programs that pin one property's finding (e.g. an end() that never returns)
        ps.append({"name": p["name"], "src": p["src"]})
    n1, n2 = (220, 80) if tier == "quick" else (2500, 600)
    for p in gen01.programs(n1, seed):
        ps.append({"name": p["name"], "src": p["src"]})
    for p in gen01.loop_programs(48 if tier == "quick" else 600, seed):
        ps.append({"name": p["name"], "src": p["src"]})
    for p in gen.generated_programs(n2, seed):
        ps.append({"name": p["name"], "src": p["src"]})
    for p in gen.pair_programs(thorough=(tier != "quick"))[: (300 if tier == "quick" else 100000)]:
        ps.append({"name": p["name"], "src": p["src"]})
    return ps


def _work(job):
    """one program: compile under each flag set, run all inputs, compare with the reading"""
    p, flagsets, budget, guided, seed, repo = job
    from ..csem import tv
    nmfu = load_nmfu()
    out = {"name": p["name"], "status": None, "checked": 0, "unsupported": collections.Counter(), "bad": [], "known": [], "runs": 0, "maxlen": 0, "secs": 0.0}
    t0 = time.time()
    try:
        prog = refint.Program(nmfu, p["src"])
    except refint.Unsupported as e:
        out["status"] = "reading-unsupported: " + str(e)[:60]
        return out
    except Exception as e:
        out["status"] = "not-parsed"
        return out
    try:
        inputs, L = compare.inputs_for(prog, budget, guided, seed)
    except refint.Unsupported as e:
        out["status"] = "reading-unsupported: " + str(e)[:60]
        return out
    out["maxlen"] = L
    # the reading is computed once per input
    reading = {}
    for fl in flagsets:
        try:
            c = tv.compile_program(nmfu, p["src"], list(fl) + EXTRA)
        except nmfu.NMFUError:
            out["status"] = "rejected"
            return out
        except tv.SourceSyntaxError:
            out["status"] = "not-parsed"
            return out
        except (tv.InternalCompilerError, TimeoutError, RecursionError) as e:
            out["status"] = "compiler-error (C18): " + str(e)[:60]
            return out
        r = crun.CRunner(c)
        try:
            if not r.ok:
                out["bad"].append({"flags": fl, "input": None, "kinds": ["cc"], "msg": "the generated C does not compile: " + r.err[-300:], "tags": []})
                continue
            try:
                obs = r.run(inputs)
            except subprocess.TimeoutExpired:
                # the parser does not come back from a call: termination is the subject of C04 (the reading cannot proceed either)
                out["status"] = "parser-does-not-return (C04)"
                return out
            except Exception as e:
                out["bad"].append({"flags": fl, "input": None, "kinds": ["crash"], "msg": f"running the generated parser: {type(e).__name__}: {e}", "tags": []})
                continue
        finally:
            r.close()
        for w, o in zip(inputs, obs):
            try:
                if w not in reading:
                    try:
                        reading[w] = refint.reference_runs(prog, w)
                    except refint.Unsupported as e:
                        reading[w] = e
                    except RecursionError:
                        reading[w] = refint.Unsupported("recursion depth of the reference")
                if isinstance(reading[w], Exception):
                    raise reading[w]
                res = compare.check_runs(reading[w], w, o)
            except refint.Unsupported as e:
                out["unsupported"][str(e)[:70]] += 1
                continue
            out["checked"] += 1
            out["runs"] += len(reading[w])
            if res is None:
                continue
            kinds, msg, tags, per_run = res
            rec = {"flags": fl, "input": w.hex(), "kinds": sorted(kinds), "msg": msg, "tags": sorted(tags)}
            kf = None
            for t in tags:
                if t.startswith("quirk:"):
                    kf = t[6:]
            # a mismatch is explained by a known finding when, for some resolution of the reading's latitude, the run went through the
            # situation the finding describes and differs from the parser in the way the finding explains
            for kind, tg in per_run:
                if kf:
                    break
                for t in tg:
                    if t in KNOWN_BY_TAG and kind in KNOWN_BY_TAG[t][1]:
                        kf = KNOWN_BY_TAG[t][0]
                if kf is None and "continued-after-provisional-end" in tg and kind in ("event-data", "final-data"):
                    kf = "F-01f"
                if kf is None and "continued-after-provisional-end" in tg and ({"out-of-space", "oos-by-action"} & tg):
                    # the early `delete` / assignment decides whether a later append still fits: the difference shows as another route
                    kf = "F-01f"
                if kf is None and {"do-action-after-provisional-end", "oos-by-action"} <= tg:
                    kf = "F-01f"
            if kf:
                rec["known"] = kf
                if len(out["known"]) < 5:
                    out["known"].append(rec)
                out.setdefault("nknown", 0)
                out["nknown"] += 1
            elif len(out["bad"]) < 6:
                out["bad"].append(rec)
            else:
                out.setdefault("more_bad", 0)
                out["more_bad"] += 1
    out["status"] = "checked"
    out["secs"] = time.time() - t0
    return out


def main():
    tier = common.tier()
    seed = common.seed()
    rep = Report("C01", "other")
    nmfu = load_nmfu()
    flagsets = FLAGSETS_QUICK if tier == "quick" else FLAGSETS_THOROUGH
    budget, guided = (700, 500) if tier == "quick" else (3000, 2500)
    ps = program_set(tier, seed)
    jobs = [(p, flagsets, budget, guided, seed, None) for p in ps]
    ctx = multiprocessing.get_context("fork")
    stat = collections.Counter()
    uns = collections.Counter()
    t0 = time.time()
    with ctx.Pool(min(16, os.cpu_count() or 4)) as pool:
        results = pool.map(_work, jobs, chunksize=4)
    src_of = {p["name"]: p["src"] for p in ps}
    ninputs = 0
    nruns = 0
    for o in results:
        st = o["status"].split(":")[0]
        stat[st] += 1
        if o["status"] != "checked" and not o["bad"]:
            continue
        ninputs += o["checked"]
        nruns += o["runs"]
        for k, v in o["unsupported"].items():
            uns[k] += v
        for k in o["known"][:1]:
            rep.bounded_violation(Finding("C01", f"C01/reading/{o['name']}", f"{o['name']}|{k['known']}|{'+'.join(k['kinds'])}",
                                          f"{o['name']} [{' '.join(k['flags'])}] input {k['input']}: {k['msg'][:300]}",
                                          replay={"source": src_of[o["name"]], "flags": k["flags"], "input": k["input"]}, replayed=True))
        for b in o["bad"]:
            rep.bounded_violation(Finding("C01", f"C01/reading/{o['name']}", f"{o['name']}|{' '.join(b['flags'])}|{b['input']}|{'+'.join(b['kinds'])}",
                                          f"{o['name']} [{' '.join(b['flags'])}] input {b['input']}: {b['msg'][:500]}" + (f" (reading tagged {b['tags']})" if b["tags"] else ""),
                                          replay={"source": src_of[o["name"]], "flags": b["flags"], "input": b["input"]}, replayed=True))
    rep.bounded_count("inputs compared with the reading (program x option set x input)", ninputs)
    rep.bounded_count("resolutions of the reading's latitude explored", nruns)
    rep.programs = stat["checked"]
    rep.coverage.update({"program_outcomes": dict(stat), "inputs_not_decided_by_the_reading": dict(uns), "option_sets": flagsets,
                         "input_bound": "all strings over the program's byte classes up to a per-program length (total <= %d) + %d inputs guided by the reading (length <= 24)" % (budget, guided)})
    # combinator-level run-time contracts (clauses named C01-*) on corpus + generated programs + all statement pairs
    from . import _rtcprops as R
    sel = lambda c: "C01" in c or c.endswith("/frame") or c in ("DFA.append_after", "OptionalNode.convert", "LoopNode.convert")
    R.run_contracts("C01", sel, ["DFA.append_after", "OptionalNode.convert", "LoopNode.convert"], ["dfa"], "join", "", [], rep=rep)
    # proved part (pyvc on the real AST, all action lists / literals): where the front end puts an action - Match.attach, adoption by
    # ActionNode/ActionSinkNode.set_next, the two-step machine of InterruptableActionNode, the literal and `end` builders
    from . import c01_proofs
    c01_proofs.run(rep, "C01")
    rep.fn("DfaCompileCtx.compile", "CodegenCtx.generate_source", "ParseCtx._parse_stmt", "ParseCtx._parse_stmt_seq", "MatchNode.convert", "CaseNode.convert",
           "OptionalNode.convert", "LoopNode.convert", "TryExceptNode.convert", "ForeachNode.convert", "IfElseNode.convert", "InterruptableActionNode.convert",
           "DFA.append_after", "DFA.chain_actions_into", "DFA.chain_actions_at_end", "WaitMatch.convert")
    rep.assume("the reference interpreter (vf/c01/refint.py) is the procedural reading: statement order, longest continuation of a match, first-byte decisions for optional/case, "
               "handlers at the offending byte; its latitude (pending actions at a mismatch, timing of an action between two bytes) is the one the statement grants",
               "arithmetic outside small non-negative values, $last where the documentation leaves it undefined, macros, bytes after a complete program: not decided here (counted)",
               "gcc -O1 executes the generated C as ISO C prescribes (undefined behaviour of the generated code is the subject of C03)")
    rep.trust("gcc", "Lark parse tree of the source", "vf/rtc/regex_contract.py derivative semantics of patterns")
    return rep.finish("Bounded cross-check of the compiler's post-condition: the real generated C parser, run on every enumerated input, behaves as the reference interpreter "
                      "of the statement language allows. Exact per input; bounded over programs, option sets and inputs. "
                      "Counted as proved (obligations/discharged) are only the front-end contracts discharged by pyvc from the real AST for all action lists and literals: Match.attach (an action goes to exactly one of "
                      "start/char/finish, program order kept), adoption by ActionNode.set_next / ActionSinkNode.set_next (own ++ adopted, successor taken over: nothing lost, duplicated or reordered), "
                      "InterruptableActionNode.convert (the yield alone on the first non-consuming step, the following actions on the second), DirectMatch / CaseDirectMatch / EndMatch.convert (chain shape, "
                      "start actions on the first byte and on its mismatch transition, per-character actions on every byte, finish actions on the last). The sequencing combinators (append_after, composite converts) are not reached by the verifier.",
                      checker_cmd="./check C01", require_obligations=False)


def replay(path):
    import json
    d = json.load(open(path))
    inp = d["input"]
    nmfu = load_nmfu()
    from ..csem import tv
    prog = refint.Program(nmfu, inp["source"])
    c = tv.compile_program(nmfu, inp["source"], list(inp["flags"]) + EXTRA)
    r = crun.CRunner(c)
    try:
        w = bytes.fromhex(inp["input"])
        o = r.run([w])[0]
    finally:
        r.close()
    print("input:", w)
    print("parser calls:", o["calls"])
    print("parser events:", o["events"])
    print("parser final:", o["final"])
    for t, e, tg in refint.reference_runs(prog, w):
        print("reading:", t, e, sorted(tg))
    res = compare.check_runs(refint.reference_runs(prog, w), w, o)
    print("verdict:", "allowed" if res is None else res)
    return 0 if res is None else 1
