"""C12 - representation options never change what is parsed.

 1. Frame lemma (proved, syntactic read-set analysis of the real AST): no function outside CodegenCtx reads a representation
    flag/option, hence the front and middle end build the same state machine whatever the representation options are.
 2. The same is observed exactly per program: the compiled DFAs under all representation option sets are structurally identical (bounded).
 3. Refinement per option set (csem): under each representation option set the emitted C is proved to execute that one machine on an
    abstraction of the struct that does not depend on the representation (string value = bytes + length wherever they live; hook = name + argument).
 1+3 give identical result codes, outputs, lengths and hook sequences for all inputs."""
import ast, hashlib, json
from .. import common, progs, gen
from ..common import Finding
from . import _tvcommon as T

REPR_FLAGS = ["ALLOCATE_STR_SPACE_IN_STRUCT", "ALLOCATE_STR_SPACE_DYNAMIC", "ALLOCATE_STR_SPACE_DYNAMIC_ON_DEMAND", "DELETE_STRING_FREE_MEMORY", "STRINGS_AS_U8",
              "HOOK_GLOBAL", "HOOK_PER_STATE", "INCLUDE_USER_PTR", "USE_PACKED_ENUMS", "USE_PRAGMA_ONCE", "USE_CPLUSPLUS_GUARD", "INDIRECT_START_PTR",
              "ZERO_LEN_INPUT_SUPPORT", "DYNAMIC_MEMORY", "COLLAPSE_TRANSITION_RANGES", "UNSAFE_STRING_INDEXING"]
REPR_OPTIONS = ["COLLAPSED_RANGE_LENGTH"]

OPTSETS = {
    "base": ["-O1"],
    "dyn-u8-indirect": ["-O1", "-fallocate-str-space-dynamic", "-fstrings-as-u8", "-findirect-start-ptr"],
    "ondemand-free": ["-O1", "-fallocate-str-space-dynamic-on-demand", "-fdelete-string-free-memory"],
    "ondemand-hookstate-userptr": ["-O1", "-fallocate-str-space-dynamic-on-demand", "-fhook-per-state", "-finclude-user-ptr", "-fuse-packed-enums"],
    "pragma-nocpp-zerolen": ["-O1", "-fuse-pragma-once", "-fno-use-cplusplus-guard", "-fzero-len-input-support"],
    "collapse1": ["-O1", "-fcollapse-transition-ranges", "--collapsed-range-length", "1"],
    "collapse4-indirect-zerolen": ["-O1", "-fcollapse-transition-ranges", "-findirect-start-ptr", "-fzero-len-input-support"],
    "collapse9-u8-hookstate": ["-O1", "-fcollapse-transition-ranges", "--collapsed-range-length", "9", "-fstrings-as-u8", "-fhook-per-state"],
    # representation options next to the optimiser: at -O3 yields sit on consuming transitions, so how feed is entered (zero-length chunks) matters
    "O3-strict": ["-O3", "-fstrict-done-token-generation"],
    "O3-strict-zerolen-indirect": ["-O3", "-fstrict-done-token-generation", "-fzero-len-input-support", "-findirect-start-ptr"],
}


def frame_lemma(rep):
    src = common.repo_source()
    tree = ast.parse(src)
    allowed_classes = {"CodegenCtx", "ProgramData", "ProgramFlag", "ProgramOption", "Outputter"}
    bad = []
    nfun = 0

    def scan(node, owner):
        nonlocal nfun
        for ch in ast.iter_child_nodes(node):
            if isinstance(ch, ast.ClassDef):
                scan(ch, ch.name if owner is None else owner)
            elif isinstance(ch, (ast.FunctionDef,)):
                own = owner
                nfun += 1
                if own in allowed_classes or ch.name.startswith("debug_dump") or ch.name == "main":
                    continue
                for n in ast.walk(ch):
                    if isinstance(n, ast.Attribute) and isinstance(n.value, ast.Name) and n.value.id in ("ProgramFlag", "ProgramOption"):
                        if n.attr in REPR_FLAGS or n.attr in REPR_OPTIONS:
                            bad.append((own, ch.name, n.attr, n.lineno))
                    # dynamic access would defeat the syntactic argument
                    if isinstance(n, ast.Subscript) and isinstance(n.value, ast.Name) and n.value.id in ("ProgramFlag", "ProgramOption"):
                        bad.append((own, ch.name, "<dynamic ProgramFlag[...] lookup>", n.lineno))
                    if isinstance(n, ast.Attribute) and n.attr in ("_flags", "_options") and own not in allowed_classes:
                        bad.append((own, ch.name, "<direct access to ProgramData._flags/_options>", n.lineno))
            else:
                scan(ch, owner)
    scan(tree, None)
    oid = "C12/frame/front-and-middle-end-do-not-read-representation-options"
    if bad:
        for (own, fn, attr, line) in bad[:10]:
            rep.failed_ob(Finding("C12", oid, f"frame|{own}.{fn}|{attr}", f"{own}.{fn} (line {line}) reads representation option {attr}: the compiled machine may depend on a representation choice",
                                  replay={"function": f"{own}.{fn}", "option": attr, "line": line}, replayed=True))
    else:
        rep.discharged_ob(oid, "ast-read-set", sample=f"{nfun} functions scanned; representation flags {REPR_FLAGS} and options {REPR_OPTIONS} are mentioned only inside CodegenCtx/ProgramData")


def expr_sig(nmfu, e):
    if e is None:
        return None
    if isinstance(e, nmfu.LiteralIntegerExpr):
        return ("lit", str(e.value), e.typ.name)
    if isinstance(e, nmfu.OutIntegerExpr):
        return ("out", e.ref.name)
    if isinstance(e, nmfu.StringLengthIntegerExpr):
        return ("len", e.ref.name)
    if isinstance(e, nmfu.StringRefIntegerExpr):
        return ("idx", e.ref.name, expr_sig(nmfu, e.index))
    if isinstance(e, nmfu.LastCharIntegerExpr):
        return ("last",)
    extra = ()
    for attr in ("negate", "divide", "op", "towards_left"):
        if hasattr(e, attr):
            v = getattr(e, attr)
            extra += (attr, str(v))
    return (type(e).__name__, extra, tuple(expr_sig(nmfu, c) for c in e.children))


def action_sig(nmfu, a, idx):
    t = type(a).__name__
    if isinstance(a, nmfu.ConditionalAction):
        return (t, tuple((cond_sig(nmfu, c), tuple(action_sig(nmfu, x, idx) for x in a.sub_actions[c])) for c in a.conditions))
    if isinstance(a, nmfu.SetTo):
        return (t, a.into_storage.name, expr_sig(nmfu, a.value_expr))
    if isinstance(a, nmfu.SetToStr):
        return (t, a.into_storage.name, repr(a.value_expr))
    if isinstance(a, (nmfu.AppendTo,)):
        return (t, a.into_storage.name, idx.get(id(a.end_target)))
    if isinstance(a, nmfu.AppendCharTo):
        return (t, a.into_storage.name, idx.get(id(a.end_target)), expr_sig(nmfu, a.append_value))
    if isinstance(a, nmfu.DeleteBuf):
        return (t, a.into_storage.name)
    if isinstance(a, nmfu.CallHook):
        return (t, a.name)
    if isinstance(a, (nmfu.CustomFinishAction, nmfu.CustomYieldAction)):
        return (t, a.result_code)
    if isinstance(a, nmfu.BreakAction):
        return (t, idx.get(id(a.refers_to.end_state)), tuple(action_sig(nmfu, x, idx) for x in a.replacement_actions()))
    return (t,)


def cond_sig(nmfu, c):
    if isinstance(c, nmfu.IntegerCondition):
        return ("int", expr_sig(nmfu, c.expr))
    return (type(c).__name__, getattr(c, "value", None))


def dfa_signature(nmfu, cctx):
    """signature of the compiled machine up to renaming of states and reordering of disjoint transitions (canonical BFS numbering)"""
    d = cctx.dfa

    def tkey(t):
        if hasattr(t, "condition"):
            return (1, "")
        return (0, min((("c%03d" % ord(v)) if isinstance(v, str) else "~" + repr(v)) for v in t.on_values) if t.on_values else "~~")

    def ordered(s):
        if isinstance(s, nmfu.DFConditionPoint):
            return list(s.transitions)
        return sorted(s.transitions, key=tkey)

    def action_targets(a):
        out = []
        if isinstance(a, nmfu.ConditionalAction):
            for c in a.conditions:
                for x in a.sub_actions[c]:
                    out += action_targets(x)
        elif isinstance(a, (nmfu.AppendTo, nmfu.AppendCharTo)):
            out.append(a.end_target)
        elif isinstance(a, nmfu.BreakAction):
            for x in a.replacement_actions():
                out += action_targets(x)
            out.append(a.refers_to.end_state)
        return out
    idx = {}
    order = []
    queue = [d.starting_state]
    for a in cctx.start_actions:
        queue += action_targets(a)
    while queue:
        s = queue.pop(0)
        if s is None or id(s) in idx:
            continue
        idx[id(s)] = len(order)
        order.append(s)
        for t in ordered(s):
            queue.append(t.target)
            for a in t.actions:
                queue += action_targets(a)
    out = []
    for s in order:
        ts = []
        for t in ordered(s):
            ov = tuple(sorted(("c%03d" % ord(v)) if isinstance(v, str) else repr(v) for v in t.on_values))
            ts.append((ov, idx.get(id(t.target)), t.is_fallthrough, t.error_handling, tuple(action_sig(nmfu, a, idx) for a in t.actions),
                       cond_sig(nmfu, t.condition) if hasattr(t, "condition") else None))
        out.append((type(s).__name__, s in d.accepting_states, s is cctx.generic_fail_state, tuple(ts)))
    sig = (tuple(out), tuple(action_sig(nmfu, a, idx) for a in cctx.start_actions))
    return hashlib.sha1(repr(sig).encode()).hexdigest(), len(order)


def post(Tt, rec):
    h, n = dfa_signature(Tt.nmfu, Tt.c.cctx)
    rec["extra"] = [("dfasig", h, n)]


def main():
    thorough = common.tier() == "thorough"
    ps = progs.corpus(big=True) + gen.generated_programs(300 if thorough else 60, common.seed())
    text = ("Frame lemma by read-set analysis of the real AST (proved for all programs): representation options are read only inside CodegenCtx. Per program: compiled DFAs identical across "
            f"{len(OPTSETS)} representation option sets (bounded-exact), and under each of them the emitted C is proved (csem+z3) to execute that machine on a representation-independent abstraction.")
    rep, recs = T.run("C12", {"refine", "endfx", "consume", "chunk", "coherence"}, "translation_validation", text, optsets=OPTSETS, programs=ps, post=post,
                      fns=["CodegenCtx (all template branches on storage / hook / start-pointer mode)", "ParseCtx.* / DfaCompileCtx.* (frame)"])
    frame_lemma(rep)
    by_prog = {}
    for r in recs:
        for item in r.get("extra") or []:
            if item[0] == "dfasig":
                by_prog.setdefault(r["prog"], {})[r["opt"]] = (item[1], item[2])
    nsame = 0
    # identity is required among option sets that differ in representation options only: grouped by the non-representation part
    # (optimisation level, strict done tokens) of the option set
    group_of = {name: tuple(x for x in fl if x.startswith("-O") or x == "-fstrict-done-token-generation") for name, fl in OPTSETS.items()}
    split = {}
    for p, d in by_prog.items():
        for opt, v in d.items():
            split.setdefault((p, group_of.get(opt, ())), {})[opt] = v
    for (p, grp), d in split.items():
        sigs = set(v[0] for v in d.values())
        if len(sigs) > 1:
            rep.bounded_violation(Finding("C12", f"C12/dfa-identity/{p}", f"dfa-identity|{p}", f"{p}: the compiled state machine differs between representation option sets {sorted(d)}: {d}",
                                  replay={"program": p, "signatures": d}, replayed=True))
        else:
            nsame += 1
    rep.bounded_count("compiled DFA identical across representation option sets (programs)", nsame)
    # the byte-test emitter (range collapsing is governed by a representation option): its text denotes exactly the transition's symbols for ALL symbol lists,
    # thresholds and flag values (loop invariants + z3 on the real AST, vf/props/cond_proofs.py)
    from . import cond_proofs
    cond_proofs.run(rep, "C12")
    text += (" Proved for all symbol lists, collapse thresholds and flag values (pyarr: VCs from the real AST with loop invariants, z3): the condition text emitted by "
             "_generate_condition_for_transition denotes exactly the transition's byte symbols, with or without range collapsing; the leaf templates (_generate_equal_check, _generate_range_check) by exhaustion.")
    return rep.finish(text, checker_cmd="./check C12")


def replay(path):
    from ._tvprops import replay_for
    return replay_for("C12", path)
