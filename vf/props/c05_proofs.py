"""C05, proved part for the else-simplification pass: `_optimize_simplify_transition_matches` executed from the real AST (pyvc) on a
machine with ONE arbitrary transition (symbols: an arbitrary segment, so its length and whether it lists Else are symbolic).  The
loop touches nothing but the symbol list of the transition at hand, so one arbitrary transition covers every iteration.
Per-transition contract: the symbol list becomes `[Else]` exactly when it lists Else among other symbols, otherwise it is left
alone; target, actions, kind and every other object are untouched; with the flag off nothing is changed.
L-simplify (vf/lemmas/Simplify.lean, Lean 4) lifts that to: under RI1 (no symbol on two transitions) every symbol selects the
same transition as before - the pass cannot change behaviour.  RI1 itself is a run-time contract (C09, bounded)."""
import z3
from ..common import Finding
from ..pyvc.sym import *
from ..pyvc.driver import Program, explore, call_function
from ..pyvc.interp import SObj, HList, HDict, Seg, Engine
from .leaf_proofs import Clauses, _items, _same, DEBUG_CONTRACTS

FNQ = "DfaCompileCtx._optimize_simplify_transition_matches"


def prove(rep, nmfu, program, prop="C05"):
    rep.fn(FNQ)
    Else = nmfu.DFTransition.Else
    FL = {f: z3.Bool("flag_" + f.name) for f in nmfu.ProgramFlag}
    n = 0
    old_ms = getattr(Engine, "mutable_sets", False)
    Engine.mutable_sets = True
    try:
        def body(eng):
            eng.class_store.setdefault(nmfu.ProgramData, {})["_flags"] = HDict(dict(FL))
            ON, A = Seg("symbols"), Seg("actions")
            tgt = SObj(nmfu.DFState, {"transitions": HList([])})
            tr = SObj(nmfu.DFTransition, {"on_values": HList([ON]), "target": tgt, "is_fallthrough": z3.Bool("ft0"), "error_handling": z3.Bool("eh0"), "actions": HList([A])})
            q = SObj(nmfu.DFState, {"transitions": HList([tr])})
            dfa = SObj(nmfu.DFA, {"states": HList([q, tgt]), "starting_state": q, "accepting_states": HList([tgt])})
            me = SObj(nmfu.DfaCompileCtx, {"dfa": dfa})
            v, _ = call_function(eng, FNQ, [], self_obj=me)
            return dict(ON=ON, A=A, tr=tr, q=q, tgt=tgt, dfa=dfa, ret=v), {}
        cs = dict(DEBUG_CONTRACTS)
        cs["dprint.__call__"] = lambda eng, a, kw: None        # debug printing
        for ri, r in enumerate(explore(program, body, contracts=cs, fork_functions="*")):
            cl = Clauses(rep, prop, FNQ, str(ri), r.pc, None)
            if r.exits or r.dead is not False or r.value is None:
                cl.fail("no-exception", f"raises {[e.exc_cls.__name__ for e in r.exits]}")
                n += cl.n
                continue
            b = r.value
            on = _items(b["tr"].fields["on_values"])
            flag_on = FL[nmfu.ProgramFlag.SIMPLIFY_ELSE_CONDITIONS]
            members = [v for c in r.pc for v in _bools(c) if str(v).startswith("seg_member")]
            lenv = b["ON"].length
            listed = members[0] if members else None
            rewritten = len(on) == 1 and on[0] is Else
            untouched = _same(on, [b["ON"]])
            cl.structural("symbols.either-rewritten-or-untouched", rewritten or untouched, f"symbol list became {on!r}")
            if rewritten:
                goal = z3.And(flag_on, lenv > 1, listed) if listed is not None else z3.BoolVal(False)
                cl.smt("symbols.rewritten-only-if-else-among-others", goal, "the symbol list was replaced by [Else] although the flag is off, or it does not list Else, or lists nothing else")
            elif untouched:
                goal = z3.Not(z3.And(flag_on, lenv > 1, listed)) if listed is not None else z3.Or(z3.Not(flag_on), lenv <= 1)
                cl.smt("symbols.untouched-only-if-nothing-to-simplify", goal, "a symbol list that lists Else among other symbols was left alone with the flag on")
            cl.structural("frame", b["tr"].fields["target"] is b["tgt"] and _same(b["tr"].fields["actions"], [b["A"]]) and _same(b["q"].fields["transitions"], [b["tr"]])
                          and _same(b["dfa"].fields["states"], [b["q"], b["tgt"]]) and _same(b["dfa"].fields["accepting_states"], [b["tgt"]])
                          and str(b["tr"].fields["is_fallthrough"]) == "ft0" and str(b["tr"].fields["error_handling"]) == "eh0",
                          "something other than the symbol list was modified")
            n += cl.n
    finally:
        Engine.mutable_sets = old_ms
    from .. import lemmas
    n += lemmas.check(rep, prop, "Simplify.lean", ["lookup_simplify"])
    return n


def _bools(e):
    out = []
    todo = [e]
    while todo:
        x = todo.pop()
        if z3.is_const(x) and z3.is_bool(x) and x.decl().kind() == z3.Z3_OP_UNINTERPRETED:
            out.append(x)
        todo.extend(x.children())
    return out


def run(rep, prop="C05"):
    from .. import common
    nmfu = common.load_nmfu()
    n = 0
    program = Program(nmfu, common.repo_source())
    for fn, tag in ((prove, FNQ), (prove_dfs, "DFA.dfs"), (prove_override_merge, "ConditionalAction.get_target_override_mode")):
        try:
            n += fn(rep, nmfu, program, prop)
        except (Unsupported, NeedFork, KeyError, AttributeError) as e:
            rep.unavailable(f"{prop}/pyvc/{tag}/engine", f"outside the modelled Python subset: {type(e).__name__}: {e}")
    return n


# ------------------------------------------------------------------------------------------------ reachability (remove-inaccessible)

def prove_dfs(rep, nmfu, program, prop="C05"):
    """DFA.dfs is what _optimize_remove_inaccessible keeps: it must yield every state that control can enter.  Per-transition contract,
    from the real AST: a start state with one transition (target T) carrying one or two actions whose override mode / override targets
    are given by contract (every mode, every ordered pair of modes).  Required (soundness of the removal): the yielded states include
      T                unless an action before it always leaves (ALWAYS_GOTO_OTHER / ALWAYS_GOTO_UNDEFINED);
      the override targets of every action that may or always jumps and is reached (no always-leaving action before it).
    And _optimize_remove_inaccessible removes exactly the states dfs (and the start actions' targets) do not reach, keeping the order."""
    fnq = "DFA.dfs"
    rep.fn(fnq, "DfaCompileCtx._optimize_remove_inaccessible")
    M = nmfu.ActionOverrideMode
    modes = list(M)
    agg = {}

    def record(clause, ok, what, detail):
        a = agg.setdefault(clause, {"n": 0, "bad": None})
        a["n"] += 1
        if not ok and a["bad"] is None:
            a["bad"] = (what, detail)
    old_ms = getattr(Engine, "mutable_sets", False)
    Engine.mutable_sets = True
    try:
        import itertools
        for combo in [(m,) for m in modes] + list(itertools.product(modes, repeat=2)):
            def body(eng, combo=combo):
                T = SObj(nmfu.DFState, {"transitions": HList([])})
                acts, outs = [], []
                for i, m in enumerate(combo):
                    O = SObj(nmfu.DFState, {"transitions": HList([])})
                    acts.append(SObj(nmfu.CallHook, {"name": f"a{i}", "__mode": m, "__targets": HList([O])}))
                    outs.append(O)
                tr = SObj(nmfu.DFTransition, {"on_values": HList(["x"]), "target": T, "is_fallthrough": False, "error_handling": False, "actions": HList(acts)})
                q = SObj(nmfu.DFState, {"transitions": HList([tr])})
                dfa = SObj(nmfu.DFA, {"states": HList([q, T] + outs), "starting_state": q, "accepting_states": HList([])})
                v, _ = call_function(eng, fnq, [], self_obj=dfa)
                return dict(res=eng.iterate(v), q=q, T=T, outs=outs), {}
            cs = dict(DEBUG_CONTRACTS)
            cs["Action.get_target_override_mode"] = lambda eng, a, kw: a[0].fields["__mode"]
            cs["Action.get_target_override_targets"] = lambda eng, a, kw: a[0].fields["__targets"]
            for r in explore(program, body, contracts=cs):
                detail = {"modes": [m.name for m in combo]}
                if r.exits or r.dead is not False or r.value is None:
                    record("no-exception", False, f"raises {[e.exc_cls.__name__ for e in r.exits]}", detail)
                    continue
                record("no-exception", True, "", detail)
                b = r.value
                got = set(id(x) for x in b["res"])
                need = {id(b["q"])}
                left = False
                for m, O in zip(combo, b["outs"]):
                    if left:
                        break
                    if m in (M.MAY_GOTO_TARGET, M.ALWAYS_GOTO_OTHER):
                        need.add(id(O))
                    if m in (M.ALWAYS_GOTO_OTHER, M.ALWAYS_GOTO_UNDEFINED):
                        left = True
                if not left:
                    need.add(id(b["T"]))
                record("yields-every-state-control-can-enter", need <= got, f"dfs misses {len(need - got)} state(s) that the transition can lead to", detail)
        # remove-inaccessible: exactly the unreached states go, order kept, nothing with the flag off
        FLAG = z3.Bool("flag_REMOVE")

        def body2(eng):
            # five states: 0 = start, 2 reachable from it; 3 = jump target of a start action (referenced from start() only), 1 reachable only
            # from 3; 4 reachable from nowhere.  DFA.dfs by contract: every state reachable from the start state and from the extra roots
            # it is given (reachability among the model's states is the field __succ).
            st = [SObj(nmfu.DFState, {"transitions": HList([])}) for _ in range(5)]
            succ = {id(st[0]): [st[2]], id(st[3]): [st[1]]}
            dfa = SObj(nmfu.DFA, {"states": HList(list(st)), "starting_state": st[0], "accepting_states": HList([]), "__succ": succ})
            O = st[3]
            sa = SObj(nmfu.CallHook, {"name": "s", "__mode": M.MAY_GOTO_TARGET, "__targets": HList([O])})
            me = SObj(nmfu.DfaCompileCtx, {"dfa": dfa, "start_actions": HList([sa])})
            fl = {f: (FLAG if f is nmfu.ProgramFlag.REMOVE_INACCESIBLE_STATES else z3.Bool("flag_" + f.name)) for f in nmfu.ProgramFlag}
            eng.class_store.setdefault(nmfu.ProgramData, {})["_flags"] = HDict(fl)
            v, _ = call_function(eng, "DfaCompileCtx._optimize_remove_inaccessible", [], self_obj=me)
            return dict(st=st, dfa=dfa, ret=v), {}

        def dfs_contract(eng, a, kw):
            d = a[0]
            roots = [d.fields["starting_state"]]
            for extra in list(a[1:]) + list(kw.values()):
                roots += list(eng.iterate(extra))
            seen, out = set(), []
            while roots:
                q = roots.pop(0)
                if id(q) in seen:
                    continue
                seen.add(id(q))
                out.append(q)
                roots += d.fields["__succ"].get(id(q), [])
            return HList(out)
        cs = dict(DEBUG_CONTRACTS)
        cs["DFA.dfs"] = dfs_contract
        cs["Action.get_target_override_targets"] = lambda eng, a, kw: a[0].fields["__targets"]
        cs["Action.all_subactions"] = lambda eng, a, kw: HList([a[0]])
        cs["dprint.__call__"] = lambda eng, a, kw: None
        for r in explore(program, body2, contracts=cs, fork_functions="*"):
            if r.exits or r.dead is not False or r.value is None:
                record("remove.no-exception", False, f"raises {[e.exc_cls.__name__ for e in r.exits]}", {})
                continue
            b = r.value
            now = _items(b["dfa"].fields["states"])
            on = not feasible(r.pc + [z3.Not(FLAG)])
            want = [b["st"][k] for k in (0, 1, 2, 3)] if on else list(b["st"])
            record("remove.exactly-the-unreached", _same(now, want), f"states after the pass: {[b['st'].index(x) for x in now]} kept, expected {[b['st'].index(x) for x in want]} (flag {'on' if on else 'off'}); "
                   "state 3 is the jump target of a start action, state 1 is reachable only from it, state 4 from nowhere", {"flag": on})
    finally:
        Engine.mutable_sets = old_ms
    n = 0
    for clause, a in sorted(agg.items()):
        oid = f"{prop}/pyvc/{fnq}/{clause}"
        n += 1
        if a["bad"] is None:
            rep.discharged_ob(oid, "pyvc-paths", 0.0, sample=f"{oid} ({a['n']} cases)")
        else:
            what, detail = a["bad"]
            rep.failed_ob(Finding(prop, oid, f"{fnq}|{clause}", f"{fnq}: {what} [{detail}]", replay={"clause": clause, **{k: str(v) for k, v in detail.items()}}, replayed=False))
    return n


# ------------------------------------------------------------------------------------------------ what DFA.dfs is told about a conditional

def _loop_carried(loop):
    """names a for-loop body carries from one iteration to the next (read before the iteration has assigned them), and whether the body
    stores anywhere else (attributes, subscripts): the structural premise of the fold induction below"""
    import ast
    defined, carried, other_stores = {loop.target.id} if isinstance(loop.target, ast.Name) else set(), set(), False
    stored = {n.id for st in loop.body for n in ast.walk(st) if isinstance(n, ast.Name) and isinstance(n.ctx, ast.Store)}
    for st in loop.body:
        for n in ast.walk(st):
            if isinstance(n, (ast.Attribute, ast.Subscript)) and isinstance(n.ctx, ast.Store):
                other_stores = True
        loads = {n.id for n in ast.walk(st) if isinstance(n, ast.Name) and isinstance(n.ctx, ast.Load)}
        if isinstance(st, ast.AugAssign) and isinstance(st.target, ast.Name):
            loads.add(st.target.id)
        carried |= (loads & stored) - defined
        if isinstance(st, ast.Assign) and len(st.targets) == 1 and isinstance(st.targets[0], ast.Name):
            defined.add(st.targets[0].id)
    return carried, other_stores


def prove_override_merge(rep, nmfu, program, prop="C05"):
    """ConditionalAction.get_target_override_mode / get_target_override_targets: what the reachability pass (DFA.dfs, proved above against
    the modes and targets *reported* by actions) is told about an action-only conditional.  Required of the merged mode, for ALL lists of
    sub-actions:   NONE iff every sub-action reports NONE;  otherwise a mode for which dfs follows the override targets (MAY_GOTO_TARGET)
    iff some sub-action may or always jumps to a target;  otherwise MAY_GOTO_UNDEFINED;  never an ALWAYS_* mode (no branch need be taken).
    Induction on the list: the function is a fold whose loop carries one variable (checked on the AST); the real function run on
    [], on [a] and on [a_m, a_x] for every reachable merged value m and every mode x gives base, injection and step.
    The merged targets contain the targets of every sub-action (representative shapes: one and two conditions, shared targets)."""
    import ast, itertools
    fnq = "ConditionalAction.get_target_override_mode"
    rep.fn(fnq, "ConditionalAction.get_target_override_targets")
    M = nmfu.ActionOverrideMode
    T_CLASS = (M.MAY_GOTO_TARGET, M.ALWAYS_GOTO_OTHER)

    def spec(ms):
        if all(m is M.NONE for m in ms):
            return M.NONE
        return M.MAY_GOTO_TARGET if any(m in T_CLASS for m in ms) else M.MAY_GOTO_UNDEFINED
    n = 0
    cl = Clauses(rep, prop, fnq, "fold", [], None)
    node = program.proto.funcs[fnq]
    loops = [x for x in ast.walk(node) if isinstance(x, (ast.For, ast.While))]
    comps = [x for x in ast.walk(node) if isinstance(x, (ast.ListComp, ast.SetComp, ast.GeneratorExp, ast.DictComp))]
    if len(loops) == 1 and isinstance(loops[0], ast.For) and not comps:
        carried, other = _loop_carried(loops[0])
        cl.structural("loop-carries-one-variable", len(carried) <= 1 and not other, f"the loop carries {sorted(carried)} / stores elsewhere: {other}; the fold induction needs a single carried variable")
        inductive = len(carried) <= 1 and not other
    else:
        inductive = False
        rep.unavailable(f"{prop}/pyvc/{fnq}/fold-shape", "not a single for-loop: only lists of up to three sub-actions are covered (exhaustively)")
    n += cl.n

    def run_on(shape):
        """shape: list of lists of modes, one inner list per condition"""
        def body(eng):
            d = {}
            for ci, ms in enumerate(shape):
                d[SObj(nmfu.IntegerCondition, {"name": f"c{ci}"})] = HList([SObj(nmfu.CallHook, {"name": f"a{ci}_{i}", "__mode": m}) for i, m in enumerate(ms)])
            me = SObj(nmfu.ConditionalAction, {"sub_actions": HDict(d)})
            v, _ = call_function(eng, fnq, [], self_obj=me)
            return v, {}
        cs = dict(DEBUG_CONTRACTS)
        cs["Action.get_target_override_mode"] = lambda eng, a, kw: a[0].fields["__mode"]
        rs = list(explore(program, body, contracts=cs))
        if len(rs) != 1 or rs[0].exits or rs[0].dead is not False:
            return None
        return rs[0].value
    reach = [M.NONE, M.MAY_GOTO_TARGET, M.MAY_GOTO_UNDEFINED]
    shapes = [("base", [[]], [])]
    for x in M:
        shapes.append((f"single.{x.name}", [[x]], [x]))
    for m in reach:
        for x in M:
            shapes.append((f"step.{m.name}.{x.name}", [[m, x]], [m, x]))
            shapes.append((f"step-across-conditions.{m.name}.{x.name}", [[m], [x]], [m, x]))
    if not inductive:
        for ms in itertools.product(list(M), repeat=3):
            shapes.append(("three." + ".".join(m.name for m in ms), [list(ms)], list(ms)))
    for tag, shape, flat in shapes:
        c2 = Clauses(rep, prop, fnq, tag, [], None)
        got = run_on(shape)
        want = spec(flat)
        c2.structural("merged-mode", got is want, f"sub-actions reporting {[m.name for m in flat]}: merged mode {getattr(got, 'name', got)}, but the reachability pass needs {want.name}"
                      + (" (it follows override targets only for MAY_GOTO_TARGET / ALWAYS_GOTO_OTHER)" if want is M.MAY_GOTO_TARGET else ""))
        n += c2.n
    # targets
    fnt = "ConditionalAction.get_target_override_targets"
    O = [SObj(nmfu.DFState, {"transitions": HList([])}) for _ in range(3)]
    for tag, shape in (("one-condition", [[[0, 1], [1, 2]]]), ("two-conditions", [[[0]], [[1, 2], []]]), ("empty", [[]])):
        def body(eng, shape=shape):
            d = {}
            for ci, acts in enumerate(shape):
                d[SObj(nmfu.IntegerCondition, {"name": f"c{ci}"})] = HList([SObj(nmfu.CallHook, {"name": f"a{ci}_{i}", "__targets": HList([O[k] for k in ts])}) for i, ts in enumerate(acts)])
            me = SObj(nmfu.ConditionalAction, {"sub_actions": HDict(d)})
            v, _ = call_function(eng, fnt, [], self_obj=me)
            return eng.iterate(v), {}
        cs = dict(DEBUG_CONTRACTS)
        cs["Action.get_target_override_targets"] = lambda eng, a, kw: a[0].fields["__targets"]
        old_ms = getattr(Engine, "mutable_sets", False)
        Engine.mutable_sets = True
        try:
            rs = list(explore(program, body, contracts=cs))
        finally:
            Engine.mutable_sets = old_ms
        c3 = Clauses(rep, prop, fnt, tag, [], None)
        if len(rs) != 1 or rs[0].exits or rs[0].dead is not False:
            c3.fail("no-exception", "raises / forks")
        else:
            got = set(id(x) for x in rs[0].value)
            need = set(id(O[k]) for acts in shape for ts in acts for k in ts)
            c3.structural("contains-every-sub-action-target", need <= got and got <= set(id(x) for x in O), f"merged targets miss {len(need - got)} target(s) of the sub-actions")
        n += c3.n
    return n
