"""C05, proved part for the else-simplification pass: `_optimize_simplify_transition_matches` executed from the real AST (pyvc) on a
machine with ONE arbitrary transition (symbols: an arbitrary segment, so its length and whether it lists Else are symbolic).  The
loop touches nothing but the symbol list of the transition at hand, so one arbitrary transition covers every iteration.
Per-transition contract: the symbol list becomes `[Else]` exactly when it lists Else among other symbols, otherwise it is left
alone; target, actions, kind and every other object are untouched; with the flag off nothing is changed.
L-simplify (vf/lemmas/Simplify.lean, Lean 4) lifts that to: under RI1 (no symbol on two transitions) every symbol selects the
same transition as before - the pass cannot change behaviour.  RI1 itself is a run-time contract (C09, bounded)."""
import z3
from ..common import Finding
from ..pyvc.sym import *
from ..pyvc.driver import Program, explore, call_function
from ..pyvc.interp import SObj, HList, HDict, Seg, Engine
from .leaf_proofs import Clauses, _items, _same, DEBUG_CONTRACTS

FNQ = "DfaCompileCtx._optimize_simplify_transition_matches"


def prove(rep, nmfu, program, prop="C05"):
    rep.fn(FNQ)
    Else = nmfu.DFTransition.Else
    FL = {f: z3.Bool("flag_" + f.name) for f in nmfu.ProgramFlag}
    n = 0
    old_ms = getattr(Engine, "mutable_sets", False)
    Engine.mutable_sets = True
    try:
        def body(eng):
            eng.class_store.setdefault(nmfu.ProgramData, {})["_flags"] = HDict(dict(FL))
            ON, A = Seg("symbols"), Seg("actions")
            tgt = SObj(nmfu.DFState, {"transitions": HList([])})
            tr = SObj(nmfu.DFTransition, {"on_values": HList([ON]), "target": tgt, "is_fallthrough": z3.Bool("ft0"), "error_handling": z3.Bool("eh0"), "actions": HList([A])})
            q = SObj(nmfu.DFState, {"transitions": HList([tr])})
            dfa = SObj(nmfu.DFA, {"states": HList([q, tgt]), "starting_state": q, "accepting_states": HList([tgt])})
            me = SObj(nmfu.DfaCompileCtx, {"dfa": dfa})
            v, _ = call_function(eng, FNQ, [], self_obj=me)
            return dict(ON=ON, A=A, tr=tr, q=q, tgt=tgt, dfa=dfa, ret=v), {}
        cs = dict(DEBUG_CONTRACTS)
        cs["dprint.__call__"] = lambda eng, a, kw: None        # debug printing
        for ri, r in enumerate(explore(program, body, contracts=cs, fork_functions="*")):
            cl = Clauses(rep, prop, FNQ, str(ri), r.pc, None)
            if r.exits or r.dead is not False or r.value is None:
                cl.fail("no-exception", f"raises {[e.exc_cls.__name__ for e in r.exits]}")
                n += cl.n
                continue
            b = r.value
            on = _items(b["tr"].fields["on_values"])
            flag_on = FL[nmfu.ProgramFlag.SIMPLIFY_ELSE_CONDITIONS]
            members = [v for c in r.pc for v in _bools(c) if str(v).startswith("seg_member")]
            lenv = b["ON"].length
            listed = members[0] if members else None
            rewritten = len(on) == 1 and on[0] is Else
            untouched = _same(on, [b["ON"]])
            cl.structural("symbols.either-rewritten-or-untouched", rewritten or untouched, f"symbol list became {on!r}")
            if rewritten:
                goal = z3.And(flag_on, lenv > 1, listed) if listed is not None else z3.BoolVal(False)
                cl.smt("symbols.rewritten-only-if-else-among-others", goal, "the symbol list was replaced by [Else] although the flag is off, or it does not list Else, or lists nothing else")
            elif untouched:
                goal = z3.Not(z3.And(flag_on, lenv > 1, listed)) if listed is not None else z3.Or(z3.Not(flag_on), lenv <= 1)
                cl.smt("symbols.untouched-only-if-nothing-to-simplify", goal, "a symbol list that lists Else among other symbols was left alone with the flag on")
            cl.structural("frame", b["tr"].fields["target"] is b["tgt"] and _same(b["tr"].fields["actions"], [b["A"]]) and _same(b["q"].fields["transitions"], [b["tr"]])
                          and _same(b["dfa"].fields["states"], [b["q"], b["tgt"]]) and _same(b["dfa"].fields["accepting_states"], [b["tgt"]])
                          and str(b["tr"].fields["is_fallthrough"]) == "ft0" and str(b["tr"].fields["error_handling"]) == "eh0",
                          "something other than the symbol list was modified")
            n += cl.n
    finally:
        Engine.mutable_sets = old_ms
    from .. import lemmas
    n += lemmas.check(rep, prop, "Simplify.lean", ["lookup_simplify"])
    return n


def _bools(e):
    out = []
    todo = [e]
    while todo:
        x = todo.pop()
        if z3.is_const(x) and z3.is_bool(x) and x.decl().kind() == z3.Z3_OP_UNINTERPRETED:
            out.append(x)
        todo.extend(x.children())
    return out


def run(rep, prop="C05"):
    from .. import common
    nmfu = common.load_nmfu()
    try:
        return prove(rep, nmfu, Program(nmfu, common.repo_source()), prop)
    except (Unsupported, NeedFork, KeyError, AttributeError) as e:
        rep.unavailable(f"{prop}/pyvc/{FNQ}/engine", f"outside the modelled Python subset: {type(e).__name__}: {e}")
        return 0
