"""C18 - the compiler always terminates with code or a diagnosed error (partial claim, see DESIGN.md).

 proved / exhaustive: exception-freedom of the front-end functions the property anchors:
   _convert_string on arbitrary STRING tokens (loop-invariant proof for well-formed spellings under C15 + exhaustion over every escape
   unit in context for ill-formed ones), _convert_char_const / _convert_int (pyvc, no exit under the token regex),
   _integer_containing (pyvc: no exit for the widths the front end lets through), _parse_assign_stmt / _parse_out_decl (complete matrix of
   output kind x operator x right-hand-side kind through the real pipeline).
 bounded: contract `only NMFUError escapes parse/compile/generate, str(e) renders, within a time limit` on generated sources
   (semantic edge cases) x option sets including -fcodepoints-in-errors.
 Not claimed: termination / totality of the whole compiler for all programs."""
import multiprocessing as mp, signal, traceback, itertools
import z3
from .. import common, gen, progs, macrogen
from ..common import Report, Finding
from ..pyvc.sym import *
from ..pyvc.driver import Program, explore, call_function
from ..pyvc.interp import SObj
from . import c15_proofs as P15

FLAGSETS = [["-O1"], ["-O2", "-feof-support", "--collapsed-range-length", "0"], ["-O3", "-fallocate-str-space-dynamic-on-demand", "-fdelete-string-free-memory"], ["-O0", "-fcodepoints-in-errors", "-fhook-per-state"]]
_CTX = {}


def _one(i):
    p = _CTX["programs"][i]
    nmfu = common.load_nmfu()
    from ..csem import tv
    out = []

    def alarm(sig, frm):
        raise TimeoutError()
    signal.signal(signal.SIGALRM, alarm)
    for flags in _CTX["flagsets"]:
        signal.alarm(20)
        try:
            try:
                tv.compile_program(nmfu, p["src"], flags + p["args"])
                out.append((flags, "ok", ""))
            except nmfu.NMFUError as e:
                try:
                    s = str(e)
                    out.append((flags, "diag", type(e).__name__))
                except TimeoutError:
                    raise
                except Exception as e2:
                    tb = traceback.extract_tb(e2.__traceback__)[-1]
                    out.append((flags, "render", f"{type(e2).__name__}@{tb.name}"))
            except tv.SourceSyntaxError:
                out.append((flags, "syntax", ""))
            except tv.InternalCompilerError as e:
                c = e.__cause__
                if c is not None:
                    tb = traceback.extract_tb(c.__traceback__)[-1]
                    out.append((flags, "internal", f"{type(c).__name__}@{tb.name}"))
                else:
                    out.append((flags, "internal", str(e)[:60]))
            except RuntimeError as e:
                out.append((flags, "badflags", str(e)[:60]))
            except TimeoutError:
                out.append((flags, "hang", "no result within 20 s"))
            except Exception as e:
                tb = traceback.extract_tb(e.__traceback__)[-1]
                out.append((flags, "internal", f"{type(e).__name__}@{tb.name}"))
        except TimeoutError:
            out.append((flags, "hang", "no result within 20 s"))
        finally:
            signal.alarm(0)
    return p["name"], out


def matrix_programs():
    """complete matrix for _parse_assign_stmt / _parse_out_decl: output kind x operator x right-hand-side kind; declarations with odd attributes"""
    decls = {"bool": "out bool v;", "int": "out int v;", "enum": "out enum{A,B} v;", "str": "out str[8] v;", "ustr": "out unterminated str[8] v;", "raw": "out raw{uint32_t} v;"}
    rhs = {"string": '"ab"', "empty": '""', "istring": '"ab"i', "bstring": '"61"b', "number": "5", "hexnum": "-0x10", "char": "'a'", "bool": "true", "ident": "A", "undef": "nosuch", "math": "[v + 1]",
           "mathlen": "[v.len]", "mathidx": "[v[0]]", "last": "[$last]", "regex": "/a+/", "bregex": "b/61/", "end": "end", "concat": '("a" /b/)', "cmp": "[1 < 2]", "neg": "[-v]", "not": "[!v]",
           "badescape": '"\\q"', "badhex": '"\\xzz"', "shorthex": '"\\x4"', "uescape": '"\\u1234"', "oddbin": '"abc"b', "bignum": "99999999999999999999", "charesc": "'\\0'",
           "emptybin": "0b", "negbin": "-0b1", "plushex": "+0x1f", "highcasei": '"stra\\xdfe"i', "highcasei2": '"\\xe9\\xb5"i', "wide": '"\u20ac"', "widecasei": '"\u0131\u017f"i', "nulstr": '"a\\x00b"'}
    out = []
    for (dk, d), (rk, r), op in itertools.product(decls.items(), rhs.items(), ("=", "+=")):
        src = f'{d}\nparser {{ "x"; v {op} {r}; "y"; }}\n'
        out.append({"name": f"matrix/{dk}.{op}.{rk}", "src": src, "args": ["-feof-support"]})
    # delete on every output kind (directly and through a macro out parameter); constant expressions that cannot be evaluated
    for dk, d in decls.items():
        out.append({"name": f"matrix/{dk}.delete", "src": f'{d}\nparser {{ "x"; delete v; "y"; }}\n', "args": []})
        out.append({"name": f"matrix/{dk}.delete-macro", "src": f'{d}\nmacro wipe(out o) {{ delete o; }}\nparser {{ "x"; wipe(v); "y"; }}\n', "args": []})
        for ek, e in {"div0": "[1 / 0]", "mod0": "[1 % 0]", "shlneg": "[1 << -1]", "shrneg": "[8 >> -1]", "bigshift": "[1 << 4000]", "cmpdiv0": "[(1 / 0) == 1]"}.items():
            out.append({"name": f"matrix/{dk}.const.{ek}", "src": f'{d}\nparser {{ v = {e}; "x"; }}\n', "args": []})
    out.append({"name": "matrix/macro-expr-shadows-output", "src": 'out int a;\nout int v;\nmacro m(expr a) { v = [a + 1]; "x"; }\nparser { m([a + 2]); }\n', "args": []})
    odd = ["out int{unsigned, size 3} v;", "out int{signed, size 0} v;", "out int{size 16} v;", "out int{unsigned, unsigned} v;", "out int{size 1, size 2} v;", "out str[0] v;", "out str[1] v;", "out str[-1] v;", "out str[0x10] v;",
           "out unterminated str[0] v;", "out raw{notatype} v;", "out enum{A,A} v;", "out enum{finish,B} v;", 'out str[4] v = 5;', 'out int v = "x";', "out bool v = 7;", "out int v = A;", "out enum{A,B} v = B;",
           "out enum{A,B} v = C;", 'out raw{uint8_t} v = "a";', 'out str[4] v = "abcdef";', 'out str[4] v = "ab"i;', "out int v = [1 + 2];", "out int v = [$last];", "out int v = [w];", 'out str[4] v = "\\q";',
           "out int v;\nout int v;", "out enum{A,B} V;\nout int v;", "hook v;\nhook v;", "finishcode A, A;", "yieldcode Y;", "out str[300] v;", "out str[70000] v;"]
    for i, d in enumerate(odd):
        out.append({"name": f"matrix/decl{i}", "src": d + '\nparser { "x"; }\n', "args": []})
    stm = ["break;", "break nolabel;", "finish NOCODE;", "yield NOCODE;", "delete nosuch;", "nosuch();", "nosuch = 5;", "x += \"a\";", "loop { }", "loop { break; }", "optional { h(); }", "optional { optional { \"a\"; } }",
           "case { }", "case { else -> { } }", "case { \"a\" -> { } \"a\" -> { } }", "greedy case { \"a\" -> { } prio 1 \"a\" -> { } }", "try { } catch { }", "try { \"a\"; } catch (bogus) { }", "foreach { \"a\"; } do { \"b\"; }",
           "foreach { } do { h(); }", "if 1 { \"a\"; }", "if \"a\" { \"a\"; }", "if nosuch > 1 { \"a\"; }", "wait end;", "end;", "/a{3,1}/;", "/a{0}/;", "/a{100}/;", "/(a|a)/;", "/[z-a]/;", "\"\";", "wait \"\";", "\"\"i;", "\"\"b;",
           "(\"a\");", "h(1, 2);", "$last;", "[1];", "h();", "finish;", "yield;", "macro_undefined(1);", "loop a { loop a { break a; \"x\"; } }",
           "optional { if x.len == 1 { \"a\"; } } \"b\";", "optional { if x.len == 1 { \"a\"; } else { \"c\"; } }", "case { \"a\" -> { } else -> { if x.len == 1 { \"b\"; } } }", "loop { if x.len == 1 { break; } \"a\"; }",
           "/a{0,1200}/;", "/a{150}/;", "/(a{12}){12}/;", "wait /a{0,80}b/;", "x += /./; end; x += /[^a]/;", "\"stra\\xdfe\"i;", "\"\u20ac\";", "/\u20ac/;", "x = \"\u20ac\";",
           "\x0c nosuch();", "\r nosuch();", "\x0c\n\x0c break;", "try { end; } catch { end; } end;"]
    for i, st in enumerate(stm):
        out.append({"name": f"matrix/stmt{i}", "src": "hook h;\nout str[4] x;\nparser { \"q\"; " + st + " \"z\"; }\n", "args": []})
    # ill-formed joins: the diagnostic has to name conflicting symbols - explicit characters next to a wildcard, end-of-input next to characters
    # (three or more conflicting symbols incl. End on one transition: a join with an `if` whose branches accept bytes and end-of-input)
    joins = ['/[^x]*/; /[^y]z/;', '/(a|b|[^c])*/; /[^a]/;', '/a*/; /[^y]/;', '/[^x]*/; /[^y]/;',
             'optional { case { /[ab]/ -> { n = 1; } end -> { n = 2; } } } if n == 1 { /[ab]/; } else { end; }',
             'optional { case { /[abc]/ -> { n = 1; } end -> { n = 2; } } } if n == 1 { /[abc]/; } else { end; }',
             'optional { /[abc]/; n = 1; } /[abc]/;', 'optional { "a"; n = 1; } if n == 1 { "b"; } else { end; }',
             'loop { case { end -> { break; } /[ab]/ -> { } } } if n == 1 { /[ab]/; } else { end; }', 'wait /[^a]b/; /[^b]/;', '/[^a]+/; end;', '/.*/; end;', 'optional { end; } end;']
    for i, st in enumerate(joins):
        out.append({"name": f"matrix/join{i}", "src": "out int n = 0;\nparser { " + st + " }\n", "args": ["-feof-support"]})
        if "end" not in st:
            out.append({"name": f"matrix/join{i}n", "src": "parser { " + st.replace("n = 1; ", "") + " }\n", "args": []})
    macros = ["macro a(expr e) { n = [e]; }\nmacro b(expr e) { a([e + 1]); }\nout int n;\nparser { \"x\"; b(5); }",
              "macro a(match p) { p; }\nmacro b(match p) { a((p \"!\")); a((\"?\" p)); }\nparser { b(\"x\"); }",
              "macro a() { a(); }\nparser { a(); }", "macro a() { b(); }\nmacro b() { a(); }\nparser { \"x\"; a(); }", "macro a(expr e) { n = [e]; }\nout int n;\nparser { \"x\"; a(e); }",
              "macro a(match m) { m; }\nparser { a(m); }", "macro a(out o) { o = 1; }\nparser { \"x\"; a(a); }", "macro a() { }\nparser { a(); \"x\"; }", "macro a(macro m) { m(m); }\nparser { \"x\"; a(a); }",
              # recursion through a deeply nested body: the interpreter's stack runs out long before any bound on the expansion depth is reached
              "macro a() {\n    loop { optional { try { case { \"x\" -> { loop { optional { try { case { \"y\" -> { a(); } } } catch { } } } } } } catch { } } }\n}\nparser { a(); }",
              "macro a(match m) { loop { optional { try { case { m -> { loop { optional { try { case { \"y\" -> { b(m); } } } catch { } } } } } } catch { } } } }\nmacro b(match m) { a((m \"z\")); }\nparser { b(\"q\"); }"]
    for i, m in enumerate(macros):
        out.append({"name": f"matrix/macro{i}", "src": m + "\n", "args": []})
    # action-only conditionals whose branches differ in how they leave the transition (break / finish / finish code / append that can run out of
    # of space / plain action): the combined override mode decides which states the reachability passes keep, and the code generator indexes them
    kinds = {"break": "break;", "finish": "finish;", "fcode": "finish early;", "append": "s += [65];", "set": "n = 0;", "hook": "h();"}
    import itertools as _it
    combos = [(a_, b_, None) for a_ in kinds for b_ in kinds] + [c for c in _it.permutations(kinds, 3)]
    for (a_, b_, c_) in combos:
        cond = f"if n == 3 {{ {kinds[a_]} }} elif n == 9 {{ {kinds[b_]} }}" + (f" else {{ {kinds[c_]} }}" if c_ else "")
        src = ('out str[4] s;\nout int n;\nhook h;\nfinishcode early;\nparser { try { loop { "a"; n = [n + 1]; ' + cond + ' } "after"; } catch (outofspace) { "zz"; } }\n')
        out.append({"name": f"matrix/condmix.{a_}.{b_}" + (f".{c_}" if c_ else ""), "src": src, "args": []})
    return out


def proofs(rep, nmfu, program):
    # _convert_char_const / _convert_int: no exception at all under the token regex
    s = z3.String("tok")
    q, bs = z3.StringVal("'"), z3.StringVal("\\")
    pre_char = [z3.Or(z3.And(z3.Length(s) == 3, z3.SubString(s, 0, 1) == q, z3.SubString(s, 2, 1) == q),
                      z3.And(z3.Length(s) == 4, z3.SubString(s, 0, 1) == q, z3.SubString(s, 3, 1) == q, z3.SubString(s, 1, 1) == bs))]

    def total(fnq, pre, hooks=None, args=None, kwargs=None):
        def body(eng):
            eng.pc.extend(pre)
            return call_function(eng, fnq, args if args is not None else [SStr((s,))], kwargs or {}, self_obj=SObj(getattr(nmfu, fnq.split(".")[0]), {}))
        runs = explore(program, body, hooks=hooks or {})
        rep.fn(fnq)
        for ri, r in enumerate(runs):
            bad = [e for e in r.exits if not issubclass(e.exc_cls, nmfu.NMFUError)]
            oid = f"C18/pyvc/{fnq}/only-NMFUError#{ri}"
            if not bad:
                rep.discharged_ob(oid, "pyvc")
                continue
            cond = zor(*[e.cond for e in bad])
            v, m, backend, secs = prove(r.pc, znot(cond))
            if v == "proved":
                rep.discharged_ob(oid, backend, secs)
            elif v == "refuted":
                tok = model_value(m, s)
                rep.failed_ob(Finding("C18", oid, f"{fnq}|{bad[0].exc_cls.__name__}", f"{fnq} can leave with {sorted(set(e.exc_cls.__name__ for e in bad))} (model: {tok!r})", replay={"token": tok}, replayed=False))
            else:
                rep.undecided_ob(oid, "unknown")
    total("ParseCtx._convert_char_const", pre_char)
    INTOF = z3.Function("intval", z3.StringSort(), z3.IntSort(), z3.IntSort())
    total("ParseCtx._convert_int", [z3.Length(s) >= 1], hooks={"int_of_str": lambda eng, ss, b: INTOF(ss.z3(), z3.IntVal(b))})
    for w in (None, 1, 2, 4, 8):
        for sg in (True, False):
            total("CodegenCtx._integer_containing", [], args=[], kwargs={"signed": sg, "width": w})
    # _convert_string on ill-formed spellings: every escape unit in context, through the real function
    bad = P15.string_token_exceptions(nmfu)
    rep.fn("ParseCtx._convert_string")
    if bad:
        for k, toks in bad.items():
            rep.failed_ob(Finding("C18", "C18/exhaustive/ParseCtx._convert_string/only-NMFUError", f"_convert_string|{k}", f"_convert_string leaves with {k} on valid STRING tokens such as {toks[:3]}", replay={"tokens": toks[:5]}, replayed=True))
    else:
        rep.discharged_ob("C18/exhaustive/ParseCtx._convert_string/only-NMFUError", "exhaustive", sample="256 escape characters x 5 continuations")


def main():
    rep = Report("C18", "other")
    nmfu = common.load_nmfu()
    program = Program(nmfu, common.repo_source())
    rep.assume("lark")
    rep.trust("vf/pyvc semantics", "per-compilation time limit of 20 s stands in for 'never hangs' (bounded)")
    proofs(rep, nmfu, program)
    thorough = common.tier() == "thorough"
    ps = matrix_programs() + [{"name": b["name"], "src": b["src"], "args": b["args"]} for b in macrogen.bad_calls()]
    ps += gen.generated_programs(6000 if thorough else 500, common.seed())
    pairs = gen.pair_programs(thorough)
    ps += pairs if thorough else pairs[::5]
    ps += gen.case_programs()[::3] + gen.wait_programs()[::4] + gen.ambig_programs()
    ps += [{"name": p["name"], "src": p["src"], "args": p["args"]} for p in progs.corpus(include_fail=True)]
    _CTX.update(programs=ps, flagsets=FLAGSETS)
    with mp.get_context("fork").Pool(16) as pool:
        outs = pool.map(_one, range(len(ps)), chunksize=8)
    counts = {}
    src_of = {p["name"]: p["src"] for p in ps}
    seen_sig = set()
    for name, res in outs:
        for flags, kind, detail in res:
            counts[kind] = counts.get(kind, 0) + 1
            if kind in ("internal", "render", "hang"):
                sig = f"{kind}|{detail}"
                oid = f"C18/rtc/compile/{kind}"
                if sig in seen_sig and len(rep.findings) > 40:
                    continue
                seen_sig.add(sig)
                what = {"internal": "the compiler dies with an internal exception", "render": "the diagnostic cannot be rendered", "hang": "the compiler does not finish"}[kind]
                rep.bounded_violation(Finding("C18", oid, f"{sig}|{name}|{' '.join(flags)}", f"{name} [{' '.join(flags)}]: {what}: {detail}", replay={"source": src_of[name], "flags": flags}, replayed=True))
    for k in ("ok", "diag"):
        rep.bounded_count(f"compilations ending in {'generated code' if k == 'ok' else 'a rendered NMFUError'}", counts.get(k, 0))
    rep.coverage["outcomes"] = counts
    rep.coverage["programs_in_set"] = len(ps)
    rep.coverage["flagsets"] = FLAGSETS
    if counts.get("ok", 0) == 0 or counts.get("diag", 0) == 0:
        rep.undecided_ob("C18/vacuity", "program set does not exercise both outcomes")
    rep.fn("ParseCtx.parse", "ParseCtx._parse_out_decl", "ParseCtx._parse_assign_stmt", "ParseCtx._parse_macro_call", "DfaCompileCtx.compile", "CodegenCtx.generate_header/generate_source", "NMFUError.__str__ / _get_message")
    rep.samples += [p["name"] for p in ps[:6]]
    text = ("Partial claim. Proved/exhaustive: exception-freedom of the literal decoders and _integer_containing under the token regexes; complete decision matrix (output kind x operator x right-hand side; odd declarations; degenerate statements; "
            "recursive / ill-typed macros) through the real pipeline. Bounded: the contract 'only NMFUError escapes, it renders, within 20 s' on "
            f"{len(ps)} sources x {len(FLAGSETS)} option sets (generated edge-case programs, statement pairs, clause sets, wait patterns, corpus incl. rejected programs). Whole-compiler totality for all sources is not claimed.")
    return rep.finish(text, checker_cmd="./check C18", require_obligations=False)


def replay(path):
    import json
    from ..csem import tv
    d = json.load(open(path))["input"]
    nmfu = common.load_nmfu()
    if "source" in d:
        try:
            tv.compile_program(nmfu, d["source"], d["flags"] + ["-feof-support", "-fyield-support"])
            print("accepted")
        except nmfu.NMFUError as e:
            print("diagnosed:", type(e).__name__)
        except Exception as e:
            print("INTERNAL:", repr(e)[:300], "cause:", repr(getattr(e, "__cause__", None))[:300])
    else:
        print(d)
    return 0
