"""C14, proved part: CodegenCtx._generate_code_for_int_expr renders EVERY expression tree to C text that, parsed with real C
precedence and associativity, is that tree - by structural induction.

Induction step = one obligation set per node class: the real function body is executed from its AST (pyvc) on a node of that class
whose recursive calls are replaced by the contract of the function itself (induction hypothesis): "returns a C expression text for
the child" - represented by an opaque marker atom.  The obligations on the emitted text:
  (enclosed)  every occurrence of a child's text is directly enclosed in `( )` or `[ ]`, so whatever operators the child's text
              contains cannot interact with the surrounding ones (this is what makes the hypothesis composable);
  (tree)      the text, parsed by the C expression parser of vf/csem/cparse.py (real C precedence table), is exactly the operator
              tree the node denotes: children in order, left-associated fold for chains, the node's own operator at each joint;
  (atoms)     leaves render to the documented lvalues / literals; an index expression is guarded by `0 <= i < capacity`
              (plus the allocation test for on-demand strings) and reads 0 otherwise, unless unsafe indexing is selected.
The parameter space of a node is finite apart from the number of operands; it is enumerated completely for 1..4 operands (every
operator of the class at every joint), for every use context, with children of several kinds (so that a special case keyed on the
kind of a child is exercised).  Flags are symbolic (paths fork on each flag read).  Operand counts above 4: the per-joint shape is
uniform (the loop appends ` op (child)`), covered by the same obligations only through L-paren (a chain of parenthesised operands
joined by left-associative operators of one precedence class parses as the left fold), which stays a paper lemma."""
import itertools
import z3
from .. import common
from ..common import Finding
from ..pyvc.sym import *
from ..pyvc.driver import Program, explore, run_stmts
from ..pyvc.interp import SObj, HList, HDict
from ..csem import cparse

FNQ = "CodegenCtx._generate_code_for_int_expr"


def _strip_parens(t):
    """parentheses, and a cast to int (value-preserving for the byte and integer types of the emitted code: the usual promotion made explicit)"""
    while isinstance(t, tuple) and (t[0] == "paren" or (t[0] == "cast" and str(t[1]).strip() == "int")):
        t = t[1] if t[0] == "paren" else t[2]
    return t


def _parse(text):
    p = cparse.Parser(text)
    e = p.expr()
    if p.peek().kind != "eof":
        raise cparse.OutsideSubset(f"trailing tokens after the expression: {p.peek()!r}")
    return e


def _enclosed(text, marker):
    """every occurrence of marker sits directly between ( ) or [ ]"""
    i = text.find(marker)
    if i < 0:
        return False
    while i >= 0:
        a, b = text[i - 1] if i > 0 else "", text[i + len(marker)] if i + len(marker) < len(text) else ""
        if (a, b) not in (("(", ")"), ("[", "]")):
            return False
        i = text.find(marker, i + 1)
    return True


def _fold(ops_, n):
    t = ("paren", ("id", "CH0"))
    for k in range(1, n):
        t = ("bin", ops_[k - 1], t, ("paren", ("id", f"CH{k}")))
    return t


def prove(rep, nmfu, program, prop="C14"):
    OST = nmfu.OutputStorageType
    rep.fn(FNQ, "CodegenCtx._generate_buflike_index_expr", "CodegenCtx._generate_buflike_length_expr", "CodegenCtx._convert_literal_value")
    FL = {f: z3.Bool("flag_" + f.name) for f in nmfu.ProgramFlag}
    node = program.proto.funcs[FNQ]
    contexts = list(nmfu.IntegerExprUseContext)

    def storage(name, typ, **kw):
        o = nmfu.OutputStorage.__new__(nmfu.OutputStorage)
        o.__dict__.update(dict(name=name, type=typ, default_value=None, str_size=kw.get("size"), str_null=kw.get("null", True), int_signed=True, int_width=None,
                               raw_underlying=kw.get("raw"), enum_values=None))
        return o
    # real storages wrapped as interpreter objects (field names read from a real instance so that a renamed field shows as an engine error, not a verdict)
    tmpl = None
    try:
        from ..csem import tv
        c = tv.compile_program(nmfu, "out int n = 0;\nout str[8] x;\nout raw{uint16_t} r;\nout bool f = false;\nparser { x += /a/; r += /b/; n = [1]; f = true; }\n", ["-O1"], path="c14-representative")
        spec = {o.name: o for o in c.cctx.state_object_spec}
        cc = c.cctx
    except Exception as e:
        rep.unavailable(f"{prop}/pyvc/{FNQ}/setup", f"could not compile the representative declarations: {type(e).__name__}: {e}")
        return 0

    def sobj(real):
        return SObj(type(real), {k: v for k, v in real.__dict__.items()})

    def leaf(kind, k):
        if kind == "lit":
            return SObj(nmfu.LiteralIntegerExpr, {"value": 40 + k, "typ": OST.INT, "model_ref": None}) if "typ" in nmfu.LiteralIntegerExpr(1).__dict__ else sobj(nmfu.LiteralIntegerExpr(40 + k))
        if kind == "out":
            return sobj(nmfu.OutIntegerExpr(spec["n"]))
        if kind == "sum":
            return sobj(nmfu.SumIntegerExpr([nmfu.OutIntegerExpr(spec["n"]), nmfu.LiteralIntegerExpr(1)], [False, True]))
        if kind == "mul":
            return sobj(nmfu.MulIntegerExpr([nmfu.OutIntegerExpr(spec["n"]), nmfu.LiteralIntegerExpr(2)], [nmfu.MulIntegerExprOp.MUL if hasattr(nmfu.MulIntegerExprOp, "MUL") else list(nmfu.MulIntegerExprOp)[0]] * 2))
        raise KeyError(kind)

    def deep(v):
        """real nmfu objects inside converted nodes -> interpreter objects (shallow graph, no cycles in expression trees)"""
        if isinstance(v, SObj):
            for k, x in list(v.fields.items()):
                v.fields[k] = deep(x)
            return v
        if isinstance(v, list):
            return HList([deep(x) for x in v])
        if isinstance(v, (nmfu.IntegerExpr,)):
            return deep(sobj(v))
        return v

    contracts = {"ProgramData.imbue": lambda e, a, k: a[0], "ProgramData.lookup": lambda e, a, k: None}
    nob = 0
    agg = {}

    def record(clause, ok, what, detail):
        a = agg.setdefault(clause, {"n": 0, "bad": None})
        a["n"] += 1
        if not ok and a["bad"] is None:
            a["bad"] = (what, detail)

    def run_node(mk_node, tagfn, check, kinds=("out", "lit", "sum", "mul")):
        for kind in kinds:
            for ctx in contexts:
                children = {}

                def rec_contract(eng, a, kw):
                    ch = a[1]
                    if id(ch) not in children:
                        raise Unsupported("recursive call on something that is not a child of the node")
                    return f"CH{children[id(ch)]}"

                def body(eng):
                    eng.class_store.setdefault(nmfu.ProgramData, {})["_flags"] = HDict(dict(FL))
                    children.clear()
                    n_, kids = mk_node(kind)
                    for i, kd in enumerate(kids):
                        children[id(kd)] = i
                    me = SObj(nmfu.CodegenCtx, {k: eng.wrap(v) for k, v in cc.__dict__.items()})
                    v, fr = run_stmts(eng, FNQ, node.body, {"self": me, "intexpr": n_, "ctx": ctx, "out_expr": None})
                    return (v, n_), {}
                cs = dict(contracts)
                cs[FNQ] = rec_contract
                for r in explore(program, body, contracts=cs, fork_functions="*"):
                    if r.value is None:
                        continue
                    text, n_ = r.value
                    illegal = [e for e in r.exits if e.exc_cls.__name__ == "IllegalIntExpr"]
                    if illegal:
                        continue            # the node is not valid in this context: a diagnostic, nothing rendered
                    if r.exits or r.dead is not False:
                        record(tagfn(n_) + ".no-exception", False, f"raises {[e.exc_cls.__name__ for e in r.exits]}", {"kind": kind, "ctx": ctx.name})
                        continue
                    text = norm_str(text)
                    if isinstance(text, SStr) and text.is_concrete():
                        text = text.concrete()
                    if not isinstance(text, str):
                        record(tagfn(n_) + ".concrete-text", False, "emitted text is not concrete on a forked path", {"kind": kind})
                        continue
                    check(tagfn(n_), n_, text, r, kind, ctx)

    # ---------- chains: Sum / Mul / Bitwise / Disjunction / Conjunction
    def chain_family(cls_name, op_sets, build, op_text):
        cls = getattr(nmfu, cls_name)
        for n in (1, 2, 3, 4):
            for opsel in itertools.product(*[op_sets] * (n - 1)) if n > 1 else [()]:
                def mk(kind, n=n, opsel=opsel):
                    kids = [deep(leaf(kind if i % 2 == 0 else "out", i)) for i in range(n)]
                    o = build(cls, kids, opsel)
                    return o, kids

                def check(tag, n_, text, r, kind, ctx, n=n, opsel=opsel):
                    ok_enc = all(_enclosed(text, f"CH{i}") for i in range(n))
                    record(f"{cls_name}.enclosed", ok_enc, f"a child's text is not directly enclosed in parentheses in `{text}`", {"text": text, "n": n, "ops": [op_text(o) for o in opsel], "child kind": kind})
                    try:
                        tree = _parse(text)
                        want = _fold([op_text(o) for o in opsel], n)
                        record(f"{cls_name}.tree", tree == want, f"`{text}` parses (C precedence) to {tree}, the node denotes {want}", {"text": text, "n": n, "ops": [op_text(o) for o in opsel], "child kind": kind})
                    except cparse.OutsideSubset as e:
                        record(f"{cls_name}.tree", False, f"`{text}` is not a C expression of the emitted subset: {e}", {"text": text})
                run_node(mk, lambda n_: cls_name, check)

    def build_sum(cls, kids, opsel):
        return SObj(cls, {"children": HList(kids), "negate": HList([False] + [bool(o) for o in opsel])})

    def build_mul(cls, kids, opsel):
        return SObj(cls, {"children": HList(kids), "divide": HList([list(nmfu.MulIntegerExprOp)[0]] + list(opsel))})

    def build_bw(cls, kids, opsel):
        return SObj(cls, {"children": HList(kids), "op": opsel[0] if opsel else list(nmfu.BitwiseIntegerExprOp)[0]})
    chain_family("SumIntegerExpr", [False, True], build_sum, lambda o: "-" if o else "+")
    chain_family("MulIntegerExpr", list(nmfu.MulIntegerExprOp), build_mul, lambda o: o.value)
    # bitwise chains carry ONE operator for the whole node
    for bop in nmfu.BitwiseIntegerExprOp:
        chain_family("BitwiseIntegerExpr", [bop], build_bw, lambda o: o.value)
    chain_family("DisjunctionIntegerExpr", ["||"], lambda cls, kids, opsel: SObj(cls, {"children": HList(kids)}), lambda o: o)
    chain_family("ConjunctionIntegerExpr", ["&&"], lambda cls, kids, opsel: SObj(cls, {"children": HList(kids)}), lambda o: o)

    # ---------- binary nodes: Compare / BitShift
    def binary_family(cls_name, variants, build, op_text):
        cls = getattr(nmfu, cls_name)
        for v in variants:
            def mk(kind, v=v):
                kids = [deep(leaf(kind, 0)), deep(leaf("out", 1))]
                return build(cls, kids, v), kids

            def check(tag, n_, text, r, kind, ctx, v=v):
                record(f"{cls_name}.enclosed", _enclosed(text, "CH0") and _enclosed(text, "CH1"), f"an operand's text is not directly enclosed in parentheses in `{text}`", {"text": text, "op": op_text(v)})
                try:
                    tree = _parse(text)
                    want = ("bin", op_text(v), ("paren", ("id", "CH0")), ("paren", ("id", "CH1")))
                    record(f"{cls_name}.tree", tree == want, f"`{text}` parses to {tree}, the node denotes {want}", {"text": text, "op": op_text(v)})
                except cparse.OutsideSubset as e:
                    record(f"{cls_name}.tree", False, f"`{text}` is not a C expression of the emitted subset: {e}", {"text": text})
            run_node(mk, lambda n_: cls_name, check)
    binary_family("CompareIntegerExpr", list(nmfu.CompareIntegerExprOp), lambda cls, kids, v: SObj(cls, {"children": HList(kids), "left": kids[0], "right": kids[1], "op": v}), lambda v: v.value)
    binary_family("BitShiftIntegerExpr", [True, False], lambda cls, kids, v: SObj(cls, {"children": HList(kids), "left": kids[0], "right": kids[1], "towards_left": v}), lambda v: "<<" if v else ">>")

    # ---------- indexing
    for sname in ("x", "r"):
        def mk(kind, sname=sname):
            kid = deep(leaf(kind, 0))
            return SObj(nmfu.StringRefIntegerExpr, {"ref": spec[sname], "index": kid}), [kid]

        def check(tag, n_, text, r, kind, ctx, sname=sname):
            lits = {str(c) for c in r.pc}
            unsafe = any(str(c) == "flag_UNSAFE_STRING_INDEXING" for c in r.pc)
            try:
                tree = _strip_parens(_parse(text))
            except cparse.OutsideSubset as e:
                record("StringRefIntegerExpr.tree", False, f"`{text}` is not a C expression of the emitted subset: {e}", {"text": text})
                return

            def is_access(t):
                # element i *as a byte*: the access converted to uint8_t (the element type may be plain char, whose sign is the
                # implementation's), or made through a uint8_t view (raw outputs); an (int) conversion on top preserves the value
                t = _strip_parens(t)
                casts = []
                while isinstance(t, tuple) and t[0] == "cast":
                    casts.append(" ".join(str(t[1]).split()))
                    t = _strip_parens(t[2])
                if not (isinstance(t, tuple) and t[0] == "index" and _strip_parens(t[2]) == ("id", "CH0") and sname in repr(t[1])):
                    return False
                as_byte = "uint8_t" in casts or "uint8_t" in repr(t[1])
                return as_byte and all(c in ("int", "uint8_t") for c in casts) and casts[-1:] in ([], ["uint8_t"])
            if unsafe:
                record("StringRefIntegerExpr.unsafe-is-plain-access", is_access(tree), f"with unsafe indexing `{text}` should be the element access read as a byte (uint8_t), nothing else", {"text": text})
                return
            record("StringRefIntegerExpr.enclosed", _enclosed(text, "CH0"), f"the index text is not directly enclosed in ( ) or [ ] in `{text}`", {"text": text})
            good = isinstance(tree, tuple) and tree[0] == "tern" and _strip_parens(tree[3]) == ("num", 0) and is_access(tree[2])
            conj = []

            def flat(t):
                t = _strip_parens(t)
                if isinstance(t, tuple) and t[0] == "bin" and t[1] == "&&":
                    flat(t[2]), flat(t[3])
                else:
                    conj.append(t)
            if good:
                flat(tree[1])
                lo = [t for t in conj if t[0] == "bin" and t[1] == ">=" and _strip_parens(t[2]) == ("id", "CH0") and _strip_parens(t[3]) == ("num", 0)]
                cap = spec[sname].str_size
                hi = [t for t in conj if t[0] == "bin" and t[1] == "<" and _strip_parens(t[2]) == ("id", "CH0")
                      and (_strip_parens(t[3]) == ("num", cap) if sname == "x" else _strip_parens(t[3])[0] == "sizeof")]
                rest = [t for t in conj if t not in lo and t not in hi]
                good = len(lo) == 1 and len(hi) == 1 and all(t[0] == "member" and t[2] == sname for t in rest)
            record("StringRefIntegerExpr.guarded-read", good, f"`{text}` is not `(0 <= i && i < capacity [&& allocated]) ? (uint8_t) element i : 0`", {"text": text, "storage": sname})
        run_node(mk, lambda n_: "StringRefIntegerExpr", check, kinds=("out", "sum"))

    # ---------- atoms
    atoms = [("OutIntegerExpr", lambda: SObj(nmfu.OutIntegerExpr, {"ref": spec["n"]}), lambda t: t == ("member", ("member", ("id", "state"), "c", True), "n", False), "state->c.n"),
             ("StringLengthIntegerExpr", lambda: SObj(nmfu.StringLengthIntegerExpr, {"ref": spec["x"]}), lambda t: t == ("member", ("id", "state"), "x_counter", True), "state->x_counter"),
             ("LastCharIntegerExpr", lambda: SObj(nmfu.LastCharIntegerExpr, {}), lambda t: t == ("id", "inval"), "inval")]
    for cname, mkobj, pred, want in atoms:
        def mk(kind, mkobj=mkobj):
            return mkobj(), []

        def check(tag, n_, text, r, kind, ctx, pred=pred, want=want, cname=cname):
            try:
                record(f"{cname}.lvalue", pred(_strip_parens(_parse(text))), f"`{text}` is not `{want}`", {"text": text})
            except cparse.OutsideSubset as e:
                record(f"{cname}.lvalue", False, f"`{text}`: {e}", {"text": text})
        run_node(mk, lambda n_: cname, check, kinds=("out",))
    for val in (0, 7, 255, 65536, -3):
        def mk(kind, val=val):
            return deep(sobj(nmfu.LiteralIntegerExpr(val))), []

        def check(tag, n_, text, r, kind, ctx, val=val):
            try:
                t = _strip_parens(_parse(text))
                got = t[1] if t[0] == "num" else (-_strip_parens(t[2])[1] if t[0] == "un" and t[1] == "-" and _strip_parens(t[2])[0] == "num" else None)
                record("LiteralIntegerExpr.value", got == val, f"literal {val} rendered as `{text}`", {"text": text})
            except cparse.OutsideSubset as e:
                record("LiteralIntegerExpr.value", False, f"`{text}`: {e}", {"text": text})
        run_node(mk, lambda n_: "LiteralIntegerExpr", check, kinds=("out",))

    for clause, a in sorted(agg.items()):
        oid = f"{prop}/pyvc/{FNQ}/{clause}"
        nob += 1
        if a["bad"] is None:
            rep.discharged_ob(oid, "pyvc-paths", 0.0, sample=f"{oid} ({a['n']} node instances x contexts x flag paths)")
        else:
            what, detail = a["bad"]
            rep.failed_ob(Finding(prop, oid, f"{FNQ}|{clause}", f"induction step for {clause}: {what}", replay={"clause": clause, **{k: str(v) for k, v in detail.items()}}, replayed=False))
    if not agg:
        rep.undecided_ob(f"{prop}/pyvc/{FNQ}/vacuity", "no node instance produced a rendering")
    rep.trust("vf/csem/cparse.py: C expression grammar (precedence table) used to parse the emitted text",
              "structural induction over expression trees; operand counts above 4 rest on L-paren (paper lemma)")
    return nob
