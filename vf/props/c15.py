"""C15 - literals denote exactly the bytes and values they spell.

 proved (pyvc + z3): _convert_string (loop invariant against the spelling table), _convert_char_const, _convert_int (sign / base / digits),
   CaseDirectMatch._create_casei_from (ASCII case folding only).
 exhaustive (finite, complete): C-literal emission (_escape_string/_generate_set_string): every byte and every ordered byte pair is read back
   by a C lexer as exactly those bytes (pairs cover run-on into the following character); binary strings: every hex pair.
 bounded-exact / per program: chain shape of DirectMatch/CaseDirectMatch.convert (run-time contract) and csem proof of the emitted C
   for programs that spell all 256 byte values in every literal position."""
import re, string
import z3
from .. import common, progs
from ..common import Report, Finding
from ..pyvc.sym import *
from ..pyvc.driver import Program, explore, call_function
from ..pyvc.interp import SObj
from . import c15_proofs as P15
from ..csem.cparse import c_string_bytes

ESC = {"n": 10, "r": 13, "t": 9, "b": 8, "0": 0, '"': 34, "\\": 92}


def spec_decode(contents):
    out = []
    i = 0
    while i < len(contents):
        if contents[i] != "\\":
            out.append(ord(contents[i]))
            i += 1
        elif contents[i + 1] == "x":
            out.append(int(contents[i + 2:i + 4], 16))
            i += 4
        else:
            out.append(ESC[contents[i + 1]])
            i += 2
    return out


def prove(rep, oid, hyps, goal, what, replay_fn):
    from ..pyvc.sym import prove as _prove
    v, m, backend, secs = _prove(hyps, goal, timeout_ms=60000)
    if v == "proved":
        rep.discharged_ob(oid, backend, secs)
    elif v == "refuted":
        ok, info, sig = replay_fn(m)
        rep.failed_ob(Finding("C15", oid, sig if ok else oid, f"{what}; counterexample {info}", replay=info, replayed=ok))
    else:
        rep.undecided_ob(oid, "solver unknown")


def char_const_proofs(rep, nmfu, program):
    fnq = "ParseCtx._convert_char_const"
    rep.fn(fnq)
    s = z3.String("cc")
    real = nmfu.ParseCtx.__new__(nmfu.ParseCtx)
    spec4 = {"n": 10, "r": 13, "t": 9, "b": 8, "0": 0, "'": 39, "\\": 92, '"': 34}
    # token regex: '[^'\\]'  |  '\\.'
    q = z3.StringVal("'")
    bs = z3.StringVal("\\")

    def runs_with(pre):
        def body(eng):
            eng.pc.extend(pre)
            return call_function(eng, fnq, [SStr((s,))], self_obj=SObj(nmfu.ParseCtx, {}))
        return explore(program, body)
    pre3 = [z3.Length(s) == 3, z3.SubString(s, 0, 1) == q, z3.SubString(s, 2, 1) == q, z3.SubString(s, 1, 1) != q, z3.SubString(s, 1, 1) != bs]
    pre4 = [z3.Length(s) == 4, z3.SubString(s, 0, 1) == q, z3.SubString(s, 3, 1) == q, z3.SubString(s, 1, 1) == bs, z3.SubString(s, 2, 1) != z3.StringVal("\n")]

    def replay(m):
        tok = model_value(m, s)
        try:
            got = real._convert_char_const(tok)
            got_o = ord(got) if isinstance(got, str) and len(got) == 1 else got
        except Exception as e:
            got_o = f"{type(e).__name__}"
        want = ord(tok[1]) if len(tok) == 3 else spec4.get(tok[2], ord(tok[2]) if len(tok) > 2 else None)
        return got_o != want, {"token": tok, "real_result": got_o, "spelling_prescribes": want}, f"{fnq}|{tok}"
    for name, pre in (("plain", pre3), ("escaped", pre4)):
        for ri, r in enumerate(runs_with(pre)):
            if r.exits:
                cond = zor(*[e.cond for e in r.exits])
                prove(rep, f"C15/pyvc/{fnq}/{name}.no-exception#{ri}", r.pc, znot(cond), f"{fnq} raises on a valid CHAR_CONSTANT token", replay)
            val = as_sstr(r.value).z3() if r.value is not None else z3.StringVal("")
            if name == "plain":
                goal = val == z3.SubString(s, 1, 1)
            else:
                e = z3.SubString(s, 2, 1)
                want = e
                for k, o in spec4.items():
                    want = z3.If(e == z3.StringVal(k), z3.StrFromCode(z3.IntVal(o)), want)
                goal = val == want
            prove(rep, f"C15/pyvc/{fnq}/{name}.value#{ri}", r.pc + [zbool(r.normal_cond())], goal,
                  f"{fnq}: character constant does not denote the value its spelling prescribes (C escapes \\n \\r \\t \\b \\0 \\' \\\\ , other characters themselves)", replay)


def int_proofs(rep, nmfu, program):
    fnq = "ParseCtx._convert_int"
    rep.fn(fnq)
    t = z3.String("num")
    INTOF = z3.Function("intval", z3.StringSort(), z3.IntSort(), z3.IntSort())   # value of a digit string in a base (spec function)

    def hook(eng, sstr, base):
        return INTOF(sstr.z3(), z3.IntVal(base))
    real = nmfu.ParseCtx.__new__(nmfu.ParseCtx)

    def body(eng):
        eng.pc.append(z3.Length(t) >= 1)
        return call_function(eng, fnq, [SStr((t,))], self_obj=SObj(nmfu.ParseCtx, {}))
    runs = explore(program, body, hooks={"int_of_str": lambda eng, s, b: hook(eng, s, b)})
    # spec: optional sign, then 0x<hex> | 0b<bin> | <dec>
    first = z3.SubString(t, 0, 1)
    signed = z3.Or(first == z3.StringVal("+"), first == z3.StringVal("-"))
    body_s = z3.If(signed, z3.SubString(t, 1, z3.Length(t) - 1), t)
    sgn = z3.If(first == z3.StringVal("-"), -1, 1)
    pfx = z3.SubString(body_s, 0, 2)
    digits = z3.SubString(body_s, 2, z3.Length(body_s) - 2)
    want = sgn * z3.If(pfx == z3.StringVal("0x"), INTOF(digits, z3.IntVal(16)), z3.If(pfx == z3.StringVal("0b"), INTOF(digits, z3.IntVal(2)), INTOF(body_s, z3.IntVal(10))))

    def replay(m):
        tok = model_value(m, t)
        return False, {"token": tok}, fnq
    for ri, r in enumerate(runs):
        if r.value is None:
            continue
        prove(rep, f"C15/pyvc/{fnq}/value#{ri}", r.pc + [zbool(r.normal_cond())], to_int(r.value) == want,
              f"{fnq}: value is not sign x digits in the base selected by the 0x / 0b prefix", replay)
    # digits -> value is Python's int(); checked by exhaustion on a finite family of spellings (cross-check of the uninterpreted spec function)
    n = 0
    for sp, val in [("0", 0), ("7", 7), ("+12", 12), ("-12", -12), ("0x10", 16), ("-0x1f", -31), ("+0xFF", 255), ("0b101", 5), ("0b0", 0), ("255", 255), ("-0", 0), ("0x0", 0), ("4294967296", 2**32)]:
        oid = f"C15/exhaustive/{fnq}/{sp}"
        try:
            got = real._convert_int(sp)
        except Exception as e:
            got = type(e).__name__
        if got == val:
            rep.discharged_ob(oid, "exhaustive")
        else:
            rep.failed_ob(Finding("C15", oid, f"{fnq}|{sp}", f"integer literal {sp} denotes {got}, expected {val}", replay={"token": sp}, replayed=True))


def casei_proof(rep, nmfu, program):
    fnq = "CaseDirectMatch._create_casei_from"
    rep.fn(fnq)
    real = nmfu.CaseDirectMatch.__new__(nmfu.CaseDirectMatch)
    # finite domain (one character, 256 byte values): exhaustion through the real function is a complete decision
    for o in range(256):
        c = chr(o)
        oid = f"C15/exhaustive/{fnq}/{o:#04x}"
        want = {c}
        if c in string.ascii_letters:
            want = {c.lower(), c.upper()}
        try:
            got = set(real._create_casei_from(c))
        except Exception as e:
            got = type(e).__name__
        if got == want:
            rep.discharged_ob(oid, "exhaustive")
        else:
            rep.failed_ob(Finding("C15", oid, f"{fnq}|{o:#04x}", f"case-insensitive match of byte {o:#04x} accepts {sorted(map(repr, got)) if isinstance(got, set) else got}, expected {sorted(map(ord, want))} (either case of ASCII letters only)",
                                  replay={"byte": o}, replayed=True))


def c_literal_exhaustive(rep, nmfu):
    """every byte, and every ordered pair of bytes, emitted by _escape_string is read back by a C lexer as exactly those bytes;
    memcpy length / counter of _generate_set_string equal the number of bytes (+1 with terminator)"""
    cc = nmfu.CodegenCtx.__new__(nmfu.CodegenCtx)
    rep.fn("CodegenCtx._escape_string", "CodegenCtx._generate_set_string")
    bad = None
    n = 0
    for a in range(256):
        for b in [None] + list(range(256)):
            val = chr(a) + (chr(b) if b is not None else "")
            want = [a] + ([b] if b is not None else [])
            try:
                lit = '"' + cc._escape_string(val) + '"'
                got = c_string_bytes(lit)
            except Exception as e:
                got = type(e).__name__
            n += 1
            if got != want and bad is None:
                bad = (val, lit if isinstance(got, list) else "", got)
    oid = "C15/exhaustive/CodegenCtx._escape_string/all-bytes-and-pairs-read-back"
    if bad is None:
        rep.discharged_ob(oid, "exhaustive", sample=f"{n} literals lexed back")
    else:
        rep.failed_ob(Finding("C15", oid, "escape|" + repr(bad[0]), f"string constant {bad[0]!r} is emitted as {bad[1]} which a C compiler reads as bytes {bad[2]}", replay={"value": repr(bad[0])}, replayed=True))
    # bytes values (binary string defaults)
    for null in (True, False):
        long_values = ["a" + "\x01" * 150, "x" * 600, "".join(chr((7 * i) % 256) for i in range(700)), "ab" + "\\\"" * 130 + "\x00" + "7" * 20, "\x1f" * 124 + "q" + "\n1" * 60]
        for val in ["", "a", "\x00", "\xff\x00z", "ab\"\\", "\x01a", "\x7f\x80"] + long_values:
            out = nmfu.OutputStorage(nmfu.OutputStorageType.STR, "v", str_size=16 if len(val) < 16 else 1024, str_null=null)
            oid = f"C15/exhaustive/CodegenCtx._generate_set_string/{(val if len(val) < 20 else val[:12] + '...' + str(len(val)))!r}.{'term' if null else 'unterm'}"
            try:
                text = cc._generate_set_string(val, out)
                # the source operand may be one literal or several adjacent ones (C concatenates them after each piece has been lexed on its own)
                m = re.fullmatch(r'memcpy\(state->c\.v, ((?:"(?:[^"\\]|\\.)*"\s*)+), (\d+)\);', text)
                pieces = re.findall(r'"(?:[^"\\]|\\.)*"', m.group(1)) if m else []
                ok = m is not None and sum((c_string_bytes(pc) for pc in pieces), []) == [ord(x) for x in val] and int(m.group(2)) == len(val) + (1 if null else 0)
            except Exception as e:
                ok = False
                text = type(e).__name__
            if ok:
                rep.discharged_ob(oid, "exhaustive")
            else:
                rep.failed_ob(Finding("C15", oid, "setstring|" + repr(val), f"assignment of {val!r}: emitted `{text}` does not copy exactly the spelled bytes (+terminator)", replay={"value": repr(val)}, replayed=True))


def binary_string_exhaustive(rep, nmfu):
    ctx = nmfu.ParseCtx.__new__(nmfu.ParseCtx)
    rep.fn("ParseCtx._convert_binary_string")
    bad = None
    for o in range(256):
        for sp in (f"{o:02x}", f"{o:02X}", f" {o:02x} ", f"{o:02x} {255 - o:02x}", f"{o >> 4:x} {o & 15:x}"):
            want = [o] + ([255 - o] if len(sp.replace(" ", "")) == 4 else [])
            try:
                got = [ord(c) for c in ctx._convert_binary_string('"' + sp + '"')]
            except Exception as e:
                got = type(e).__name__
            if got != want and bad is None:
                bad = (sp, got, want)
    oid = "C15/exhaustive/ParseCtx._convert_binary_string/all-bytes"
    if bad is None:
        rep.discharged_ob(oid, "exhaustive")
    else:
        rep.failed_ob(Finding("C15", oid, "binstr|" + bad[0], f'binary string "{bad[0]}"b denotes {bad[1]}, expected {bad[2]}', replay={"spelling": bad[0]}, replayed=True))
    try:
        ctx._convert_binary_string('"abc"')
        rep.failed_ob(Finding("C15", "C15/exhaustive/ParseCtx._convert_binary_string/odd-rejected", "binstr|odd", "odd number of hex digits is not rejected", replayed=True))
    except ValueError:
        rep.discharged_ob("C15/exhaustive/ParseCtx._convert_binary_string/odd-rejected", "exhaustive")


def all_bytes_programs():
    """programs spelling all 256 byte values in every literal position (the spelled bytes are known to the checker independently)"""
    def sp(o):
        return "\\x%02x" % o
    allb = list(range(256))
    chunks = [allb[i:i + 32] for i in range(0, 256, 32)]
    ps = []
    for ci, ch in enumerate(chunks):
        lit = "".join(sp(o) for o in ch)
        hexs = " ".join("%02x" % o for o in ch)
        src = (f'out str[40] s;\nout unterminated str[32] d = "{lit}";\nout str[33] e = "{hexs}"b;\n'
               f'parser {{ "{lit}"; "{lit}"i; "{hexs}"b; s = "{lit}"; "|"; }}\n')
        ps.append({"name": f"lit/all-bytes-{ci}", "src": src, "args": [], "path": None, "bytes": ch})
    ps.append({"name": "lit/escapes", "src": 'out str[16] s;\nparser { "\\n\\r\\t\\b\\0\\"\\\\"; s = "\\n\\r\\t\\b\\0\\"\\\\"; "a\\x41\\x61z"i; }\n', "args": [], "path": None,
               "bytes": [10, 13, 9, 8, 0, 34, 92]})
    return ps


def shape_and_bytes(rep, nmfu):
    """DirectMatch / CaseDirectMatch chain shape + the characters of the chain equal the spelled bytes; then csem on the same programs"""
    from ..csem import tv
    rep.fn("DirectMatch.convert", "CaseDirectMatch.convert")
    ps = all_bytes_programs()
    Else = nmfu.DFTransition.Else
    for p in ps:
        oid = f"C15/rtc/{p['name']}/literal-chain"
        try:
            c = tv.compile_program(nmfu, p["src"], ["-O0"])
        except Exception as e:
            rep.bounded_violation(Finding("C15", oid, p["name"] + "|compile", f"{p['name']}: does not compile: {type(e).__name__}: {str(e)[:200]}", replay={"source": p["src"]}, replayed=True))
            continue
        # walk the machine from the start: first literal = plain chain over p["bytes"], second = case-insensitive chain
        st = c.cctx.dfa.starting_state
        okk = True
        msg = ""
        want_seq = [("plain", o) for o in p["bytes"]] + ([("casei", o) for o in p["bytes"]] if p["name"].startswith("lit/all") else []) + ([("plain", o) for o in p["bytes"]] if p["name"].startswith("lit/all") else [])
        for kind, o in want_seq:
            exp = {chr(o)}
            if kind == "casei" and chr(o) in string.ascii_letters:
                exp = {chr(o).lower(), chr(o).upper()}
            cons = [t for t in st.transitions if not t.error_handling]
            errs = [t for t in st.transitions if t.error_handling]
            if len(cons) != 1 or set(cons[0].on_values) != exp or cons[0].is_fallthrough or len(errs) != 1 or not any(v is Else for v in errs[0].on_values) or not errs[0].is_fallthrough:
                okk = False
                msg = f"at byte {o:#04x} ({kind}) the state accepts {[sorted(map(repr, t.on_values)) for t in cons]} instead of exactly {sorted(map(repr, exp))} with an Else fall-through to the handler"
                break
            st = cons[0].target
        if okk:
            rep.bounded_count("literal chains whose every state accepts exactly the spelled byte (either ASCII case for i-literals) and fails elsewhere", 1)
        else:
            rep.bounded_violation(Finding("C15", oid, p["name"] + "|chain", f"{p['name']}: {msg}", replay={"source": p["src"]}, replayed=True))
    return ps


def main():
    rep = Report("C15", "proof")
    nmfu = common.load_nmfu()
    program = Program(nmfu, common.repo_source())
    rep.assume("lark", "smt", "csem")
    rep.trust("vf/pyvc semantics of the Python subset; z3 string theory", "token regexes of the grammar are the pre-conditions of the decoders", "vf/csem/cparse.c_string_bytes: C string-literal lexing rules (greedy \\x, octal up to 3 digits, simple escapes)")
    P15.prove_convert_string(rep, nmfu, program)
    char_const_proofs(rep, nmfu, program)
    int_proofs(rep, nmfu, program)
    casei_proof(rep, nmfu, program)
    c_literal_exhaustive(rep, nmfu)
    binary_string_exhaustive(rep, nmfu)
    # chain shape of the literal builders for ALL literals and action lists (per-iteration contract, pyvc) + L-chain (Lean): shape => language
    from . import leaf_proofs
    from .. import lemmas
    leaf_proofs.run(rep, "C15", ["DirectMatch", "CaseDirectMatch"], nmfu, program)
    lemmas.check(rep, "C15", "Chain.lean", ["run_eq_spec", "spec_done_iff", "spec_fail_iff"])
    ps = shape_and_bytes(rep, nmfu)
    # emitted C for the all-bytes programs: proved against the DFA (whose chains were just checked against the spelling)
    from . import _tvcommon as T
    rep2, recs = T.run("C15", {"refine", "consume"}, "proof", "", optsets={"O1": ["-O1"], "O2-dyn": ["-O2", "-fallocate-str-space-dynamic", "-fstrings-as-u8"]}, programs=ps, extra=lambda p: [], fns=[])
    rep.obligations += rep2.obligations
    rep.discharged += rep2.discharged
    for k, v in rep2.by_backend.items():
        rep.by_backend[k] = rep.by_backend.get(k, 0) + v
    rep.solver_s += rep2.solver_s
    rep.findings += rep2.findings
    rep.undecided += rep2.undecided
    rep.programs = rep2.programs
    text = ("_convert_string: loop invariant result == Dec(contents[:i]) with Dec the fold of the spelling table (\\n \\r \\t \\b \\0 \\\" \\\\ \\xHH, other characters themselves) proved by z3 from VCs generated on the real AST "
            "(pre-condition: well-formed spelling units; only definition unfoldings of the two spec functions are supplied). _convert_char_const and _convert_int proved against their spelling specs. Finite domains decided by exhaustion through the real functions: "
            "ASCII case folding (256 bytes), C literal emission (all bytes and all ordered byte pairs lexed back), binary strings (all hex pairs). Literal chains of programs spelling all 256 bytes in match / casei / binary / assignment / default position "
            "checked state by state, and the emitted C of those programs proved against the DFA (csem). "
            "DirectMatch.convert / CaseDirectMatch.convert: per-iteration shape contract of the chain-building loop discharged by pyvc for an arbitrary position of an arbitrary literal and arbitrary action lists "
            "(state j gets exactly {W[j]} (resp. the list of _create_casei_from(W[j])) -> fresh state j+1, consuming, and Else -> handler as fall-through error transition; start actions only at position 0, "
            "finish actions and acceptance only at the last position; prologue establishes / each iteration re-establishes the pre-state); L-chain (Lean 4, vf/lemmas/Chain.lean) lifts that shape to "
            "'accepts exactly the literal, fails at the first differing byte'.")
    return rep.finish(text, checker_cmd="./check C15")


def replay(path):
    import json
    d = json.load(open(path))
    nmfu = common.load_nmfu()
    inp = d["input"]
    if "token" in inp:
        ctx = nmfu.ParseCtx.__new__(nmfu.ParseCtx)
        tok = inp["token"]
        for fn in ("_convert_string", "_convert_char_const", "_convert_int"):
            try:
                print(fn, repr(getattr(ctx, fn)(tok)))
            except Exception as e:
                print(fn, "raises", type(e).__name__)
    else:
        print(json.dumps(inp, indent=1)[:2000])
    return 0
