"""Proved parts shared by C02 / C10 / C06: two small decision functions of the code generator that the per-program obligations depend on,
executed from the real AST (pyvc) on arbitrary flag values and on every combination of the things they look at.

CodegenCtx._transition_will_directly_jump(t, excl_fall): decides whether a transition body ends in `goto jpto_N / fall_N` (continuing
  in the same call without going through the switch) and whether the label is emitted.  Contract: True exactly when
  (t is not a fall-through, or excl_fall) and (t.target is not accepting, or strict done tokens are on) and every action of t reports
  override mode NONE.  Action lists of length 0..2 over every mode: `all(...)` over a longer list is the conjunction of the same
  per-action test, so the per-action clause (one action of every mode, in front of and behind a NONE action) carries every list.

CodegenCtx._needs_end_check(): decides whether feed() begins with `if (start == end) return OK;`.  Contract: True exactly when
  zero-length input support is on or some action on some transition may return early (yield).  Transition lists of length 0..2 with
  0..2 actions each, the actions' may_return_early symbolic."""
import itertools
import z3
from ..common import Finding
from ..pyvc.sym import *
from ..pyvc.driver import Program, explore, call_function
from ..pyvc.interp import SObj, HList, HDict, Engine
from .leaf_proofs import DEBUG_CONTRACTS


def _agg_report(rep, prop, fnq, agg):
    n = 0
    for clause, a in sorted(agg.items()):
        oid = f"{prop}/pyvc/{fnq}/{clause}"
        n += 1
        if a["bad"] is None:
            rep.discharged_ob(oid, "pyvc-paths+z3", a["secs"], sample=f"{oid} ({a['n']} cases)")
        else:
            what, detail = a["bad"]
            rep.failed_ob(Finding(prop, oid, f"{fnq}|{clause}", f"{fnq}: {what} [{detail}]", replay={"clause": clause, **{k: str(v) for k, v in detail.items()}}, replayed=False))
    return n


def _valid(pc, goal):
    """pc => goal ?"""
    import time
    s = z3.Solver()
    s.set("timeout", 30000)
    t0 = time.time()
    for c in pc:
        s.add(c)
    s.add(z3.Not(goal))
    r = s.check()
    return r == z3.unsat, time.time() - t0, (s.model() if r == z3.sat else None)


def prove_direct_jump(rep, nmfu, program, prop):
    fnq = "CodegenCtx._transition_will_directly_jump"
    rep.fn(fnq)
    M = nmfu.ActionOverrideMode
    modes = list(M)
    STRICT = z3.Bool("flag_STRICT_DONE")
    agg = {}

    def record(clause, ok, what, detail, secs=0.0):
        a = agg.setdefault(clause, {"n": 0, "bad": None, "secs": 0.0})
        a["n"] += 1
        a["secs"] += secs
        if not ok and a["bad"] is None:
            a["bad"] = (what, detail)
    combos = [()] + [(m,) for m in modes] + list(itertools.product(modes, repeat=2))
    for combo in combos:
        for tgt_accepting in (False, True):
            for excl in (False, True):
                FT = z3.Bool("ft")

                def body(eng, combo=combo, tgt_accepting=tgt_accepting, excl=excl, FT=FT):
                    acc = SObj(nmfu.DFState, {"transitions": HList([])})
                    other = SObj(nmfu.DFState, {"transitions": HList([])})
                    acts = [SObj(nmfu.CallHook, {"name": f"a{i}", "__mode": m}) for i, m in enumerate(combo)]
                    tr = SObj(nmfu.DFTransition, {"on_values": HList(["x"]), "target": acc if tgt_accepting else other, "is_fallthrough": FT, "error_handling": False, "actions": HList(acts)})
                    dfa = SObj(nmfu.DFA, {"states": HList([other, acc]), "starting_state": other, "accepting_states": HList([acc])})
                    me = SObj(nmfu.CodegenCtx, {"dfa": dfa})
                    fl = {f: (STRICT if f is nmfu.ProgramFlag.STRICT_DONE_TOKEN_GENERATION else z3.Bool("flag_" + f.name)) for f in nmfu.ProgramFlag}
                    eng.class_store.setdefault(nmfu.ProgramData, {})["_flags"] = HDict(fl)
                    v, _ = call_function(eng, fnq, [tr, excl], self_obj=me)
                    return v, {}
                cs = dict(DEBUG_CONTRACTS)
                cs["Action.get_target_override_mode"] = lambda eng, a, kw: a[0].fields["__mode"]
                detail = {"modes": [m.name for m in combo], "target_accepting": tgt_accepting, "excl_fall": excl}
                for r in explore(program, body, contracts=cs, fork_functions="*"):
                    if r.exits or r.dead is not False:
                        record("no-exception", False, f"raises {[e.exc_cls.__name__ for e in r.exits]}", detail)
                        continue
                    record("no-exception", True, "", detail)
                    got = r.value
                    gotb = got if z3.is_bool(got) else z3.BoolVal(bool(got))
                    all_none = all(m is M.NONE for m in combo)
                    want = z3.And(z3.Or(z3.Not(FT), z3.BoolVal(excl)), z3.Or(z3.BoolVal(not tgt_accepting), STRICT), z3.BoolVal(all_none))
                    ok, secs, model = _valid(r.pc, gotb == want)
                    record("jumps-directly-exactly-when-allowed", ok,
                           "the decision differs from: (not a fall-through or excl_fall) and (target not accepting or strict done tokens) and every action reports NONE"
                           + (f"; e.g. {model}" if model is not None else ""), detail, secs)
    return _agg_report(rep, prop, fnq, agg)


def prove_needs_end_check(rep, nmfu, program, prop):
    fnq = "CodegenCtx._needs_end_check"
    rep.fn(fnq)
    ZL = z3.Bool("flag_ZERO_LEN")
    agg = {}

    def record(clause, ok, what, detail, secs=0.0):
        a = agg.setdefault(clause, {"n": 0, "bad": None, "secs": 0.0})
        a["n"] += 1
        a["secs"] += secs
        if not ok and a["bad"] is None:
            a["bad"] = (what, detail)
    shapes = [[], [0], [1], [2], [0, 1], [1, 0], [1, 1], [2, 1], [0, 0, 2]]      # number of actions per transition
    for shape in shapes:
        for ft_acc in itertools.product((False, True), repeat=2):
            E = []

            def body(eng, shape=shape, ft_acc=ft_acc, E=E):
                del E[:]
                acc = SObj(nmfu.DFState, {"transitions": HList([])})
                other = SObj(nmfu.DFState, {"transitions": HList([])})
                trs = []
                for ti, na in enumerate(shape):
                    acts = []
                    for ai in range(na):
                        b = z3.Bool(f"early_{ti}_{ai}")
                        E.append(b)
                        acts.append(SObj(nmfu.CallHook, {"name": f"a{ti}_{ai}", "__early": b}))
                    # the kind of the transition and of its target must not matter: first transition fall-through / into an accepting state
                    trs.append(SObj(nmfu.DFTransition, {"on_values": HList(["x"]), "target": acc if (ft_acc[1] and ti == 0) else other, "is_fallthrough": bool(ft_acc[0] and ti == 0),
                                                       "error_handling": False, "actions": HList(acts)}))
                dfa = SObj(nmfu.DFA, {"states": HList([other, acc]), "starting_state": other, "accepting_states": HList([acc]), "__all": HList(trs)})
                me = SObj(nmfu.CodegenCtx, {"dfa": dfa})
                fl = {f: (ZL if f is nmfu.ProgramFlag.ZERO_LEN_INPUT_SUPPORT else z3.Bool("flag_" + f.name)) for f in nmfu.ProgramFlag}
                eng.class_store.setdefault(nmfu.ProgramData, {})["_flags"] = HDict(fl)
                v, _ = call_function(eng, fnq, [], self_obj=me)
                return v, {}
            cs = dict(DEBUG_CONTRACTS)
            cs["DFA.all_transitions"] = lambda eng, a, kw: a[0].fields["__all"]
            cs["Action.may_return_early"] = lambda eng, a, kw: a[0].fields["__early"]
            detail = {"actions_per_transition": shape, "first_is_fallthrough": ft_acc[0], "first_enters_accepting": ft_acc[1]}
            for r in explore(program, body, contracts=cs, fork_functions="*"):
                if r.exits or r.dead is not False:
                    record("no-exception", False, f"raises {[e.exc_cls.__name__ for e in r.exits]}", detail)
                    continue
                record("no-exception", True, "", detail)
                got = r.value
                gotb = got if z3.is_bool(got) else z3.BoolVal(bool(got))
                want = z3.Or(ZL, *E) if E else ZL
                ok, secs, model = _valid(r.pc, gotb == want)
                record("end-check-exactly-when-an-empty-chunk-can-arrive", ok,
                       "the decision differs from: zero-length input support is on, or some action of some transition (whatever its kind or target) may return early"
                       + (f"; e.g. {model}" if model is not None else ""), detail, secs)
    return _agg_report(rep, prop, fnq, agg)


def run(rep, prop):
    from .. import common
    nmfu = common.load_nmfu()
    program = Program(nmfu, common.repo_source())
    n = 0
    for fn, tag in ((prove_direct_jump, "CodegenCtx._transition_will_directly_jump"), (prove_needs_end_check, "CodegenCtx._needs_end_check")):
        try:
            n += fn(rep, nmfu, program, prop)
        except (Unsupported, NeedFork, KeyError, AttributeError) as e:
            rep.unavailable(f"{prop}/pyvc/{tag}/engine", f"outside the modelled Python subset: {type(e).__name__}: {e}")
    rep.trust("vf/pyvc semantics of the Python subset (heap objects, generators evaluated eagerly)")
    return n
