"""C16 - wait never fails and restarts (shape contract of WaitMatch.convert, bounded-exact)."""
from . import _rtcprops as R
from .c09 import _replay

TEXT = ("Shape contract of WaitMatch.convert evaluated on every call: every reachable transition of the inner pattern that led to the no-match handler now leads to the pattern start, is consuming exactly at the start state "
        "(fall-through elsewhere, so the offending byte is re-examined), keeps its actions; nothing else changed; every reachable non-accepting state is total over the 257 symbols and none leads to a handler. "
        "With the restart-automaton lemma (DESIGN.md C16) this gives: never fails, end-of-input never enters a handler, completes at the first restart-semantics match.")


def main():
    sel = lambda c: c.startswith("WaitMatch.convert")
    rep, outs = R.run_contracts("C16", sel, ["WaitMatch.convert"], ["dfa"], "join", TEXT, ["WaitMatch.convert"])
    return R.finish(rep, TEXT, "C16")


def replay(path):
    return _replay(path)
