"""C16 - wait never fails and restarts (shape contract of WaitMatch.convert, bounded-exact)."""
from . import _rtcprops as R
from .c09 import _replay

TEXT = ("Shape contract of WaitMatch.convert evaluated on every call: every reachable transition of the inner pattern that led to the no-match handler now leads to the pattern start, is consuming exactly at the start state "
        "(fall-through elsewhere, so the offending byte is re-examined), keeps its actions; nothing else changed; every reachable non-accepting state is total over the 257 symbols and none leads to a handler. "
        "With the restart-automaton lemma (DESIGN.md C16) this gives: never fails, end-of-input never enters a handler, completes at the first restart-semantics match.")


TEXT2 = (" Proved (pyvc, all transitions / literals / action lists): the body of the retargeting loop of WaitMatch.convert, for an arbitrary pair handed out by transitions_pointing_to, "
         "re-targets the transition to the pattern start, marks it error handling, makes it consuming with the per-character actions exactly at the start state and leaves kind and actions alone elsewhere, "
         "touches nothing else, and leaves states outside the waited-for machine alone; literal inner machines (DirectMatch / CaseDirectMatch) reach the handler only by fall-through error transitions. "
         "Assumed: transitions_pointing_to returns the reachable (state, transition) pairs whose target is the handler (checked at run time by the rtc contract above)."
         " The contract above is on the machine the front end builds. What the optimised machines and the emitted C do with the same wait statements is checked by running the real generated parser "
         "(-O0 and -O3) on all inputs up to a bound and on inputs guided by the reading, against the restart-semantics reading of the reference interpreter (vf/c01): bounded.")


def main():
    import multiprocessing, os
    from .. import common, gen
    from ..common import Finding
    from . import c01
    # "nothing else changed" has to survive the joins made after the wait was built: a later join that edits a state it was not given
    # (e.g. through a symbol list shared between a transition and its copy) takes the wait's restart transitions apart
    sel = lambda c: c.startswith("WaitMatch.convert") or c == "DFA.append_after/frame"
    rep, outs = R.run_contracts("C16", sel, ["WaitMatch.convert"], ["dfa"], "join", TEXT, ["WaitMatch.convert"])
    # per-iteration contract of the retargeting loop, discharged from the real AST for an arbitrary (state, transition) pair (pyvc); the
    # inner machines of literal patterns hand over only fall-through error transitions to the handler (chain shape, proved as well)
    from . import leaf_proofs
    from ..pyvc.driver import Program
    nm = common.load_nmfu()
    leaf_proofs.run(rep, "C16", ["WaitMatch", "pointing_to", "DirectMatch", "CaseDirectMatch"], nm, Program(nm, common.repo_source()))
    # an optional that begins with a wait holds *copies* of the wait's first transitions: the copy must own its symbol and action lists
    # (DFTransition.copy, proved for all symbol / action segments), or a later join edits the wait's restart transitions through the copy
    try:
        from . import c01_proofs
        c01_proofs._transition_copy(rep, nm, Program(nm, common.repo_source()), "C16")
    except Exception as e:
        rep.unavailable("C16/pyvc/DFTransition.copy/engine", f"{type(e).__name__}: {e}")
    # the compiled (optimised) parsers on the wait programs
    ps = [{"name": p["name"], "src": p["src"]} for p in gen.wait_programs()]
    thorough = common.tier() == "thorough"
    jobs = [(p, [["-O0"], ["-O3"]] + ([["-O1"], ["-O2"]] if thorough else []), 1500 if thorough else 500, 1200 if thorough else 300, common.seed(), None) for p in ps]
    with multiprocessing.get_context("fork").Pool(min(16, os.cpu_count() or 4)) as pool:
        results = pool.map(c01._work, jobs, chunksize=2)
    src_of = {p["name"]: p["src"] for p in ps}
    n = nprog = 0
    for o in results:
        if o["status"] == "checked":
            nprog += 1
        n += o["checked"]
        for b in o["bad"] + o["known"]:
            rep.bounded_violation(Finding("C16", f"C16/compiled/{o['name']}", f"{o['name']}|{' '.join(b['flags'])}|{b['input']}|{'+'.join(b['kinds'])}",
                                          f"{o['name']} [{' '.join(b['flags'])}] input {b['input']}: {b['msg'][:400]}",
                                          replay={"source": src_of[o["name"]], "flags": b["flags"], "input": b["input"]}, replayed=True))
    rep.bounded_count("wait programs: inputs on which the generated parser was compared with the restart-semantics reading", n)
    rep.coverage["wait_programs_run"] = nprog
    rep.fn("DfaCompileCtx._optimize_shortcircuit_fallthroughs (on wait statements)")
    return R.finish(rep, TEXT + TEXT2, "C16")


def replay(path):
    import json
    d = json.load(open(path))["input"]
    if "input" in d:
        from . import c01
        return c01.replay(path)
    return _replay(path)
