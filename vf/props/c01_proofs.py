"""C01, proved part: the front-end functions that carry *where an action is performed* - discharged from the real AST by pyvc
for all action lists (arbitrary segments) and all actions.

 * Match.attach                     - an action goes to exactly one of start/char/finish according to its mode, at the end of that
                                      list (program order is kept), the other two lists are untouched;
 * ActionNode.set_next / adopt_actions_from, ActionSinkNode.set_next (through InterruptableActionNode and MatchNode)
                                    - adoption is a partition without loss, duplication or reordering: the adopting node ends up
                                      with `its own actions ++ the adopted ones` and with the adopted node's successor;
 * InterruptableActionNode.convert  - the interrupting action (yield) alone on the first fall-through, the following actions on the
                                      second, nothing consumed; without successor the machine ends in a fresh accepting state;
 * MatchNode._adopt_actions         - each adopted action is attached to the match exactly once, in order (per-iteration);
 * DFTransition.copy                - same symbols/actions/target/kind in lists of its own (no aliasing with the original);
 * DFTransition.attach              - present ++ new (new ++ present with prepend), in order, nothing else changes, returns self.
The literal/end builders (DirectMatch, CaseDirectMatch, EndMatch) are proved in leaf_proofs.py and counted here as well.
append_after and the composite converts are NOT reached (aliased graphs of unbounded shape): they stay under the run-time contracts."""
import ast
import z3
from ..common import Finding
from ..pyvc.sym import *
from ..pyvc.driver import Program, explore, call_function, run_stmts
from ..pyvc.interp import SObj, HList, HDict, Seg, Engine
from .leaf_proofs import Clauses, _items, _same, _tr, _names, DEBUG_CONTRACTS


def prove(rep, nmfu, program, prop="C01"):
    nob = 0
    old_ms = getattr(Engine, "mutable_sets", False)
    Engine.mutable_sets = True
    try:
        # each part on its own: a construct outside the modelled subset in one function must not drop the proofs of the others
        for part in (_attach, _adoption, _interruptable, _transition_copy, _transition_attach, _transition_from_key):
            try:
                nob += part(rep, nmfu, program, prop)
            except (Unsupported, NeedFork, KeyError, AttributeError) as e:
                rep.unavailable(f"{prop}/pyvc/front-end/{part.__name__.strip('_')}", f"outside the modelled Python subset: {type(e).__name__}: {e}")
    finally:
        Engine.mutable_sets = old_ms
    return nob


def _attach(rep, nmfu, program, prop):
    fnq = "Match.attach"
    rep.fn(fnq)
    n = 0
    AM = nmfu.ActionMode
    for mode in AM:
        def body(eng, mode=mode):
            S, C, F = Seg("start_actions"), Seg("char_actions"), Seg("finish_actions")
            act = SObj(nmfu.CallHook, {"name": "h"})
            me = SObj(nmfu.DirectMatch, {"start_actions": HList([S]), "char_actions": HList([C]), "finish_actions": HList([F]), "match_contents": "x"})
            call_function(eng, fnq, [act], self_obj=me)
            return (me, act, S, C, F), {}
        cs = dict(DEBUG_CONTRACTS)
        cs["CallHook.get_mode"] = lambda eng, a, kw, mode=mode: mode      # the action's mode is its contract: every mode is enumerated
        for ri, r in enumerate(explore(program, body, contracts=cs)):
            cl = Clauses(rep, prop, fnq, f"{mode.name}.{ri}", r.pc, None)
            if r.exits or r.dead is not False:
                cl.fail("no-exception", f"raises {[e.exc_cls.__name__ for e in r.exits]}")
                n += cl.n
                continue
            me, act, S, C, F = r.value
            want = {"start_actions": [S], "char_actions": [C], "finish_actions": [F]}
            tgt = {AM.AT_FINISH: "finish_actions", AM.EACH_CHARACTER: "char_actions"}.get(mode, "start_actions")
            want[tgt] = want[tgt] + [act]
            for k, v in want.items():
                cl.structural(f"{k}", _same(me.fields[k], v), f"mode {mode.name}: {k} is {_names(_items(me.fields[k]))}, expected {_names(v)}")
            n += cl.n
    return n


def _adoption(rep, nmfu, program, prop):
    n = 0
    # ActionNode.set_next: next is an action source (another ActionNode) / an ordinary node
    fnq = "ActionNode.set_next"
    rep.fn(fnq, "ActionNode.adopt_actions_from", "ActionSinkNode.set_next", "InterruptableActionNode._adopt_actions", "InterruptableActionNode._set_next", "MatchNode._adopt_actions")
    for kind in ("source", "plain"):
        def body(eng, kind=kind):
            A, B = Seg("own actions"), Seg("adopted actions")
            after = SObj(nmfu.MatchNode, {"match": None, "next": None})
            nxt = SObj(nmfu.ActionNode, {"actions": HList([B]), "next": after}) if kind == "source" else after
            me = SObj(nmfu.ActionNode, {"actions": HList([A]), "next": None})
            call_function(eng, fnq, [nxt], self_obj=me)
            return (me, nxt, after, A, B), {}
        for ri, r in enumerate(explore(program, body, contracts=DEBUG_CONTRACTS)):
            cl = Clauses(rep, prop, fnq, f"{kind}.{ri}", r.pc, None)
            if r.exits or r.dead is not False:
                cl.fail("no-exception", f"raises {[e.exc_cls.__name__ for e in r.exits]}")
                n += cl.n
                continue
            me, nxt, after, A, B = r.value
            if kind == "source":
                cl.structural("adopts-in-order", _same(me.fields["actions"], [A, B]), f"actions {_names(_items(me.fields['actions']))}, expected own ++ adopted")
                cl.structural("takes-successor", me.fields["next"] is after, "the adopting node must continue with the adopted node's successor")
            else:
                cl.structural("keeps-actions", _same(me.fields["actions"], [A]), "actions changed although nothing was adopted")
                cl.structural("links", me.fields["next"] is after, "next must be the node given")
            n += cl.n
    # ActionSinkNode.set_next through InterruptableActionNode
    fnq2 = "ActionSinkNode.set_next"
    for kind in ("source", "plain"):
        def body2(eng, kind=kind):
            A, B = Seg("following actions"), Seg("adopted actions")
            after = SObj(nmfu.MatchNode, {"match": None, "next": None})
            nxt = SObj(nmfu.ActionNode, {"actions": HList([B]), "next": after}) if kind == "source" else after
            me = SObj(nmfu.InterruptableActionNode, {"important_action": SObj(nmfu.CustomYieldAction, {}), "following_actions": HList([A]), "next": None})
            call_function(eng, fnq2, [nxt], self_obj=me)
            return (me, after, A, B), {}
        for ri, r in enumerate(explore(program, body2, contracts=DEBUG_CONTRACTS)):
            cl = Clauses(rep, prop, fnq2 + "[InterruptableActionNode]", f"{kind}.{ri}", r.pc, None)
            if r.exits or r.dead is not False:
                cl.fail("no-exception", f"raises {[e.exc_cls.__name__ for e in r.exits]}")
                n += cl.n
                continue
            me, after, A, B = r.value
            cl.structural("adopts-in-order", _same(me.fields["following_actions"], [A, B] if kind == "source" else [A]), f"following actions {_names(_items(me.fields['following_actions']))}")
            cl.structural("takes-successor", me.fields["next"] is after, "successor wrong")
            n += cl.n
    # MatchNode._adopt_actions: per-iteration (the loop attaches each action once, in order): the loop body is `self.match.attach(action)`
    node = program.proto.funcs["MatchNode._adopt_actions"]
    loops = [x for x in node.body if isinstance(x, ast.For)]
    cl = Clauses(rep, prop, "MatchNode._adopt_actions", "shape", [], None)
    ok = (len(node.body) == 1 and len(loops) == 1 and ast.unparse(loops[0].iter) == node.args.args[1].arg and len(loops[0].body) == 1
          and ast.unparse(loops[0].body[0]) == f"self.match.attach({loops[0].target.id})" and not loops[0].orelse)
    cl.structural("attaches-each-once-in-order", ok, "the body is not exactly `for a in actions: self.match.attach(a)` (each adopted action attached once, in order)")
    n += cl.n
    return n


def _interruptable(rep, nmfu, program, prop):
    fnq = "InterruptableActionNode.convert"
    rep.fn(fnq)
    n = 0
    Else = nmfu.DFTransition.Else
    for has_next in (False, True):
        def body(eng, has_next=has_next):
            Y = SObj(nmfu.CustomYieldAction, {})
            A = Seg("following actions")
            after_start = SObj(nmfu.DFState, {"transitions": HList([Seg("successor transitions")])})
            after_acc = SObj(nmfu.DFState, {"transitions": HList([])})
            after = SObj(nmfu.DFA, {"accepting_states": HList([after_acc]), "starting_state": after_start, "states": HList([after_start, after_acc])})
            nxt = SObj(nmfu.MatchNode, {"match": None, "next": None, "__dfa": after}) if has_next else None
            me = SObj(nmfu.InterruptableActionNode, {"important_action": Y, "following_actions": HList([A]), "next": nxt})
            v, _ = call_function(eng, fnq, [HDict({})], self_obj=me)
            return (v, me, Y, A, after, after_start, after_acc), {}
        cs = dict(DEBUG_CONTRACTS)
        cs["MatchNode.convert"] = lambda eng, a, kw: a[0].fields["__dfa"]     # successor's machine: opaque, by contract
        for ri, r in enumerate(explore(program, body, contracts=cs)):
            cl = Clauses(rep, prop, fnq, f"{'next' if has_next else 'last'}.{ri}", r.pc, None)
            if r.exits or r.dead is not False or r.value is None:
                cl.fail("no-exception", f"raises {[e.exc_cls.__name__ for e in r.exits]}")
                n += cl.n
                continue
            dfa, me, Y, A, after, after_start, after_acc = r.value
            states = _items(dfa.fields["states"]) if isinstance(dfa, SObj) else []
            s0 = dfa.fields["starting_state"] if isinstance(dfa, SObj) else None
            t0 = [_tr(t) for t in _items(s0.fields["transitions"])] if isinstance(s0, SObj) else []
            cl.structural("first-step.single-else", len(t0) == 1 and len(t0[0]["on"]) == 1 and t0[0]["on"][0] is Else and t0[0]["ft"] is True, "the start state must have exactly one fall-through Else transition")
            if len(t0) == 1:
                cl.structural("first-step.interrupt-alone", _same(t0[0]["actions"], [Y]), f"actions on the first step: {_names(t0[0]['actions'])}, expected the interrupting action alone")
                s1 = t0[0]["target"]
                t1 = [_tr(t) for t in _items(s1.fields["transitions"])] if isinstance(s1, SObj) else []
                cl.structural("second-step.single-else", isinstance(s1, SObj) and s1 is not s0 and len(t1) == 1 and len(t1[0]["on"]) == 1 and t1[0]["on"][0] is Else and t1[0]["ft"] is True,
                              "the second state must have exactly one fall-through Else transition")
                if len(t1) == 1:
                    cl.structural("second-step.following-actions", _same(t1[0]["actions"], [A]), f"actions on the second step: {_names(t1[0]['actions'])}, expected the following actions, once, in order")
                    tgt = t1[0]["target"]
                    if has_next:
                        cl.structural("continues-with-successor", tgt is after_start, "the second step must enter the successor's start state")
                        cl.structural("accepting-from-successor", _same(dfa.fields["accepting_states"], [after_acc]) and all(any(x is s for x in states) for s in (after_start, after_acc)),
                                      "the successor's states / accepting states must be taken over unchanged")
                    else:
                        cl.structural("ends-accepting", isinstance(tgt, SObj) and tgt not in (s0, s1) and _items(tgt.fields["transitions"]) == [] and _same(dfa.fields["accepting_states"], [tgt]),
                                      "without successor the machine must end in a fresh accepting state")
            n += cl.n
    return n


def _transition_copy(rep, nmfu, program, prop):
    """DFTransition.copy: the copy has the same symbols, actions, target and kind, in lists of its own - a later attach() to one of
    the two (chain_actions_into, the fall-through short-circuit) must not reach the other."""
    fnq = "DFTransition.copy"
    rep.fn(fnq)
    n = 0
    for ft in (False, True):
        for eh in (False, True):
            def body(eng, ft=ft, eh=eh):
                O, A = Seg("on_values"), Seg("actions")
                tgt = SObj(nmfu.DFState, {"transitions": HList([])})
                me = SObj(nmfu.DFTransition, {"on_values": HList([O]), "actions": HList([A]), "target": tgt, "is_fallthrough": ft, "error_handling": eh})
                v, _ = call_function(eng, fnq, [], self_obj=me)
                return (v, me, O, A, tgt), {}
            for ri, r in enumerate(explore(program, body, contracts=DEBUG_CONTRACTS)):
                cl = Clauses(rep, prop, fnq, f"ft={ft}.eh={eh}.{ri}", r.pc, None)
                if r.exits or r.dead is not False or not isinstance(r.value[0], SObj):
                    cl.fail("no-exception", f"raises {[e.exc_cls.__name__ for e in r.exits]}")
                    n += cl.n
                    continue
                v, me, O, A, tgt = r.value
                f, g = v.fields, me.fields
                cl.structural("is-a-new-transition", v is not me and v.cls is nmfu.DFTransition, "the copy must be a new DFTransition")
                cl.structural("same-symbols", _same(f.get("on_values", []), [O]) and _same(g["on_values"], [O]), "symbols differ / original changed")
                cl.structural("same-actions-in-order", _same(f.get("actions", []), [A]) and _same(g["actions"], [A]), "actions differ / original changed")
                cl.structural("own-symbol-list", f.get("on_values") is not g["on_values"], "the copy shares its on_values list with the original: DFState.transition edits it in place")
                cl.structural("own-action-list", f.get("actions") is not g["actions"], "the copy shares its actions list with the original: an attach() to one reaches the other")
                cl.structural("same-target-and-kind", f.get("target") is tgt and f.get("is_fallthrough") is ft and f.get("error_handling") is eh, "target / fall-through / error-handling flag differ")
                n += cl.n
    return n


def _transition_attach(rep, nmfu, program, prop):
    """DFTransition.attach: the given actions go behind the present ones (in front with prepend), in the order given, nothing is
    lost or duplicated, and nothing else of the transition changes; the transition itself is returned (the builders chain on it)."""
    fnq = "DFTransition.attach"
    rep.fn(fnq)
    n = 0
    for prepend in (False, True):
        for k in (0, 1, 2):
            def body(eng, prepend=prepend, k=k):
                O, A = Seg("on_values"), Seg("actions")
                new = [SObj(nmfu.CallHook, {"name": f"new{i}"}) for i in range(k)]
                tgt = SObj(nmfu.DFState, {"transitions": HList([])})
                me = SObj(nmfu.DFTransition, {"on_values": HList([O]), "actions": HList([A]), "target": tgt, "is_fallthrough": False, "error_handling": False})
                v, _ = call_function(eng, fnq, new, {"prepend": prepend}, self_obj=me)
                return (v, me, O, A, tgt, new), {}
            for ri, r in enumerate(explore(program, body, contracts=DEBUG_CONTRACTS)):
                cl = Clauses(rep, prop, fnq, f"prepend={prepend}.k={k}.{ri}", r.pc, None)
                if r.exits or r.dead is not False:
                    cl.fail("no-exception", f"raises {[e.exc_cls.__name__ for e in r.exits]}")
                    n += cl.n
                    continue
                v, me, O, A, tgt, new = r.value
                f = me.fields
                want = (new + [A]) if prepend else ([A] + new)
                cl.structural("actions-in-order", _same(f["actions"], want), f"actions {_names(_items(f['actions']))}, expected {'new ++ present' if prepend else 'present ++ new'}")
                cl.structural("frame", _same(f["on_values"], [O]) and f["target"] is tgt and f["is_fallthrough"] is False and f["error_handling"] is False, "symbols / target / kind changed")
                cl.structural("returns-self", v is me, "attach must return the transition")
                n += cl.n
    return n


def _transition_from_key(rep, nmfu, program, prop):
    """DFTransition.from_key (used when DFState.transition splits a transition): a new transition on the given symbols that inherits
    target, actions (in order, in a list of its own), fall-through and error-handling flag; the inherited transition is unchanged."""
    fnq = "DFTransition.from_key"
    rep.fn(fnq, "DFTransition.__init__", "DFTransition.to", "DFTransition.fallthrough", "DFTransition.handles_else")
    n = 0
    Else = nmfu.DFTransition.Else
    for ft in (False, True):
        for eh in (False, True):
            for kname, key in (("list", ["a", "b"]), ("one-char", "a"), ("else", Else), ("set", None)):
                def body(eng, ft=ft, eh=eh, key=key, kname=kname):
                    A = [SObj(nmfu.CallHook, {"name": "h0"}), SObj(nmfu.CallHook, {"name": "h1"})]
                    tgt = SObj(nmfu.DFState, {"transitions": HList([])})
                    inh = SObj(nmfu.DFTransition, {"on_values": HList(["x"]), "actions": HList(list(A)), "target": tgt, "is_fallthrough": ft, "error_handling": eh})
                    k = HList(list(key)) if kname == "list" else (frozenset({"a", "b"}) if kname == "set" else key)
                    v, _ = call_function(eng, fnq, [k, inh], self_obj=nmfu.DFTransition)
                    return (v, inh, A, tgt), {}
                rs = list(explore(program, body, contracts=DEBUG_CONTRACTS))
                cl = Clauses(rep, prop, fnq, f"{kname}.ft={ft}.eh={eh}", [], None)
                if len(rs) != 1 or rs[0].exits or rs[0].dead is not False or not isinstance(rs[0].value[0], SObj):
                    cl.fail("no-exception", "raises / forks")
                    n += cl.n
                    continue
                v, inh, A, tgt = rs[0].value
                f, g = v.fields, inh.fields
                on = _items(f.get("on_values", []))
                want_on = {"list": ["a", "b"], "one-char": ["a"], "else": [Else], "set": None}[kname]
                cl.structural("symbols", (sorted(on) == ["a", "b"]) if want_on is None else (len(on) == len(want_on) and all(x is y or x == y for x, y in zip(on, want_on))), f"symbols {on!r}")
                cl.structural("inherits", _same(f.get("actions", []), A) and f.get("target") is tgt and f.get("is_fallthrough") is ft and f.get("error_handling") is eh, "target / actions / kind not inherited")
                cl.structural("own-action-list", f.get("actions") is not g["actions"] and v is not inh, "the new transition shares its actions list with the inherited one")
                cl.structural("inherited-unchanged", _same(g["actions"], A) and _same(g["on_values"], ["x"]) and g["target"] is tgt, "the inherited transition was modified")
                n += cl.n
    return n


def run(rep, prop="C01"):
    from .. import common
    from . import leaf_proofs
    nmfu = common.load_nmfu()
    program = Program(nmfu, common.repo_source())
    n = 0
    try:
        n += prove(rep, nmfu, program, prop)
    except (Unsupported, NeedFork, KeyError, AttributeError) as e:
        rep.unavailable(f"{prop}/pyvc/front-end/engine", f"outside the modelled Python subset: {type(e).__name__}: {e}")
    n += leaf_proofs.run(rep, prop, ["DirectMatch", "CaseDirectMatch", "EndMatch"], nmfu, program)
    return n
