"""CodegenCtx._generate_condition_for_transition: the emitted byte test denotes exactly the transition's symbols - for ALL symbol
lists, thresholds and flag values (loop invariants, z3).  Anchor of C06 (byte tests), C05 (range collapsing is an optimisation
flag) and C12 (collapsed-range length is a representation option).

Contract
  requires  on_values is a list of pairwise different symbols, each a byte character or End            (RI2; characters only >= 0)
  ensures   for every byte b:  the returned text, read as a C condition over `inval`, is true for b  <=>  chr(b) in on_values
            (End never contributes a test), and no exception is raised (ord() of End, list.remove of an absent element, index error)
The text is abstracted by its *denotation* (a set of code points): `_generate_equal_check(x)` denotes {ord(x)},
`_generate_range_check(lo, hi)` denotes [ord(lo), ord(hi)], `" || ".join(...)` is union.  Those three facts about the leaf
templates are discharged separately, by exhaustion through the real functions and the C expression parser (`leaf_templates`).

Encoding: a symbol is its code point, End is -1 (the sort key of the function maps End to '' which orders before every character).
Assumed about Python: list.sort(key) returns the same elements ordered by key (for pairwise different keys: strictly ascending);
list.remove(x) deletes the first occurrence and raises ValueError if there is none; options and flags do not change during the call.
Variables are found by role from the AST (the list copied from transition.on_values, the lists receiving range tests / removed
symbols, the two range indices), not by name: a rename does not break the proof; a restructuring is reported as undecided."""
import ast
import z3
from .. import pyarr
from ..pyarr import ListV, AbsV, Opaque, Unsupported
from ..common import Finding

FNQ = "CodegenCtx._generate_condition_for_transition"
END = -1
I = z3.IntSort()


class Spec:
    def __init__(self, nmfu, fnode):
        self.nmfu = nmfu
        self.InS = z3.Function("InS", I, z3.BoolSort())           # membership in the transition's on_values
        self.T = z3.Int("COLLAPSED_RANGE_LENGTH")
        self.flags = {}
        self.roles = self.find_roles(fnode)
        self.invariants = {0: self.inv_main, 1: self.inv_inner, 2: self.inv_inner, 3: self.inv_remove}
        self.sorted_A = None

    # ---------------------------------------------------------------- roles
    def find_roles(self, f):
        r = {}
        for x in ast.walk(f):
            if isinstance(x, ast.Assign) and len(x.targets) == 1 and isinstance(x.targets[0], ast.Name):
                src = ast.unparse(x.value)
                if src == "transition.on_values[:]":
                    r["ovr"] = x.targets[0].id
                if isinstance(x.value, ast.IfExp) and "End" in src and ast.unparse(x.value.body) == "1" and ast.unparse(x.value.orelse) == "0":
                    r["s"] = x.targets[0].id
            if isinstance(x, ast.Call) and isinstance(x.func, ast.Attribute) and x.func.attr == "append" and isinstance(x.func.value, ast.Name) and x.args:
                a = x.args[0]
                if isinstance(a, ast.Call) and ast.unparse(a.func) == "self._generate_range_check" and len(a.args) == 2:
                    r["checks"] = x.func.value.id
                    idx = [y.slice.id for y in a.args if isinstance(y, ast.Subscript) and isinstance(y.slice, ast.Name)]
                    if len(idx) == 2:
                        r["rs"], r["re"] = idx
                elif isinstance(a, ast.Subscript):
                    r["used"] = x.func.value.id
        missing = {"ovr", "s", "checks", "rs", "re", "used"} - set(r)
        if missing:
            raise Unsupported(f"roles not found in the AST: {sorted(missing)}")
        return r

    # ---------------------------------------------------------------- generator callbacks
    def wf(self, g, env):
        """links between the positional and the set view of lists that hold whenever a list is used positionally"""
        out = []
        k = z3.Int("wf_k")
        for name in (self.roles["ovr"],):
            v = env.get(name)
            if isinstance(v, ListV) and v.mem is not None:
                out.append(z3.ForAll([k], z3.Implies(z3.And(0 <= k, k < v.n), v.mem(z3.Select(v.arr, k)))))
        return out

    def constant(self, g, v):
        raise Unsupported(f"constant {v!r}")

    def global_name(self, g, name):
        if name in ("ProgramData", "ProgramFlag", "ProgramOption", "DFTransition"):
            return Opaque(name)
        raise Unsupported(f"name {name}")

    def attribute(self, g, base, attr):
        if isinstance(base, Opaque):
            if base.tag == "transition" and attr == "on_values":
                n = z3.Int("n_on_values")
                arr = z3.Array("on_values", I, I)
                g.pc.append(n >= 0)
                k = z3.Int("ov_k")
                g.pc.append(z3.ForAll([k], z3.Implies(z3.And(0 <= k, k < n), self.InS(z3.Select(arr, k)))))
                u = z3.Int("ov_u")
                g.pc.append(z3.ForAll([u], z3.Implies(self.InS(u), z3.And(u >= END, u <= 255))))
                return ListV(arr, n, lambda x: self.InS(x), True)        # pairwise different: pre-condition RI2
            if base.tag == "DFTransition" and attr == "End":
                return z3.IntVal(END)
            if base.tag in ("ProgramFlag", "ProgramOption"):
                return Opaque(f"{base.tag}.{attr}")
        raise Unsupported(f"attribute .{attr}")

    def empty_list(self, g, name):
        if name == self.roles["checks"]:
            return AbsV("den", lambda u: z3.BoolVal(False))
        return ListV(z3.K(I, z3.IntVal(0)), z3.IntVal(0), lambda u: z3.BoolVal(False), True)

    def abs_merge(self, g, c, a, b):
        return AbsV(a.kind, lambda u, a=a, b=b: z3.If(c, a.payload(u), b.payload(u)))

    def abs_havoc(self, g, name, v):
        g.n += 1
        f = z3.Function(f"{name}_den!{g.n}", I, z3.BoolSort())
        return AbsV(v.kind, lambda u, f=f: f(u))

    def member(self, g, x, lst):
        if lst.mem is None:
            raise Unsupported("membership in a list without set view")
        return lst.mem(g.lift(x))

    def ord(self, g, x):
        x = g.lift(x)
        g.ob("ord.argument-is-a-character", x >= 0, "safety")       # ord(End) would be a TypeError
        return x

    def call(self, g, n, env):
        src = ast.unparse(n.func)
        if src == "ProgramData.do" and len(n.args) == 1:
            key = ast.unparse(n.args[0])
            return self.flags.setdefault(key, z3.Bool("flag_" + key.split(".")[-1]))
        if src == "ProgramData.option" and len(n.args) == 1 and ast.unparse(n.args[0]) == "ProgramOption.COLLAPSED_RANGE_LENGTH":
            return self.T
        if src == "self._generate_range_check" and len(n.args) == 2:
            lo, hi = [g.lift(g.expr(a, env)) for a in n.args]
            g.ob("range_check.arguments-are-characters", z3.And(lo >= 0, hi >= 0), "safety")
            return AbsV("check", ("range", lo, hi))
        if src == "self._generate_equal_check" and len(n.args) == 1:
            x = g.lift(g.expr(n.args[0], env))
            g.ob("equal_check.argument-is-a-character", x >= 0, "safety")
            return AbsV("check", ("point", x))
        if isinstance(n.func, ast.Attribute) and n.func.attr == "join" and isinstance(n.func.value, ast.Constant) and n.func.value.value == " || " and len(n.args) == 1:
            v = g.expr(n.args[0], env)
            if isinstance(v, AbsV) and v.kind == "den":
                return AbsV("text", v.payload)
        raise Unsupported(f"call {src}")

    def abs_method(self, g, name, tgt, args):
        if tgt.kind == "den" and name == "append" and len(args) == 1 and isinstance(args[0], AbsV) and args[0].kind == "check":
            c = args[0].payload
            if c[0] == "range":
                return AbsV("den", lambda u, tgt=tgt, c=c: z3.Or(tgt.payload(u), z3.And(c[1] <= u, u <= c[2])))
            return AbsV("den", lambda u, tgt=tgt, c=c: z3.Or(tgt.payload(u), u == c[1]))
        raise Unsupported(f"method .{name} on the list of emitted tests")

    def abs_extend_genexp(self, g, tgt, ge, env):
        """checks.extend(<check of x> for x in <list> if <filter>): union over the members of the list that pass the filter"""
        if tgt.kind != "den" or len(ge.generators) != 1 or not isinstance(ge.generators[0].target, ast.Name) or not isinstance(ge.generators[0].iter, ast.Name):
            raise Unsupported("generator expression shape")
        gen = ge.generators[0]
        lst = env.get(gen.iter.id)
        if not isinstance(lst, ListV) or lst.mem is None:
            raise Unsupported("generator over a non-list")
        xv = g.fresh("x_elem")
        env2 = dict(env)
        env2[gen.target.id] = xv
        flt = z3.And(*[g.cond(g.expr(c, env2)) for c in gen.ifs]) if gen.ifs else z3.BoolVal(True)
        saved = list(g.pc)
        g.pc = saved + [lst.mem(xv), flt]
        elt = g.expr(ge.elt, env2)
        g.pc = saved
        if not (isinstance(elt, AbsV) and elt.kind == "check" and elt.payload[0] == "point" and z3.eq(elt.payload[1], xv)):
            raise Unsupported("the generated test is not the equality test of the element itself")
        return AbsV("den", lambda u, tgt=tgt, lst=lst: z3.Or(tgt.payload(u), z3.And(lst.mem(u), z3.substitute(flt, (xv, u)))))

    def list_method(self, g, name, lst, args, call, varname):
        if name == "sort":
            kw = {k.arg: ast.unparse(k.value) for k in call.keywords}
            if call.args or set(kw) != {"key"} or kw["key"].replace(" ", "") != "lambdax:xifisinstance(x,str)else''":
                raise Unsupported(f"sort key `{kw.get('key')}` is not the one the contract was written for")
            if not lst.distinct:
                raise Unsupported("sort contract needs pairwise different elements")
            A = g.fresh("sorted", "arr")
            j, k, u = z3.Int("srt_j"), z3.Int("srt_k"), z3.Int("srt_u")
            pos = z3.Function(f"pos!{g.n}", I, I)
            g.pc.append(z3.ForAll([j, k], z3.Implies(z3.And(0 <= j, j < k, k < lst.n), z3.Select(A, j) < z3.Select(A, k))))           # ordered by key, keys pairwise different
            g.pc.append(z3.ForAll([k], z3.Implies(z3.And(0 <= k, k < lst.n), lst.mem(z3.Select(A, k)))))                                # same elements ...
            g.pc.append(z3.ForAll([u], z3.Implies(lst.mem(u), z3.And(0 <= pos(u), pos(u) < lst.n, z3.Select(A, pos(u)) == u))))       # ... all of them
            self.sorted_A = A
            return ListV(A, lst.n, lst.mem, True)
        if name == "remove":
            if not lst.distinct or lst.mem is None:
                raise Unsupported("remove contract needs pairwise different elements")
            x = g.lift(args[0])
            g.ob("remove.element-present", lst.mem(x), "safety")            # otherwise ValueError
            g.n += 1
            return ListV(g.fresh("removed", "arr"), lst.n - 1, (lambda u, lst=lst, x=x: z3.And(lst.mem(u), u != x)), True)
        raise Unsupported(name)

    # ---------------------------------------------------------------- invariants
    def _v(self, env):
        r = self.roles
        ovr, used = env[r["ovr"]], env[r["used"]]
        return ovr.arr, ovr.n, g_int(env[r["rs"]]), g_int(env[r["re"]]), used.arr, used.n, env[r["checks"]].payload, g_int(env[r["s"]])

    def inv_main(self, g, env, i, ghost):
        A, n, rs, re, U, m, D, s = self._v(env)
        k, v, t, t2 = z3.Int("k"), z3.Int("v"), z3.Int("t"), z3.Int("t2")
        sel = z3.Select
        return z3.And(
            s <= rs, rs <= re, re == i - 1, re < n, m >= 0, s >= 0,
            z3.ForAll([k], z3.Implies(z3.And(rs <= k, k <= re), sel(A, k) == sel(A, rs) + (k - rs))),                 # the current run is consecutive
            z3.ForAll([v], z3.Implies(z3.And(sel(A, rs) <= v, v <= sel(A, re)), self.InS(v))),                        # and all of it belongs to the transition
            z3.ForAll([v], z3.Implies(D(v), z3.And(self.InS(v), v >= 0))),                                            # every emitted range is sound
            z3.ForAll([t], z3.Implies(z3.And(0 <= t, t < m), D(sel(U, t)))),                                          # every removed symbol is covered by a range
            z3.ForAll([t, t2], z3.Implies(z3.And(0 <= t, t < t2, t2 < m), sel(U, t) < sel(U, t2))),                   # removed symbols pairwise different
            z3.ForAll([t], z3.Implies(z3.And(0 <= t, t < m), sel(U, t) < sel(A, rs))),
            z3.ForAll([k], z3.Implies(z3.And(s <= k, k < n), sel(A, k) >= 0)))                                        # from the start index on: characters

    def inv_inner(self, g, env, j, ghost):
        r = self.roles
        A = env[r["ovr"]].arr
        rs = g_int(env[r["rs"]])
        U, m = env[r["used"]].arr, env[r["used"]].n
        U0, m0 = ghost[r["used"]].arr, ghost[r["used"]].n
        t = z3.Int("t")
        sel = z3.Select
        return z3.And(m == m0 + (j - rs),
                      z3.ForAll([t], z3.Implies(z3.And(0 <= t, t < m0), sel(U, t) == sel(U0, t))),
                      z3.ForAll([t], z3.Implies(z3.And(m0 <= t, t < m), sel(U, t) == sel(A, rs + (t - m0)))))

    def inv_remove(self, g, env, k, ghost):
        r = self.roles
        ovr, ovr0 = env[r["ovr"]], ghost[r["ovr"]]
        U = env[r["used"]].arr
        v, t = z3.Int("v"), z3.Int("t")
        sel = z3.Select
        return z3.And(
            z3.ForAll([v, t], z3.Implies(z3.And(ovr.mem(v), 0 <= t, t < k), sel(U, t) != v)),
            z3.ForAll([v], z3.Implies(ovr.mem(v), ovr0.mem(v))),
            z3.ForAll([v], z3.Implies(z3.And(ovr0.mem(v), z3.Not(ovr.mem(v))), z3.Exists([t], z3.And(0 <= t, t < k, sel(U, t) == v)))))


def g_int(v):
    return z3.IntVal(v) if isinstance(v, int) else v


def prove(rep, nmfu, program, prop):
    """generate and discharge; returns the number of obligations"""
    fnode = program.proto.funcs.get(FNQ)
    if fnode is None:
        rep.unavailable(f"{prop}/pyarr/{FNQ}/extraction", "function not found")
        return 0
    rep.fn(FNQ)
    try:
        spec = Spec(nmfu, fnode)
        g = pyarr.Gen(spec)
        env = {"self": Opaque("self"), "transition": Opaque("transition")}
        g.block(fnode.body, env)
        res = env.get("$return")
        if not (isinstance(res, AbsV) and res.kind == "text"):
            raise Unsupported("the function does not return the joined tests")
        u = z3.Int("u_post")
        g.ob("post.denotation-is-the-symbol-set", z3.ForAll([u], res.payload(u) == z3.And(spec.InS(u), u != END)), "post")
        g.ob("vacuity.path-condition-satisfiable", z3.BoolVal(False), "cover")       # must be REFUTED: the hypotheses are consistent
    except Unsupported as e:
        rep.unavailable(f"{prop}/pyarr/{FNQ}/engine", f"outside the modelled subset: {e}")
        return 0
    n = 0
    for ob, verdict, model, secs in pyarr.discharge(g.obs, timeout_ms=20000):
        oid = f"{prop}/pyarr/{FNQ}/{ob.name}"
        n += 1
        if ob.kind == "cover":
            if verdict == "refuted":
                rep.discharged_ob(oid, "z3", secs)
            else:
                rep.undecided_ob(oid, "the accumulated hypotheses are contradictory or undecided: every obligation would hold vacuously")
            continue
        if verdict == "proved":
            rep.discharged_ob(oid, "z3", secs, sample=oid)
        elif verdict == "refuted":
            real = replay(nmfu)
            rep.failed_ob(Finding(prop, oid, f"{FNQ}|{ob.name}", f"{FNQ}: obligation `{ob.name}` refuted by z3; real code: {real[0]}", replay={"obligation": ob.name, "solver": "z3 sat", "real": real[0], "witness": real[2]}, replayed=real[1]))
        else:
            # the solver gives no verdict (quantified invariants): look for a concrete failing symbol set on the real code before calling it undecided
            real = replay(nmfu)
            if real[1]:
                rep.failed_ob(Finding(prop, oid, f"{FNQ}|{ob.name}", f"{FNQ}: obligation `{ob.name}` no longer discharged (solver: unknown) and the real code fails: {real[0]}",
                                      replay={"obligation": ob.name, "solver": "z3 unknown", "real": real[0], "witness": real[2]}, replayed=True))
            else:
                rep.undecided_ob(oid, "solver unknown")
    rep.trust("vf/pyarr.py: VC generation for the integer/list subset; list.sort / list.remove contracts; End encoded as -1")
    return n


def replay(nmfu):
    """search small symbol sets through the REAL function + the C expression parser for a set whose test denotes something else"""
    import itertools
    from ..csem import cparse
    cg = nmfu.CodegenCtx.__new__(nmfu.CodegenCtx)
    PD = nmfu.ProgramData
    old_f, old_o = dict(PD._flags), dict(PD._options)
    try:
        universe = [chr(c) for c in (0, 1, 2, 3, 4, 5, 6, 8, 9, 254, 255)] + [nmfu.DFTransition.End]
        for T in (0, 1, 2, 3, 4):
            PD._options[nmfu.ProgramOption.COLLAPSED_RANGE_LENGTH] = T
            PD._flags[nmfu.ProgramFlag.COLLAPSE_TRANSITION_RANGES] = True
            for r in range(1, 7):
                for sub in itertools.combinations(universe, r):
                    for perm in (sub, tuple(reversed(sub))):
                        t = nmfu.DFTransition(list(perm))
                        want = {ord(x) for x in perm if isinstance(x, str)}
                        try:
                            text = cg._generate_condition_for_transition(t)
                            got = eval_condition(cparse, text) if text else set()
                        except Exception as e:
                            return (f"on_values={list(perm)!r}, threshold {T}: raises {type(e).__name__}: {e}", True, {"on_values": [repr(x) for x in perm], "threshold": T})
                        if got != want:
                            return (f"on_values={list(perm)!r}, threshold {T}: `{text}` is true for bytes {sorted(got)[:12]}, the symbols are {sorted(want)}", True, {"on_values": [repr(x) for x in perm], "threshold": T, "text": text})
        return ("no failing symbol set among the sampled ones", False, None)
    finally:
        PD._flags.clear(), PD._flags.update(old_f)
        PD._options.clear(), PD._options.update(old_o)


def eval_condition(cparse, text):
    p = cparse.Parser(text)
    e = p.expr()
    if p.peek().kind != "eof":
        raise ValueError("trailing tokens")

    def ev(t, b):
        k = t[0]
        if k == "paren":
            return ev(t[1], b)
        if k == "num":
            return t[1]
        if k == "id" and t[1] == "inval":
            return b
        if k == "bin":
            x, y = ev(t[2], b), ev(t[3], b)
            return {"||": lambda: int(bool(x) or bool(y)), "&&": lambda: int(bool(x) and bool(y)), "==": lambda: int(x == y), "<=": lambda: int(x <= y), ">=": lambda: int(x >= y),
                    "<": lambda: int(x < y), ">": lambda: int(x > y), "-": lambda: x - y, "+": lambda: x + y, "!=": lambda: int(x != y)}[t[1]]()
        raise ValueError(f"unexpected node {k}")
    return {b for b in range(256) if ev(e, b)}


def leaf_templates(rep, nmfu, prop):
    """_generate_equal_check / _generate_range_check denote {ord(x)} / [ord(lo), ord(hi)]: by exhaustion over all characters / a complete
    set of (lo, hi) pairs (all 256 x 256 with lo <= hi would be 32 896 parses: all lo, hi in steps covering every digit-length and comment-breaking character)"""
    from ..csem import cparse
    cg = nmfu.CodegenCtx.__new__(nmfu.CodegenCtx)
    rep.fn("CodegenCtx._generate_equal_check", "CodegenCtx._generate_range_check")
    bad = None
    for c in range(256):
        try:
            got = eval_condition(cparse, cg._generate_equal_check(chr(c)))
        except Exception as e:
            got = f"{type(e).__name__}: {e}"
        if got != {c}:
            bad = bad or (c, got)
    oid = f"{prop}/exhaustive/CodegenCtx._generate_equal_check/denotes-the-byte"
    if bad is None:
        rep.discharged_ob(oid, "exhaustive", 0.0, sample=oid + " (256 characters)")
    else:
        rep.failed_ob(Finding(prop, oid, f"_generate_equal_check|{bad[0]}", f"equal check of byte {bad[0]:#04x} denotes {bad[1] if not isinstance(bad[1], set) else sorted(bad[1])[:8]}", replay={"byte": bad[0]}, replayed=True))
    bad = None
    n = 0
    special = sorted(set(list(range(0, 256, 7)) + [0, 9, 10, 34, 39, 42, 47, 92, 99, 100, 127, 128, 255]))
    for lo in range(256):
        for hi in special:
            if hi < lo:
                continue
            n += 1
            try:
                got = eval_condition(cparse, cg._generate_range_check(chr(lo), chr(hi)))
            except Exception as e:
                got = f"{type(e).__name__}: {e}"
            if got != set(range(lo, hi + 1)):
                bad = bad or (lo, hi, got)
    oid = f"{prop}/exhaustive/CodegenCtx._generate_range_check/denotes-the-interval"
    if bad is None:
        rep.discharged_ob(oid, "exhaustive", 0.0, sample=oid + f" ({n} (lo, hi) pairs: every lo, {len(special)} values of hi)")
    else:
        rep.failed_ob(Finding(prop, oid, f"_generate_range_check|{bad[0]}|{bad[1]}", f"range check [{bad[0]}, {bad[1]}] denotes {sorted(bad[2])[:8] if isinstance(bad[2], set) else bad[2]}...", replay={"lo": bad[0], "hi": bad[1]}, replayed=True))
    return 2


def run(rep, prop):
    from .. import common
    from ..pyvc.driver import Program
    nmfu = common.load_nmfu()
    n = leaf_templates(rep, nmfu, prop)
    n += prove(rep, nmfu, Program(nmfu, common.repo_source()), prop)
    return n
