"""C14 - math expressions evaluate as C arithmetic over the parser's variables.

Per generated expression (well-typed trees over every operator and atom, printed with minimal parentheses):
  (1) the tree nmfu parses (ParseCtx._parse_math_expr / IntegerCondition) denotes the same term as the intended tree under C precedence and
      associativity  [z3, operators other than + - * uninterpreted];
  (2) the emitted C expression, parsed with real C precedence, denotes the term of nmfu's tree (csem translation validation, family refine);
  (3) declared C types follow width/signedness (decl obligations of csem) and `_integer_containing` is proved by pyvc for all maxval / widths.
Bounded over the generated expressions; exact per expression."""
import random, multiprocessing as mp, traceback
import z3
from .. import common
from ..common import Report, Finding
from ..csem import ops
from ..pyvc.sym import prove as zprove, model_value, to_int, as_sstr, Unsupported as Unsupported_, NeedFork as NeedFork_
from ..pyvc.driver import Program, explore, call_function
from ..pyvc.interp import SObj

HEAD = """out int n = 0;
out int m = 0;
out int{unsigned, size 1} b;
out int{signed, size 2} w;
out bool f = false;
out bool g = false;
out str[8] x;
out unterminated str[6] u;
hook h;
"""

INT_ATOMS = ["n", "m", "b", "w", "x.len", "$last", "7", "0x1f", "0b101", "'a'", "'\\n'", "x[0]", "x[n]", "u[2]", "0x80000000", "0xFFFFFFFF", "2147483648"]
BOOL_ATOMS = ["f", "g", "true", "false"]
# precedence levels (higher binds tighter), C style
PREC = {"||": 1, "&&": 2, "|": 3, "^": 4, "&": 5, "==": 6, "!=": 6, "<": 6, ">": 6, "<=": 6, ">=": 6, "<<": 7, ">>": 7, "+": 8, "-": 8, "*": 9, "/": 9, "%": 9}


class G:
    def __init__(self, rnd):
        self.r = rnd

    def int_expr(self, d):
        r = self.r
        if d <= 0 or r.random() < 0.25:
            a = r.choice(INT_ATOMS)
            if a in ("x[n]",) and r.random() < 0.5:
                return ("idx", "x", self.int_expr(d - 1))
            return ("atom", a)
        k = r.random()
        if k < 0.45:
            ops_ = ["+", "-"] if r.random() < 0.5 else ["*", "/", "%"]
            n = r.randint(2, 4)
            return ("chain", [r.choice(ops_) for _ in range(n - 1)], [self.int_expr(d - 1) for _ in range(n)])
        if k < 0.6:
            return ("bin", r.choice(["<<", ">>"]), self.int_expr(d - 1), self.int_expr(d - 1))
        if k < 0.85:
            op = r.choice(["|", "^", "&"])
            n = r.randint(2, 3)
            return ("chain", [op] * (n - 1), [self.int_expr(d - 1) for _ in range(n)])
        return ("neg", self.int_expr(d - 1))

    def bool_expr(self, d):
        r = self.r
        if d <= 0 or r.random() < 0.2:
            return ("atom", r.choice(BOOL_ATOMS))
        k = r.random()
        if k < 0.35:
            op = r.choice(["||", "&&"])
            n = r.randint(2, 3)
            return ("chain", [op] * (n - 1), [self.bool_expr(d - 1) for _ in range(n)])
        if k < 0.85:
            return ("bin", r.choice(["==", "!=", "<", ">", "<=", ">="]), self.int_expr(d - 1), self.int_expr(d - 1))
        return ("not", self.bool_expr(d - 1))


def prec_of(t):
    k = t[0]
    if k in ("atom", "idx"):
        return 100
    if k in ("neg", "not"):
        return 50     # unary applies to atoms only in nmfu's grammar: operand is always parenthesised unless atomic
    if k == "bin":
        return PREC[t[1]]
    return PREC[t[1][0]]


def show(t, parent_prec=0, right_side=False):
    """minimal parentheses under C precedence/associativity (all binary operators left associative; comparisons and shifts non-chained)"""
    k = t[0]
    if k == "atom":
        return t[1]
    if k == "idx":
        return f"{t[1]}[{show(t[2])}]"
    if k in ("neg", "not"):
        inner = t[1]
        s = show(inner)
        if inner[0] not in ("atom", "idx"):
            s = "(" + s + ")"
        return ("-" if k == "neg" else "!") + s
    if k == "bin":
        p = PREC[t[1]]
        s = show(t[2], p, False) + " " + t[1] + " " + show(t[3], p, True)
    else:
        p = PREC[t[1][0]]
        s = show(t[2][0], p, False)
        for op, ch in zip(t[1], t[2][1:]):
            s += " " + op + " " + show(ch, p, True)
    if p < parent_prec or (p == parent_prec and right_side) or (p == parent_prec and p in (6, 7)):
        return "(" + s + ")"
    return s


def term(t, env):
    """meaning of the intended tree under C semantics (same operator encoding as csem/amach)"""
    k = t[0]
    if k == "atom":
        a = t[1]
        if a in ("n", "m", "b", "w", "f", "g"):
            return env[("c", a)]
        if a == "x.len":
            return env[("m", "x_counter")]
        if a == "$last":
            return env["inval"]
        if a == "true":
            return z3.IntVal(1)
        if a == "false":
            return z3.IntVal(0)
        if a.startswith("'"):
            body = a[1:-1]
            return z3.IntVal({"\\n": 10}.get(body, ord(body[-1])))
        if a.startswith("0x"):
            return z3.IntVal(int(a, 16))
        if a.startswith("0b"):
            return z3.IntVal(int(a[2:], 2))
        if "[" in a:
            name, idx = a[:-1].split("[")
            return term(("idx", name, ("atom", idx)), env)
        return z3.IntVal(int(a))
    if k == "idx":
        i = ops.b2i(term(t[2], env))
        size = {"x": 8, "u": 6}[t[1]]
        return z3.If(z3.And(i >= 0, i < size), z3.Select(env[("buf", t[1])], i), z3.IntVal(0))
    if k == "neg":
        return -ops.b2i(term(t[1], env))
    if k == "not":
        return z3.Not(ops.truth(term(t[1], env)))
    if k == "bin":
        return ops.binop(t[1], term(t[2], env), term(t[3], env))
    acc = term(t[2][0], env)
    for op, ch in zip(t[1], t[2][1:]):
        acc = ops.binop(op, acc, term(ch, env))
    return acc


INT_OPS = ["|", "^", "&", "<<", ">>", "+", "-", "*", "/", "%"]
CMP_OPS = ["==", "!=", "<", ">", "<=", ">="]


def _node(op, l, r):
    return ("bin", op, l, r) if op in ("<<", ">>") or op in CMP_OPS else ("chain", [op], [l, r])


def pair_trees():
    """every operator directly under / beside every other one (both nestings), every unary operator over every operator it admits: the
    seed-independent part of the expression set (a change that mistreats ONE operator combination must not depend on the seed to be seen)"""
    A, B, C = ("atom", "n"), ("atom", "m"), ("atom", "b")
    ints, bools = [], []
    for o1 in INT_OPS:
        for o2 in INT_OPS:
            ints.append(_node(o2, _node(o1, A, B), C))
            ints.append(_node(o2, A, _node(o1, B, C)))
        ints.append(("neg", _node(o1, A, B)))
        ints.append(_node(o1, ("neg", A), B))
        ints.append(_node(o1, A, ("neg", B)))
    ints.append(("neg", ("neg", A)))
    for c in CMP_OPS:
        bools.append(_node(c, A, B))
        bools.append(("not", _node(c, A, B)))
        bools.append(("not", ("not", _node(c, A, B))))
        for o in INT_OPS:
            bools.append(_node(c, _node(o, A, B), C))
            bools.append(_node(c, A, _node(o, B, C)))
        bools.append(_node(c, ("neg", A), B))
        for l in ("||", "&&"):
            bools.append(_node(l, _node(c, A, B), ("atom", "f")))
            bools.append(_node(l, ("atom", "f"), ("not", _node(c, A, B))))
    F, G_ = ("atom", "f"), ("atom", "g")
    for l1 in ("||", "&&"):
        bools.append(("not", _node(l1, F, G_)))
        bools.append(_node(l1, ("not", F), G_))
        for l2 in ("||", "&&"):
            bools.append(_node(l2, _node(l1, F, G_), ("atom", "true")))
            bools.append(_node(l2, F, _node(l1, G_, ("atom", "false"))))
    return ints, bools


def pair_programs():
    ints, bools = pair_trees()
    out = []
    k = max(len(bools), (len(ints) + 1) // 2)
    b1 = ("chain", ["||"], [("atom", "f"), ("not", ("atom", "g"))])
    for i in range(k):
        e1, e2, b2 = ints[(2 * i) % len(ints)], ints[(2 * i + 1) % len(ints)], bools[i % len(bools)]
        src = HEAD + "parser { " + f'"q"; n = [{show(e1)}]; "r"; f = [{show(b1)}]; "s"; if {show(b2)} {{ h(); }} "t"; x += [{show(e2)}]; "v"; if {show(e2)} {{ h(); }} "z"; ' + "}\n"
        out.append({"name": f"pair/{i}", "src": src, "args": [], "path": None, "trees": {"n": e1, "f": b1, "if": b2, "append": e2, "ifint": e2}})
    return out


def programs(n, seed):
    rnd = random.Random(seed * 977 + 11)
    out = pair_programs()
    for i in range(n):
        g = G(rnd)
        d = rnd.choice([1, 2, 2, 3])
        e1, b2, e2 = g.int_expr(d), g.bool_expr(d), g.int_expr(d)
        # nmfu only accepts boolean-typed operands when assigning to a bool output (comparisons are rejected there): keep to those
        b1 = ("chain", [rnd.choice(["||", "&&"])] * 2, [("atom", rnd.choice(BOOL_ATOMS)), ("not", ("atom", rnd.choice(BOOL_ATOMS))), ("atom", rnd.choice(BOOL_ATOMS))]) if rnd.random() < 0.7 else ("atom", rnd.choice(BOOL_ATOMS))
        src = HEAD + "parser { " + f'"q"; n = [{show(e1)}]; "r"; f = [{show(b1)}]; "s"; if {show(b2)} {{ h(); }} "t"; x += [{show(e2)}]; "v"; if {show(e2)} {{ h(); }} "z"; ' + "}\n"
        out.append({"name": f"expr/{i}", "src": src, "args": [], "path": None, "trees": {"n": e1, "f": b1, "if": b2, "append": e2, "ifint": e2}})
    return out


_CTX = {}


def _task(i):
    p = _CTX["programs"][i]
    nmfu = common.load_nmfu()
    from ..csem import tv
    out = {"name": p["name"], "results": [], "error": None, "rejected": None, "src": p["src"]}
    try:
        for flags in (["-O1"], ["-O1", "-funsafe-string-indexing"] if False else ["-O3"]):
            try:
                c = tv.compile_program(nmfu, p["src"], flags)
            except nmfu.NMFUError as e:
                try:
                    out["rejected"] = type(e).__name__ + ": " + str(e)[:120]
                except Exception as e2:
                    out["rejected"] = "INTERNAL while rendering " + type(e).__name__ + ": " + repr(e2)[:100]
                return out
            except tv.InternalCompilerError as e:
                out["rejected"] = "INTERNAL " + str(e)[:100]
                return out
            T = tv.TV(c)
            T.run()
            # (0) integer constants are emitted as plain decimal constants: in C a hexadecimal / octal constant or one with a suffix may have an
            #     unsigned type where the decimal constant of the same value is signed, which changes the arithmetic around it; the terms compared
            #     below treat a constant as its value, so the spelling is an obligation of its own
            from ..csem import cparse
            odd = sorted(set(t.text for t in cparse.tokenize(c.source) if t.kind == "num" and not __import__("re").fullmatch(r"0|[1-9][0-9]*", t.text)))
            out["results"].append(("refine", " ".join(flags) + "/constants-are-plain-decimal", "refuted" if odd else "proved",
                                   f"the emitted source spells integer constants as {odd[:4]}: their C type need not be the signed type of the decimal constant" if odd else "", 0.0))
            # (2) emitted C against nmfu's tree
            for r in T.results:
                if r.family in ("refine", "consume"):
                    out["results"].append(("refine", " ".join(flags) + "/" + r.oid, r.verdict, r.what, r.secs))
            if flags != ["-O1"]:
                continue
            # (1) nmfu's tree against the intended tree
            env = dict(T.sigma0)
            env["inval"] = T.inval0
            found = {}
            for st in c.cctx.dfa.states:
                for t in st.transitions:
                    for a in t.actions:
                        if isinstance(a, nmfu.SetTo) and a.into_storage.name == "n":
                            found["n"] = T.spec.ev(a.value_expr, env, env["inval"], "feed")
                        elif isinstance(a, nmfu.SetTo) and a.into_storage.name == "f":
                            found["f"] = T.spec.ev(a.value_expr, env, env["inval"], "feed")
                        elif isinstance(a, nmfu.AppendCharTo):
                            found["append"] = T.spec.ev(a.append_value, env, env["inval"], "feed")
                        elif isinstance(a, nmfu.ConditionalAction):
                            cond = a.conditions[0]
                            key = "if" if "if" not in found else "ifint"
                            found[key] = T.spec.cond(cond, env, env["inval"], "feed")
            for key, tree in p["trees"].items():
                oid = f"parse/{key}"
                if key not in found:
                    out["results"].append(("parse", oid, "unknown", f"action for {key} not found in the compiled machine", 0.0))
                    continue
                want = term(tree, env)
                got = found[key]
                if key in ("if", "ifint"):
                    goal = ops.truth(got) == ops.truth(want)
                elif key == "f":
                    goal = ops.truth(got) == ops.truth(want)
                else:
                    goal = ops.b2i(got) == ops.b2i(want)
                v, m, backend, secs = zprove([], goal, timeout_ms=20000)
                out["results"].append(("parse", oid, v, f"`{show(tree)}` is not parsed with C precedence/associativity" if v != "proved" else "", secs))
    except Exception:
        out["error"] = traceback.format_exc()[-1000:]
    return out


def integer_containing_proofs(rep, nmfu, program):
    fnq = "CodegenCtx._integer_containing"
    rep.fn(fnq)
    MAX = {"int8_t": 127, "int16_t": 32767, "int32_t": 2**31 - 1, "intmax_t": 2**63 - 1, "uint8_t": 255, "uint16_t": 65535, "uint32_t": 2**32 - 1, "uintmax_t": 2**64 - 1}
    m = z3.Int("maxval")
    for signed in (True, False):
        runs = explore(program, lambda eng: call_function(eng, fnq, [], {"maxval": m, "signed": signed}, self_obj=SObj(nmfu.CodegenCtx, {})))
        for ri, r in enumerate(runs):
            s = as_sstr(r.value).z3()
            names = [k for k in MAX if k.startswith("u") != signed]
            goal = z3.Or(*[z3.And(s == z3.StringVal(k), z3.Or(m <= MAX[k], k.endswith("max_t"))) for k in names])
            v, mod, backend, secs = zprove(r.pc + [m >= 0], goal)
            oid = f"C14/pyvc/{fnq}/maxval.{'signed' if signed else 'unsigned'}#{ri}"
            if v == "proved":
                rep.discharged_ob(oid, backend, secs)
            elif v == "refuted":
                k = model_value(mod, m)
                real = nmfu.CodegenCtx.__new__(nmfu.CodegenCtx)._integer_containing(k, signed)
                rep.failed_ob(Finding("C14", oid, f"{fnq}|{k}|{signed}", f"_integer_containing({k}, signed={signed}) = {real}: cannot hold {k} or has the wrong signedness", replay={"maxval": k, "signed": signed, "real": real}, replayed=MAX.get(real, 0) < k or real.startswith("u") == signed))
            else:
                rep.undecided_ob(oid, "unknown")
    # widths documented: 1, 2, 4, 8 bytes
    want = {(1, True): {"int8_t"}, (2, True): {"int16_t"}, (4, True): {"int32_t"}, (8, True): {"int64_t", "intmax_t"},
            (1, False): {"uint8_t"}, (2, False): {"uint16_t"}, (4, False): {"uint32_t"}, (8, False): {"uint64_t", "uintmax_t"}, (None, True): {"int32_t"}, (None, False): {"uint32_t"}}
    for (w, sg), names in want.items():
        runs = explore(program, lambda eng: call_function(eng, fnq, [], {"signed": sg, "width": w}, self_obj=SObj(nmfu.CodegenCtx, {})))
        oid = f"C14/pyvc/{fnq}/width{w}.{'signed' if sg else 'unsigned'}"
        r = runs[0]
        if len(runs) == 1 and not r.exits and r.value in names:
            rep.discharged_ob(oid, "pyvc-concrete")
        else:
            rep.failed_ob(Finding("C14", oid, f"{fnq}|width{w}|{sg}", f"width {w} signed={sg} maps to {r.value} / exits {[e.exc_cls.__name__ for e in r.exits]}, expected one of {sorted(names)}", replay={"width": w, "signed": sg}, replayed=True))


def main():
    rep = Report("C14", "proof")
    nmfu = common.load_nmfu()
    program = Program(nmfu, common.repo_source())
    rep.assume("lark", "smt", "csem", "arith")
    rep.trust("L-paren is not needed: the emitted C is re-parsed with real C precedence (vf/csem/cparse.py) per expression",
              "the expression printer/evaluator of vf/props/c14.py (intended meaning of the generated expression text under C precedence)")
    integer_containing_proofs(rep, nmfu, program)
    # rendering of EVERY expression tree: structural induction, one obligation set per node class (pyvc on the real AST; recursive calls by contract)
    from . import c14_proofs
    try:
        c14_proofs.prove(rep, nmfu, program)
    except (Unsupported_, NeedFork_) as e:
        rep.unavailable("C14/pyvc/CodegenCtx._generate_code_for_int_expr/engine", f"outside the modelled Python subset: {type(e).__name__}: {e}")
    thorough = common.tier() == "thorough"
    ps = programs(1500 if thorough else 160, common.seed())
    _CTX["programs"] = ps
    ctx = mp.get_context("fork")
    with ctx.Pool(16) as pool:
        outs = pool.map(_task, range(len(ps)), chunksize=2)
    nacc = 0
    for o in outs:
        if o["error"]:
            rep.undecided_ob(f"C14/expr/{o['name']}", o["error"][-300:])
            continue
        if o["rejected"]:
            # a rejection is a diagnosed error, not a mis-evaluation: noted only (internal errors belong to C18)
            if len(rep.notes) < 20:
                rep.notes.append(f"{o['name']}: rejected: {o['rejected'][:100]}")
            continue
        nacc += 1
        for (fam, oid, verdict, what, secs) in o["results"]:
            full = f"C14/{o['name']}/{oid}"
            if verdict == "proved":
                rep.discharged_ob(full, "z3" if secs else "structural", secs)
            elif verdict == "refuted":
                rep.failed_ob(Finding("C14", full, f"{o['name']}|{oid}", f"{o['name']}: {what}", replay={"source": o["src"], "obligation": oid}, replayed=(fam == "parse")))
            else:
                rep.undecided_ob(full, what or "unknown")
    rep.programs = nacc
    rep.fn("ParseCtx._parse_math_expr", "ParseCtx._parse_integer_expr", "IntegerCondition.__init__", "CodegenCtx._generate_code_for_int_expr", "CodegenCtx._generate_condition")
    rep.samples += [p["src"].split("parser")[1].strip()[:200] for p in ps[:3]]
    text = (f"{len(ps)} generated programs, each with 5 expressions (int assignment, bool assignment, if on a bool expression, character append, if on an int expression) over all operators "
            "(|| && | ^ & == != < > <= >= << >> + - * / % ! unary-) and atoms (outputs of several widths, .len, indexing with the out-of-range default, $last, dec/hex/bin/char literals, true/false), printed with minimal parentheses. "
            "Per expression: z3 proves the tree nmfu parsed equals the intended tree under C precedence/associativity, and csem+z3 prove the emitted C (parsed with real C precedence) equals nmfu's tree; "
            "declared C types checked against width/signedness; _integer_containing proved for all maxval. Bounded over the generated expressions. "
            "For ALL expression trees: _generate_code_for_int_expr proved by structural induction - per node class, the real function body executed from its AST with recursive calls replaced by the function's own contract "
            "renders text in which every child is directly enclosed in ( ) or [ ] and which parses, under the real C precedence table, to exactly the node's operator tree (children in order, left fold, the node's operators); "
            "atoms render to the documented lvalues; indexing is the guarded read. Enumerated completely for 1-4 operands, every operator, every use context, symbolic flags.")
    return rep.finish(text, checker_cmd="./check C14")


def replay(path):
    import json
    d = json.load(open(path))
    print(json.dumps(d["input"], indent=1)[:3000])
    return 0
