"""C03, proved part (for all programs): the capacity arithmetic every emitted bound is printed from, executed from the real AST (pyvc).

OutputStorage.effective_string_size: for every size and both terminator settings the result is `size - 1` for a terminated string and
  `size` otherwise - the capacity "excluding the terminator" that the append guards compare the counter with (z3, symbolic size).
CodegenCtx._generate_buflike_length_expr(out, include_null): for a string the printed bound is the decimal numeral of the effective size
  (include_null=True) or of the declared size (False); for a raw output it is `sizeof(state->c.NAME)`.
CodegenCtx._generate_buflike_index_expr(out, index): `state->c.NAME[index]` for a string, the byte view `((uint8_t *)&state->c.NAME)[index]`
  for a raw output - the index text sits directly inside the brackets.
CodegenCtx._get_state_object_out_declaration(out) for strings: `T NAME[size]` with the declared size when the string lives in the struct,
  `T * NAME` when strings are allocated dynamically; T is uint8_t exactly when strings-as-u8 is on, else char (all flag values).
Sizes for the printed forms: a fixed list of representative values (the numeral is produced by Python's str, which is not re-proved)."""
import z3
from ..common import Finding
from ..pyvc.sym import *
from ..pyvc.driver import Program, explore, call_function
from ..pyvc.interp import SObj, HList, HDict
from .leaf_proofs import DEBUG_CONTRACTS
from .codegen_proofs import _agg_report, _valid

SIZES = (1, 2, 3, 8, 255, 256, 257, 65535, 65536, 70000)


def _text(v):
    """concrete text of a pyvc string value, or None"""
    if isinstance(v, str):
        return v
    for attr in ("concrete", "value"):
        c = getattr(v, attr, None)
        if isinstance(c, str):
            return c
        if callable(c):
            try:
                r = c()
                if isinstance(r, str):
                    return r
            except Exception:
                pass
    try:
        from ..pyvc import sym as _s
        if hasattr(_s, "rope_text"):
            return _s.rope_text(v)
    except Exception:
        pass
    return None


def prove(rep, nmfu, program, prop="C03"):
    T = nmfu.OutputStorageType
    agg = {}

    def record(clause, ok, what, detail, secs=0.0):
        a = agg.setdefault(clause, {"n": 0, "bad": None, "secs": 0.0})
        a["n"] += 1
        a["secs"] += secs
        if not ok and a["bad"] is None:
            a["bad"] = (what, detail)
    n = 0
    # ---- effective_string_size, symbolic
    fnq = "OutputStorage.effective_string_size"
    rep.fn(fnq)
    SZ, NUL = z3.Int("str_size"), z3.Bool("str_null")

    def body(eng):
        o = SObj(nmfu.OutputStorage, {"type": T.STR, "name": "x", "str_size": SZ, "str_null": NUL})
        v, _ = call_function(eng, fnq, [], self_obj=o)
        return v, {}
    for r in explore(program, body, contracts=DEBUG_CONTRACTS, fork_functions="*"):
        if r.exits or r.dead is not False:
            record("no-exception", False, f"raises {[e.exc_cls.__name__ for e in r.exits]}", {})
            continue
        record("no-exception", True, "", {})
        got = r.value
        ok, secs, model = _valid(r.pc, got == SZ - z3.If(NUL, 1, 0))
        record("capacity-excludes-exactly-the-terminator", ok, "the effective size is not `size - 1` (terminated) / `size` (unterminated)" + (f"; e.g. {model}" if model is not None else ""), {}, secs)
    n += _agg_report(rep, prop, fnq, agg)
    agg.clear()
    # ---- printed bounds / accesses / declarations
    fl_names = ("ALLOCATE_STR_SPACE_DYNAMIC", "STRINGS_AS_U8")
    FL = {f: z3.Bool("flag_" + f.name) for f in nmfu.ProgramFlag}
    fnl, fni, fnd = "CodegenCtx._generate_buflike_length_expr", "CodegenCtx._generate_buflike_index_expr", "CodegenCtx._get_state_object_out_declaration"
    rep.fn(fnl, fni, fnd)

    def run1(fn, mk_args, storage):
        out = []

        def body(eng):
            eng.class_store.setdefault(nmfu.ProgramData, {})["_flags"] = HDict(dict(FL))
            me = SObj(nmfu.CodegenCtx, {"program_name": "p"})
            v, _ = call_function(eng, fn, mk_args(storage()), self_obj=me)
            return v, {}
        for r in explore(program, body, contracts=DEBUG_CONTRACTS, fork_functions="*"):
            out.append(r)
        return out
    for size in SIZES:
        for nul in (True, False):
            st = lambda size=size, nul=nul: SObj(nmfu.OutputStorage, {"type": T.STR, "name": "buf", "str_size": size, "str_null": nul, "default_value": None})
            for inc in (True, False):
                for r in run1(fnl, lambda o, inc=inc: [o, inc], st):
                    d = {"size": size, "terminated": nul, "include_null": inc}
                    if r.exits or r.dead is not False:
                        record("length.no-exception", False, "raises", d)
                        continue
                    want = str(size - (1 if nul else 0)) if inc else str(size)
                    record("length.string-bound-is-the-numeral-of-the-capacity", _text(r.value) == want, f"printed bound {_text(r.value)!r}, expected {want!r}", d)
            for r in run1(fnd, lambda o: [o], st):
                d = {"size": size, "terminated": nul}
                if r.exits or r.dead is not False:
                    record("decl.no-exception", False, "raises", d)
                    continue
                dyn = not feasible(r.pc + [z3.Not(FL[nmfu.ProgramFlag.ALLOCATE_STR_SPACE_DYNAMIC])])
                stat = not feasible(r.pc + [FL[nmfu.ProgramFlag.ALLOCATE_STR_SPACE_DYNAMIC]])
                u8 = not feasible(r.pc + [z3.Not(FL[nmfu.ProgramFlag.STRINGS_AS_U8])])
                ch = not feasible(r.pc + [FL[nmfu.ProgramFlag.STRINGS_AS_U8]])
                record("decl.path-decides-both-flags", (dyn or stat) and (u8 or ch), "a declaration path does not depend on the storage / character-type flags as a whole", d)
                ty = "uint8_t" if u8 else "char"
                want = f"{ty} * buf" if dyn else f"{ty} buf[{size}]"
                record("decl.array-of-the-declared-size-or-pointer", _text(r.value) == want, f"declaration {_text(r.value)!r}, expected {want!r}", {**d, "dynamic": dyn, "u8": u8})
    raw = lambda: SObj(nmfu.OutputStorage, {"type": T.RAW, "name": "buf", "raw_underlying": "uint32_t"})
    sst = lambda: SObj(nmfu.OutputStorage, {"type": T.STR, "name": "buf", "str_size": 8, "str_null": True, "default_value": None})
    for inc in (True, False):
        for r in run1(fnl, lambda o, inc=inc: [o, inc], raw):
            ok = not r.exits and r.dead is False and _text(r.value) == "sizeof(state->c.buf)"
            record("length.raw-bound-is-sizeof", ok, f"printed bound {_text(r.value) if not r.exits else 'raises'!r}", {"include_null": inc})
    for kind, mk, want in (("string", sst, "state->c.buf[IDX]"), ("raw", raw, "((uint8_t *)&state->c.buf)[IDX]")):
        for r in run1(fni, lambda o: [o, "IDX"], mk):
            ok = not r.exits and r.dead is False and _text(r.value) == want
            record(f"index.{kind}-access", ok, f"access {_text(r.value) if not r.exits else 'raises'!r}, expected {want!r}", {})
    n += _agg_report(rep, prop, "CodegenCtx (capacity texts)", agg)
    return n


def run(rep, prop="C03"):
    from .. import common
    nmfu = common.load_nmfu()
    program = Program(nmfu, common.repo_source())
    try:
        n = prove(rep, nmfu, program, prop)
    except (Unsupported, NeedFork, KeyError, AttributeError) as e:
        rep.unavailable(f"{prop}/pyvc/capacity-arithmetic/engine", f"outside the modelled Python subset: {type(e).__name__}: {e}")
        return 0
    rep.trust("vf/pyvc semantics of the Python subset; Python's str() of an int is the decimal numeral")
    return n
