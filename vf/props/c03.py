from ._tvprops import main_for, replay_for


def main():
    return main_for("C03")


def replay(path):
    return replay_for("C03", path)
