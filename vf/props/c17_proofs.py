"""C17, proved part (for all flag values): ParseCtx._parse_match_expr on an `end` pattern, executed from the real AST (pyvc) with the
EOF-support flag symbolic: it is refused with a diagnosed error (IllegalParseTree) exactly when EOF support is off, and is an EndMatch
(whose machine lists End only - proved under the same property from EndMatch.convert) exactly when it is on.  Together with the API
contract (end() is declared iff EOF support, C11) a parser without EOF support has no way to see end-of-input at all."""
import z3
from ..common import Finding
from ..pyvc.sym import *
from ..pyvc.driver import Program, explore, call_function
from ..pyvc.interp import SObj, HList, HDict
from .leaf_proofs import DEBUG_CONTRACTS
from .codegen_proofs import _agg_report


def prove(rep, nmfu, program, prop="C17"):
    import lark
    fnq = "ParseCtx._parse_match_expr"
    rep.fn(fnq)
    EOF = z3.Bool("flag_EOF_SUPPORT")
    agg = {}

    def record(clause, ok, what, detail):
        a = agg.setdefault(clause, {"n": 0, "bad": None, "secs": 0.0})
        a["n"] += 1
        if not ok and a["bad"] is None:
            a["bad"] = (what, detail)
    tree = nmfu.parser.parse('parser { end; }\n', start="start")
    end_expr = next(tree.find_data("end_expr"))

    def body(eng):
        fl = {f: (EOF if f is nmfu.ProgramFlag.EOF_SUPPORT else z3.Bool("flag_" + f.name)) for f in nmfu.ProgramFlag}
        eng.class_store.setdefault(nmfu.ProgramData, {})["_flags"] = HDict(fl)
        me = SObj(nmfu.ParseCtx, {"bound_argument_stack": HList([]), "macros": HDict({}), "active_macro": None})
        v, _ = call_function(eng, fnq, [end_expr], self_obj=me)
        return v, {}
    seen_on = seen_off = False
    for r in explore(program, body, contracts=DEBUG_CONTRACTS, fork_functions="*"):
        can_off = feasible(r.pc + [z3.Not(EOF)])
        can_on = feasible(r.pc + [EOF])
        refused = len(r.exits) >= 1 and all(issubclass(e.exc_cls, nmfu.NMFUError) for e in r.exits)
        is_end = not r.exits and r.dead is False and isinstance(r.value, SObj) and r.value.cls is nmfu.EndMatch
        if can_off:
            seen_off = True
            record("refused-without-eof-support", refused, f"a run with EOF support off does not end in a diagnosed error (exits: {[e.exc_cls.__name__ for e in r.exits]}, value {r.value!r})", {})
        if can_on:
            seen_on = True
            record("is-an-end-match-with-eof-support", is_end, f"a run with EOF support on does not give an EndMatch (value {r.value!r}, exits {[e.exc_cls.__name__ for e in r.exits]})", {})
    record("both-settings-reached", seen_on and seen_off, "one setting of EOF support was never explored (vacuous)", {})
    return _agg_report(rep, prop, fnq, agg)


def run(rep, prop="C17"):
    from .. import common
    nmfu = common.load_nmfu()
    program = Program(nmfu, common.repo_source())
    try:
        return prove(rep, nmfu, program, prop)
    except (Unsupported, NeedFork, KeyError, AttributeError) as e:
        rep.unavailable(f"{prop}/pyvc/ParseCtx._parse_match_expr/engine", f"outside the modelled Python subset: {type(e).__name__}: {e}")
        return 0
