"""Properties decided (bounded-exact grade) by run-time contracts on the real DFA-building functions."""
import time
from .. import common, progs, gen
from ..common import Report, Finding
from ..rtc import run as rrun, core, dfa_contracts

FLAGSETS = [["-O1", "-feof-support", "-fyield-support"], ["-O3", "-feof-support", "-fyield-support"]]


def program_set(kind):
    thorough = common.tier() == "thorough"
    ps = progs.corpus(include_fail=True)
    ps += gen.generated_programs(3000 if thorough else 400, common.seed())
    if kind in ("join", "all"):
        ps += gen.pair_programs(thorough)
        ps += gen.ambig_programs() if thorough else gen.ambigif_programs()
    if kind in ("case", "all"):
        ps += gen.case_programs() + gen.case_programs(empty_bodies=True)[::3]
    if kind in ("wait", "join", "all"):
        ps += gen.wait_programs()
    return ps


def installers(names):
    table = {"dfa": dfa_contracts.install, "merge": dfa_contracts.install_merge, "fallthrough": dfa_contracts.install_fallthrough}
    try:
        from ..rtc import more_contracts
        table.update(more_contracts.INSTALLERS)
    except ImportError:
        pass
    return [table[n] for n in names if n in table]


def run_contracts(prop, selectors, required, inst, kind, explanation, fns, level="other", flagsets=None, post=None, rep=None):
    """selectors: predicate on contract id -> belongs to this property. required: contract ids that must have been evaluated (vacuity guard)."""
    rep = rep or Report(prop, level)
    rep.fn(*fns)
    rep.assume("debug")
    rep.trust("vf/rtc wrappers evaluate the post-conditions exactly (257 symbols per touched state) on the calls made while compiling the program set only: bounded over programs")
    ps = program_set(kind)
    outs = rrun.run(ps, flagsets or FLAGSETS, installers(inst), post=post)
    evals = {}
    outcomes = {}
    for o in outs:
        if o["error"]:
            rep.undecided_ob(f"{prop}/rtc/{o['prog']}", "checker crash: " + o["error"][-300:])
            continue
        k = (o["outcome"] or "?").split(":")[0]
        outcomes[k] = outcomes.get(k, 0) + 1
        if k == "internal" and outcomes[k] <= 5:
            # the compilation died with an internal exception (of the compiler - the subject of C18 - or of a wrapper whose signature no
            # longer fits the wrapped function): the contracts were not evaluated on this program, which is not a verdict
            rep.undecided_ob(f"{prop}/rtc/{o['prog']}/compiled-under-contract", f"[{' '.join(o['flags'])}] {o['outcome'][:200]}")
        for c, n in (o["evals"] or {}).items():
            if selectors(c):
                evals[c] = evals.get(c, 0) + n
        for f in o["fails"] or []:
            if not selectors(f["contract"]):
                continue
            label = f"{o['prog']} [{' '.join(o['flags'])}]"
            src = next((p["src"] for p in ps if p["name"] == o["prog"]), "")
            rep.bounded_violation(Finding(prop, f"{prop}/rtc/{f['contract']}", f"{o['prog']}|{' '.join(o['flags'])}|{f['contract']}",
                                  f"{label}: contract {f['contract']} violated: {f['msg']}",
                                  replay={"program": o["prog"], "flags": o["flags"], "source": src if o["prog"].startswith(("gen/", "pair/", "case/", "rx/", "macro/")) else None, "contract": f["contract"], "detail": f["detail"]},
                                  replayed=True))
    for c, n in evals.items():
        rep.bounded_count(c, n)
    for rq in required:
        if not any(c.startswith(rq) for c in evals):
            rep.undecided_ob(f"{prop}/vacuity/{rq}", "contract was never evaluated (reference bound before the wrapper was installed, or no program reaches it)")
    rep.coverage["compilations"] = outcomes
    rep.coverage["programs_in_set"] = len(ps)
    rep.coverage["flagsets"] = flagsets or FLAGSETS
    rep.samples = [f"{c}: {n} exact evaluations" for c, n in sorted(evals.items())][:12]
    return rep, outs


def finish(rep, explanation, prop):
    rep.coverage["grade"] = "bounded-exact: contracts evaluated exactly per call on the real functions; bounded by the set of compiled programs. NOT counted under obligations/discharged."
    # failed contract evaluations still count as violations
    rep.obligations = max(rep.obligations, 0) + 0
    return rep.finish(explanation, checker_cmd=f"./check {prop}", require_obligations=False)
