"""C09, proved part: the duplicate-transition guard of DFState.transition (default mode: no allow_replace) - from the real AST (pyvc).

A state with k = 1 or 2 existing transitions (arbitrary symbol lists as segments, symbolic fall-through / error flags, targets equal
to or different from the new transition's target: every combination) receives an arbitrary new transition N.  Whether N's symbols
overlap those of an existing transition is left open (a fresh Boolean per pair: both outcomes are explored).  Obligations per path:
  * refusal-justified : IllegalDFAStateError is raised only if the first overlapped transition differs from N in target, kind or error mark;
  * no-silent-conflict: a normal return never leaves N next to an overlapped transition of different behaviour: on a normal return either
                        nothing overlaps, or the first overlapped transition behaves exactly like N and the state is left untouched;
  * symbols-present   : without overlap N is appended, or merged into a transition with identical actions/target/kind/mark whose symbol list
                        becomes the union (or [Else] when either side lists Else); nothing else changes.
Bounded in k (the guard stops at the first overlapped transition, so k = 2 already shows an overlap behind the first one)."""
import itertools
import z3
from ..common import Finding
from ..pyvc.sym import *
from ..pyvc.sym import prove as zprove
from ..pyvc.driver import Program, explore, call_function
from ..pyvc.interp import SObj, HList, HDict, Seg, Engine
from .leaf_proofs import _items, _same, DEBUG_CONTRACTS

FNQ = "DFState.transition"


def _bools(e):
    out, todo = [], [e]
    while todo:
        x = todo.pop()
        if z3.is_const(x) and z3.is_bool(x) and x.decl().kind() == z3.Z3_OP_UNINTERPRETED:
            out.append(x)
        todo.extend(x.children())
    return out


def prove(rep, nmfu, program, prop="C09"):
    rep.fn(FNQ)
    agg = {}

    def record(clause, ok, what, detail):
        a = agg.setdefault(clause, {"n": 0, "bad": None})
        a["n"] += 1
        if not ok and a["bad"] is None:
            a["bad"] = (what, detail)

    def smt(clause, pc, goal, what, detail):
        v, m, backend, secs = zprove(pc, goal)
        record(clause, v == "proved", what + (f" (model {m})" if v == "refuted" else " (solver unknown)" if v != "proved" else ""), detail)
    old_ms = getattr(Engine, "mutable_sets", False)
    Engine.mutable_sets = True
    try:
        for k in (1, 2):
            for same_target in itertools.product([False, True], repeat=k):
                for same_actions in itertools.product([False, True], repeat=k):
                    def body(eng, k=k, same_target=same_target, same_actions=same_actions):
                        tgN = SObj(nmfu.DFState, {"transitions": HList([])})
                        AN = Seg("new actions")
                        N = SObj(nmfu.DFTransition, {"on_values": HList([Seg("new symbols")]), "target": tgN, "is_fallthrough": z3.Bool("ftN"), "error_handling": z3.Bool("ehN"), "actions": HList([AN])})
                        ts = []
                        for i in range(k):
                            tg = tgN if same_target[i] else SObj(nmfu.DFState, {"transitions": HList([])})
                            ts.append(SObj(nmfu.DFTransition, {"on_values": HList([Seg(f"symbols{i}")]), "target": tg, "is_fallthrough": z3.Bool(f"ft{i}"), "error_handling": z3.Bool(f"eh{i}"),
                                                               "actions": HList([AN] if same_actions[i] else [Seg(f"actions{i}")])}))
                        q = SObj(nmfu.DFState, {"transitions": HList(list(ts))})
                        before = [(t, list(t.fields["on_values"].items), list(t.fields["actions"].items)) for t in ts]
                        call_function(eng, FNQ, [N], self_obj=q)
                        return dict(q=q, N=N, ts=ts, before=before), {}
                    for r in explore(program, body, contracts=DEBUG_CONTRACTS, fork_functions="*"):
                        detail = {"existing": k, "same target": same_target, "same actions": same_actions}
                        ov = sorted({str(v): v for c in r.pc for v in _bools(c) if str(v).startswith("seg_member")}.items(), key=lambda kv: int(kv[0].split("!")[1]))
                        ov = [v for _, v in ov]
                        ftN, ehN = z3.Bool("ftN"), z3.Bool("ehN")
                        differs = [z3.Or(not same_target[i], z3.Bool(f"ft{i}") != ftN, z3.Bool(f"eh{i}") != ehN) for i in range(k)]
                        raised = [e for e in r.exits if e.exc_cls.__name__ == "IllegalDFAStateError"]
                        other = [e for e in r.exits if e.exc_cls.__name__ != "IllegalDFAStateError"]
                        if other:
                            record("no-internal-error", False, f"raises {[e.exc_cls.__name__ for e in other]}", detail)
                            continue
                        record("no-internal-error", True, "", detail)
                        # the overlap Booleans appear in the order in which the guard looks at the existing transitions; it stops at the first overlap
                        first = None
                        for i, v in enumerate(ov[:k]):
                            if not feasible(r.pc + [z3.Not(v)]):
                                first = i
                                break
                        if raised:
                            if first is None:
                                record("refusal-justified", False, "the transition is refused although no existing transition is known to overlap it", detail)
                            else:
                                smt("refusal-justified", r.pc, differs[first], "the transition is refused although the overlapped transition behaves exactly like it", detail)
                            continue
                        if r.value is None or r.dead is not False:
                            continue
                        b = r.value
                        now = _items(b["q"].fields["transitions"])
                        if first is not None:
                            smt("no-silent-conflict", r.pc, z3.Not(differs[first]), "the call returns normally although the new transition overlaps one that behaves differently", detail)
                            untouched = _same(now, b["ts"]) and all(_same(t.fields["on_values"], on) and _same(t.fields["actions"], ac) for t, on, ac in b["before"])
                            record("overlap-same-behaviour.state-untouched", untouched, "the state was modified although the new transition duplicates an existing one", detail)
                        else:
                            appended = _same(now, b["ts"] + [b["N"]]) and all(_same(t.fields["on_values"], on) for t, on, ac in b["before"])
                            merged = False
                            if _same(now, b["ts"]):
                                changed = [(t, on) for t, on, ac in b["before"] if not _same(t.fields["on_values"], on)]
                                if len(changed) == 1:
                                    t, on = changed[0]
                                    i = b["ts"].index(t)
                                    new_on = _items(t.fields["on_values"])
                                    Else = nmfu.DFTransition.Else
                                    is_union = set(map(id, new_on)) == set(map(id, on + _items(b["N"].fields["on_values"]))) or (len(new_on) == 1 and new_on[0] is Else)
                                    # equal action lists: structurally the same segments, or the path decided `actions == actions` (symbolic equality of two arbitrary segments) to be true
                                    eqs = [v for c in r.pc for v in _bools(c) if str(v).startswith("seg_eq")]
                                    acts_equal = same_actions[i] or any(not feasible(r.pc + [z3.Not(v)]) for v in eqs)
                                    merged = is_union and same_target[i] and acts_equal and not feasible(r.pc + [z3.Or(z3.Bool(f"ft{i}") != ftN, z3.Bool(f"eh{i}") != ehN)])
                            record("symbols-present", appended or merged, "without overlap the new transition must be appended, or merged into a transition of identical behaviour and actions", detail)
    finally:
        Engine.mutable_sets = old_ms
    n = 0
    for clause, a in sorted(agg.items()):
        oid = f"{prop}/pyvc/{FNQ}/{clause}"
        n += 1
        if a["bad"] is None:
            rep.discharged_ob(oid, "z3" if clause in ("refusal-justified", "no-silent-conflict") else "pyvc-paths", 0.0, sample=f"{oid} ({a['n']} paths)")
        else:
            what, detail = a["bad"]
            real = replay(nmfu)
            rep.failed_ob(Finding(prop, oid, f"{FNQ}|{clause}", f"{FNQ}: {what} [{detail}]; real code: {real[0]}", replay={"clause": clause, **{k_: str(v) for k_, v in detail.items()}, "real": real[0]}, replayed=real[1]))
    if not agg:
        rep.undecided_ob(f"{prop}/pyvc/{FNQ}/vacuity", "no path")
    return n


def replay(nmfu):
    """the guard on concrete transitions: overlapping symbol, different target -> must raise; same behaviour -> no change"""
    try:
        a, b = nmfu.DFState(), nmfu.DFState()
        q = nmfu.DFState()
        q.transition(nmfu.DFTransition(["x", "y"]).to(a))
        try:
            q.transition(nmfu.DFTransition(["y", "z"]).to(b))
            return ("an overlapping transition with a different target was accepted silently", True)
        except nmfu.IllegalDFAStateError:
            pass
        n0 = len(q.transitions)
        q.transition(nmfu.DFTransition(["y"]).to(a))
        if len(q.transitions) != n0 or sorted(q.transitions[0].on_values) != ["x", "y"]:
            return ("a duplicate of an existing transition changed the state", True)
        q2 = nmfu.DFState()
        q2.transition(nmfu.DFTransition(["x"]).to(a))
        try:
            q2.transition(nmfu.DFTransition(["p"]).to(b))
        except nmfu.IllegalDFAStateError:
            return ("a disjoint transition was refused", True)
        return ("the concrete guard cases behave as specified", False)
    except Exception as e:
        return (f"could not replay: {type(e).__name__}: {e}", False)


def run(rep, prop="C09"):
    from .. import common
    nmfu = common.load_nmfu()
    try:
        return prove(rep, nmfu, Program(nmfu, common.repo_source()), prop)
    except (Unsupported, NeedFork, KeyError, AttributeError) as e:
        rep.unavailable(f"{prop}/pyvc/{FNQ}/engine", f"outside the modelled Python subset: {type(e).__name__}: {e}")
        return 0
