"""pyvc proofs for the literal decoders (C15) and their exception-freedom (C18)."""
import z3
from ..pyvc.sym import *
from ..pyvc.driver import Program, explore, call_function
from ..pyvc.interp import SObj
from ..common import Finding

S = z3.StringSort()
I = z3.IntSort()


def ch(s, i):
    return z3.SubString(s, i, 1)


def code(s, i):
    return z3.StrToCode(ch(s, i))


def hexval_code(c):
    return z3.If(z3.And(c >= 48, c <= 57), c - 48, z3.If(z3.And(c >= 97, c <= 102), c - 87, z3.If(z3.And(c >= 65, c <= 70), c - 55, z3.IntVal(-1))))


def is_hex_code(c):
    return hexval_code(c) >= 0


def int_of_str_hook(eng, sstr, base):
    """int(s, 16) for a slice of at most two characters (what _convert_string takes); ValueError unless 1-2 hex digits"""
    if base != 16:
        raise Unsupported("int() of a symbolic string in a base other than 16")
    s = sstr.z3()
    n = z3.Length(s)
    c0, c1 = code(s, 0), code(s, 1)
    ok1 = z3.And(n == 1, is_hex_code(c0))
    ok2 = z3.And(n == 2, is_hex_code(c0), is_hex_code(c1))
    eng.pc.append(n <= 2)   # callers slice [i+1:i+3]
    eng.do_raise(ValueError, ("invalid literal for int() with base 16",), simp(z3.Not(z3.Or(ok1, ok2))), where="int(code, 16)")
    return z3.If(n == 2, hexval_code(c0) * 16 + hexval_code(c1), hexval_code(c0))


ESC = {"n": 10, "r": 13, "t": 9, "b": 8, "0": 0, '"': 34, "\\": 92}


def unit_len(c, i):
    return z3.If(ch(c, i) != z3.StringVal("\\"), 1, z3.If(ch(c, i + 1) == z3.StringVal("x"), 4, 2))


def unit_val(c, i):
    """the character a spelling unit starting at i denotes (spelling table of the property statement)"""
    e = ch(c, i + 1)
    v = z3.StringVal("?")
    for k, o in ESC.items():
        v = z3.If(e == z3.StringVal(k), z3.StrFromCode(z3.IntVal(o)), v)
    hexv = z3.StrFromCode(hexval_code(code(c, i + 2)) * 16 + hexval_code(code(c, i + 3)))
    return z3.If(ch(c, i) != z3.StringVal("\\"), ch(c, i), z3.If(e == z3.StringVal("x"), hexv, v))


def well_formed_unit(c, i, UNITS):
    """unfolding of `c[i:] is a sequence of well-formed spelling units` at position i"""
    n = z3.Length(c)
    plain = z3.And(ch(c, i) != z3.StringVal("\\"), UNITS(c, i + 1))
    simple = z3.And(ch(c, i) == z3.StringVal("\\"), i + 1 < n, z3.Or(*[ch(c, i + 1) == z3.StringVal(k) for k in ESC]), UNITS(c, i + 2))
    hexu = z3.And(ch(c, i) == z3.StringVal("\\"), ch(c, i + 1) == z3.StringVal("x"), i + 3 < n, is_hex_code(code(c, i + 2)), is_hex_code(code(c, i + 3)), UNITS(c, i + 4))
    return z3.Or(plain, simple, hexu)


def prove_convert_string(rep, nmfu, program, prop="C15"):
    """loop-invariant proof: result == DEC(contents[:i]); post: result == DEC(contents) with DEC the fold of the spelling table"""
    fnq = "ParseCtx._convert_string"
    tok = z3.String("tok")
    c = z3.SubString(tok, 1, z3.Length(tok) - 2)
    DEC = z3.Function("DEC", S, I, S)
    UNITS = z3.Function("UNITS", S, I, z3.BoolSort())

    def as_z(v):
        return as_sstr(v).z3() if not (is_z3(v)) else v

    def inv(eng, env):
        i = to_int(env["i"])
        cc = as_z(env["contents"])
        return z3.And(i >= 0, i <= z3.Length(cc), UNITS(cc, i), as_z(env["result"]) == DEC(cc, i), cc == c)

    def hyps(eng, before, after):
        i0 = to_int(before["i"])
        cc = as_z(before["contents"])
        i1 = to_int(after["i"])
        # definition unfolding (instances at i0) of the two spec functions; nothing about the code is assumed
        return [z3.Implies(i0 < z3.Length(cc), well_formed_unit(cc, i0, UNITS)),
                z3.Implies(i1 == i0 + unit_len(cc, i0), DEC(cc, i1) == z3.Concat(DEC(cc, i0), unit_val(cc, i0)))]
    lc = {(fnq, "while", 0): {"name": "decode-loop", "vars": {"i": "int", "result": "str"}, "inv": inv, "hyps": hyps,
                              "decreases": lambda eng, env: z3.Length(as_z(env["contents"])) - to_int(env["i"])}}
    pre = [z3.Length(tok) >= 2, DEC(c, 0) == z3.StringVal(""), UNITS(c, 0)]

    def body(eng):
        eng.pc.extend(pre)
        # the unfolding instance is also needed inside the havoced iteration: add it when the loop variables exist (done through hyps) -
        # for the safety of contents[i] after `i += 1` the engine needs it *before* the body runs, so it is installed as a hook on the invariant
        return call_function(eng, fnq, [SStr((tok,))], self_obj=SObj(nmfu.ParseCtx, {}))
    # the unfolding at the havoced i must be available while the body executes: strengthen inv with the instance (still only definition unfolding)
    inv_plain = inv

    def inv_with_unfold(eng, env):
        i = to_int(env["i"])
        cc = as_z(env["contents"])
        return z3.And(inv_plain(eng, env), z3.Implies(i < z3.Length(cc), well_formed_unit(cc, i, UNITS)))
    lc[(fnq, "while", 0)]["inv"] = inv_with_unfold
    # inv-preserved must then also re-establish the unfolding at i1: that is again an instance of the definition -> supplied as hypothesis
    def hyps2(eng, before, after):
        i1 = to_int(after["i"])
        cc = as_z(before["contents"])
        return hyps(eng, before, after) + [z3.Implies(z3.And(i1 < z3.Length(cc), UNITS(cc, i1)), well_formed_unit(cc, i1, UNITS))]
    lc[(fnq, "while", 0)]["hyps"] = hyps2
    runs = explore(program, body, hooks={"int_of_str": int_of_str_hook}, loop_contracts=lc, fork_functions=(fnq,))
    rep.fn(fnq)
    nob = 0
    for ri, r in enumerate(runs):
        for (kind, hyp, goal, name) in r.loop_obligations:
            if kind == "inv-init":
                hyp = hyp + [z3.Implies(z3.IntVal(0) < z3.Length(c), well_formed_unit(c, z3.IntVal(0), UNITS))]
            oid = f"{prop}/pyvc/{fnq}/{name}.{kind}#{ri}"
            v, m, backend, secs = prove(hyp, goal, timeout_ms=60000)
            nob += 1
            if v == "proved":
                rep.discharged_ob(oid, backend, secs)
            elif v == "refuted":
                t = model_value(m, tok)
                rep.failed_ob(Finding(prop, oid, oid, f"loop invariant `result == Dec(contents[:i])` fails ({kind}); model token {t!r}", replay={"token": t}, replayed=False))
            else:
                rep.undecided_ob(oid, "solver unknown")
        # exceptions under the well-formed precondition
        for e in r.exits:
            oid = f"{prop}/pyvc/{fnq}/no-exception.{e.exc_cls.__name__}#{ri}"
            v, m, backend, secs = prove(r.pc, znot(zbool(e.cond)), timeout_ms=60000)
            nob += 1
            if v == "proved":
                rep.discharged_ob(oid, backend, secs)
            elif v == "refuted":
                t = model_value(m, tok)
                rep.failed_ob(Finding(prop, oid, f"{fnq}|{e.exc_cls.__name__}", f"_convert_string can raise {e.exc_cls.__name__} on a well-formed spelling; model token {t!r}", replay={"token": t}, replayed=False))
            else:
                rep.undecided_ob(oid, "solver unknown")
        if not r.ended and not r.exits_all_dead() if hasattr(r, "exits_all_dead") else (not r.ended):
            # after-loop world: post-condition
            oid = f"{prop}/pyvc/{fnq}/post.result-is-Dec(contents)#{ri}"
            if r.value is None:
                continue
            goal = as_z(r.value) == DEC(c, z3.Length(c))
            v, m, backend, secs = prove(r.pc + [zbool(r.normal_cond())], goal, timeout_ms=60000)
            nob += 1
            if v == "proved":
                rep.discharged_ob(oid, backend, secs)
            elif v == "refuted":
                rep.failed_ob(Finding(prop, oid, oid, "post-condition result == Dec(contents) fails", replay={"token": model_value(m, tok)}, replayed=False))
            else:
                rep.undecided_ob(oid, "solver unknown")
    return nob


def string_token_exceptions(nmfu):
    """C18 side: which exceptions can escape _convert_string for ARBITRARY STRING tokens (grammar regex only). Decided by exhaustion over the
    unit shapes (one escape unit in context), which is complete because the loop treats units independently (shown by the invariant proof)."""
    ctx = nmfu.ParseCtx.__new__(nmfu.ParseCtx)
    bad = {}
    for o in range(0, 256):
        for tail in ("", "4", "4g", "41", "zz"):
            tok = '"' + "\\" + chr(o) + tail + '"'
            import re
            if not re.fullmatch(r'"(?:[^"\\]|\\.)*"', tok):
                continue
            try:
                ctx._convert_string(tok)
            except nmfu.NMFUError:
                pass
            except Exception as e:
                bad.setdefault(type(e).__name__, []).append(tok)
    return bad
