"""C04 - feed and end always return.

 per emitted program (csem + z3): termination obligations on the non-consuming moves of feed/end (see vf/csem/tv.py verify_termination);
 compile-time rejection (run-time contract on DfaCompileCtx.compile, bounded-exact): normal return => on no symbol is there a cycle of
   fall-through / condition / break moves in the final machine (cycles that need a full buffer are the recorded finding F-04)."""
from .. import common
from ..common import Finding
from . import _tvprops as P
from . import _tvcommon as T
from . import _rtcprops as R


def main():
    spec = P.SPECS["C04"]
    programs = P.programs_for("C04")
    src_of = {p_["name"]: p_["src"] for p_ in programs}

    def handle(f, rec, item):
        # Known finding F-04 (a loop re-entering a try whose out-of-space handler leads back to the append) also turns up in *generated*
        # programs at some seeds.  A failed out-of-space cycle obligation in a generated program is tagged with whether the program's
        # source has that shape (an append inside a try with a handler for out-of-space, inside a loop); only tagged ones are attributed
        # to the finding (known_findings.json, F-04g).  Corpus programs are never tagged: what pins F-04, F-04f and the seeded changes
        # of this kind (C04-5) is decided on them without this attribution.
        import re
        oid = item[1]
        if rec["prog"].startswith("gen/") and re.fullmatch(r"feed/cycle\.oos\.[\d-]+", oid):
            src = src_of.get(rec["prog"], "")
            if re.search(r"\bloop\b", src) and re.search(r"\btry\b", src) and "+=" in src and (re.search(r"catch\s*\{", src) or re.search(r"catch\s*\([^)]*outofspace", src)):
                f.signature += "|shape:loop-try-append-catch-outofspace"
        return f
    rep, recs = T.run("C04", spec["families"], spec["level"], spec["text"], optsets=P.optsets_for("C04"), programs=programs, fns=P.CODEGEN_FNS, handle=handle)
    sel = lambda c: c.startswith("DfaCompileCtx.compile/C04")
    rep2, outs = R.run_contracts("C04", sel, ["DfaCompileCtx.compile/C04"], ["fallthrough"], "all", "", ["DfaCompileCtx._verify_fallthrough_loop", "LoopNode.convert", "ForeachNode.convert"], rep=rep)
    rep.coverage["bound"] = "per program; bounded over the program sets. Soundness of _verify_fallthrough_loop for all programs is not proved."
    return rep.finish(spec["text"] + " Compile-time rejection: contract on DfaCompileCtx.compile evaluated on every compilation of the rtc program set (exact per symbol class).", checker_cmd="./check C04")


def replay(path):
    return P.replay_for("C04", path)
