"""C07 - a compiled regular expression accepts exactly its language.

 proved (pyvc + z3, all byte sets, no bound): the character-class algebra (RegexCharClass / InvertedRegexCharClass: isdisjoint, split,
   union, invert, empty) against the denotation D(plain S)=S, D(inverted S)=~S over 256-bit vectors; the escape-class table by exhaustion.
 bounded-exact (run-time contract on RegexMatch.convert / BinaryRegexMatch.convert): exact language equality + trimness + end-of-input
   exclusion by product search against an independent derivative automaton, for every regex AST up to a size bound plus random ones."""
import itertools, string
import z3
from .. import common, gen
from ..common import Report, Finding
from ..pyvc.sym import *
from ..pyvc.driver import Program, explore, call_function
from ..pyvc.interp import SObj
from . import _rtcprops as R
from ..rtc import regex_contract

FULL = z3.BitVecVal((1 << 256) - 1, 256)


def sset_len_hook(eng, s):
    # |S| for S a subset of the 256 byte values: 256 iff S is the full set (cardinality fact of a 256-element universe)
    k = eng.fresh("card")
    eng.pc.append(z3.And(k >= 0, k <= 255))
    return z3.If(s.bv == FULL, z3.IntVal(256), k)


def D(obj, nmfu):
    if not isinstance(obj, SObj):
        raise Unsupported(f"expected a character class object, got {obj!r}")
    bv = obj.fields["chars"].bv
    if issubclass(obj.cls, nmfu.InvertedRegexCharClass):
        return ~bv
    return bv


def algebra_proofs(rep, nmfu, program):
    kinds = [("plain", nmfu.RegexCharClass), ("inverted", nmfu.InvertedRegexCharClass)]
    A, B = z3.BitVec("A", 256), z3.BitVec("B", 256)
    hooks = {"sset_len": sset_len_hook}

    def mk(cls, bv):
        return SObj(cls, {"chars": SSet(bv)})

    def ob(oid, runs, goal_fn, what, replay_fn):
        for ri, r in enumerate(runs):
            if r.exits:
                rep.failed_ob(Finding("C07", oid, oid + "|exception", f"{what}: raises {[e.exc_cls.__name__ for e in r.exits]}", replayed=False))
                continue
            goal = goal_fn(r.value)
            v, m, backend, secs = prove(r.pc, goal)
            if v == "proved":
                rep.discharged_ob(oid, backend, secs)
            elif v == "refuted":
                a, b = model_value(m, A), model_value(m, B)
                ok, info = replay_fn(a, b)
                rep.failed_ob(Finding("C07", oid, oid + (f"|A={a:x}|B={b:x}" if ok else ""), f"{what}: counterexample A={a:#x} B={b:#x}; real code: {info}",
                                      replay={"A": hex(a), "B": hex(b), "real": info}, replayed=ok))
            else:
                rep.undecided_ob(oid, "solver unknown")

    def chars_of(v):
        return frozenset(chr(i) for i in range(256) if (v >> i) & 1)

    def real(cls, v):
        return cls(chars_of(v))

    def dreal(o):
        s = set(o.chars)
        return (set(chr(i) for i in range(256)) - s) if isinstance(o, nmfu.InvertedRegexCharClass) else s
    for (ka, ca), (kb, cb) in itertools.product(kinds, kinds):
        tag = f"{ka}-{kb}"
        qa = ca.__name__
        # isdisjoint
        runs = explore(program, lambda eng: call_function(eng, f"{qa}.isdisjoint", [mk(cb, B)], self_obj=mk(ca, A)), hooks=hooks)
        ob(f"C07/pyvc/{qa}.isdisjoint/{tag}", runs, lambda v: to_bool(v) == ((D(mk(ca, A), nmfu) & D(mk(cb, B), nmfu)) == 0) if is_z3(to_bool(v)) else z3.BoolVal(to_bool(v)) == ((D(mk(ca, A), nmfu) & D(mk(cb, B), nmfu)) == 0),
           f"{qa}.isdisjoint({cb.__name__}) is not `denotations are disjoint`",
           lambda a, b: (bool(real(ca, a).isdisjoint(real(cb, b))) != dreal(real(ca, a)).isdisjoint(dreal(real(cb, b))), str(real(ca, a).isdisjoint(real(cb, b)))))
        # split
        runs = explore(program, lambda eng: call_function(eng, f"{qa}.split", [mk(cb, B)], self_obj=mk(ca, A)), hooks=hooks)

        def split_goal(v):
            o, x, y = v
            da, db = D(mk(ca, A), nmfu), D(mk(cb, B), nmfu)
            return z3.And(D(o, nmfu) == (da & db), D(x, nmfu) == (da & ~db), D(y, nmfu) == (db & ~da))

        def split_replay(a, b):
            ra, rb = real(ca, a), real(cb, b)
            o, x, y = ra.split(rb)
            da, db = dreal(ra), dreal(rb)
            bad = dreal(o) != (da & db) or dreal(x) != (da - db) or dreal(y) != (db - da)
            return bad, f"split -> overlap {len(dreal(o))} / left {len(dreal(x))} / right {len(dreal(y))} elements"
        ob(f"C07/pyvc/{qa}.split/{tag}", runs, split_goal, f"{qa}.split({cb.__name__}) is not (overlap, self-only, other-only)", split_replay)
        # union
        runs = explore(program, lambda eng: call_function(eng, f"{qa}.union", [mk(cb, B)], self_obj=mk(ca, A)), hooks=hooks)
        ob(f"C07/pyvc/{qa}.union/{tag}", runs, lambda v: D(v, nmfu) == (D(mk(ca, A), nmfu) | D(mk(cb, B), nmfu)), f"{qa}.union({cb.__name__}) is not the union",
           lambda a, b: (dreal(real(ca, a).union(real(cb, b))) != (dreal(real(ca, a)) | dreal(real(cb, b))), "union differs"))
    for (ka, ca) in kinds:
        qa = ca.__name__
        runs = explore(program, lambda eng: call_function(eng, f"{qa}.invert", [], self_obj=mk(ca, A)), hooks=hooks)
        ob(f"C07/pyvc/{qa}.invert", runs, lambda v: D(v, nmfu) == ~D(mk(ca, A), nmfu), f"{qa}.invert is not the complement",
           lambda a, b: (dreal(real(ca, a).invert()) != set(chr(i) for i in range(256)) - dreal(real(ca, a)), "invert differs"))
        runs = explore(program, lambda eng: call_function(eng, f"{qa}.empty", [], self_obj=mk(ca, A)), hooks=hooks)
        ob(f"C07/pyvc/{qa}.empty", runs, lambda v: zbool(to_bool(v)) == (D(mk(ca, A), nmfu) == 0), f"{qa}.empty is not `denotation is empty`",
           lambda a, b: (bool(real(ca, a).empty()) != (len(dreal(real(ca, a))) == 0), str(real(ca, a).empty())))
    rep.fn("RegexCharClass.isdisjoint/split/union/invert/empty", "InvertedRegexCharClass.isdisjoint/split/union/invert/empty")


def class_table(rep, nmfu):
    """escape classes by exhaustion (finite: the ten letters the REGEX_CHARCLASS token admits)"""
    import lark
    want = {"n": "\n", "t": "\t", "r": "\r", " ": " ", "w": string.ascii_letters + string.digits + "_", "d": string.digits, "s": " \t\n\r\x0b\x0c"}
    allc = set(chr(i) for i in range(256))
    rm = nmfu.RegexMatch.__new__(nmfu.RegexMatch)
    for letter in "wWdDsSntr ":
        tok = lark.Token("REGEX_CHARCLASS", letter)
        tree = lark.Tree("regex_char_class", [tok])
        oid = f"C07/exhaustive/RegexMatch._convert_raw_regex_char_class/\\{letter}"
        try:
            v = rm._convert_raw_regex_char_class(tree)
            den = (allc - set(v.chars)) if isinstance(v, nmfu.InvertedRegexCharClass) else set(v.chars)
            exp = set(want[letter.lower()]) if letter.lower() in want else set(want[letter])
            if letter.isupper():
                exp = allc - exp
            if den == exp:
                rep.discharged_ob(oid, "exhaustive")
            else:
                rep.failed_ob(Finding("C07", oid, oid, f"escape class \\{letter} denotes {len(den)} bytes, the dialect prescribes {len(exp)}; difference {sorted(den ^ exp)[:8]}", replay={"letter": letter}, replayed=True))
        except Exception as e:
            rep.failed_ob(Finding("C07", oid, oid, f"escape class \\{letter}: {type(e).__name__}", replay={"letter": letter}, replayed=True))
    rep.fn("RegexMatch._convert_raw_regex_char_class")


def main():
    rep = Report("C07", "other")
    nmfu = common.load_nmfu()
    program = Program(nmfu, common.repo_source())
    rep.assume("lark", "smt")
    rep.trust("vf/pyvc semantics of the Python subset; frozenset of byte characters modelled as a 256-bit vector; |S| >= 256 iff S is the full set (cardinality of a 256-element universe)",
              "vf/rtc/regex_contract.py: Brzozowski-derivative semantics of the dialect (independent specification)")
    algebra_proofs(rep, nmfu, program)
    class_table(rep, nmfu)
    thorough = common.tier() == "thorough"
    ps = gen.regex_programs(thorough, common.seed())
    from ..rtc import run as rrun
    limit = 300 if thorough else 60
    outs = rrun.run(ps, [["-O1", "-feof-support"]], [regex_contract.install], time_limit=limit)
    n = 0
    slow = []
    evals = 0
    for o in outs:
        if o["error"]:
            rep.undecided_ob(f"C07/rtc/{o['prog']}", o["error"][-200:])
            continue
        for k, v in (o["evals"] or {}).items():
            if k == "RegexMatch.convert":
                evals += v
                n += 1
        for f in o["fails"] or []:
            rep.bounded_violation(Finding("C07", f"C07/rtc/{f['contract']}", f"{o['prog']}|{f['contract']}", f"{o['prog']}: {f['msg']}", replay={"program": o["prog"], "source": next(p['src'] for p in ps if p['name'] == o['prog'])}, replayed=True))
        if o["outcome"] and o["outcome"].startswith("timeout"):
            slow.append(o["prog"])
        if o["outcome"] and o["outcome"].startswith("internal"):
            rep.notes.append(f"{o['prog']}: compiler internal error {o['outcome']}") if len(rep.notes) < 20 else None
    rep.bounded_count("regexes whose DFA was proved language-equal, trim and End-free by exact product search", n)
    rep.bounded_count("product-state x symbol checks", evals)
    if n == 0:
        rep.undecided_ob("C07/vacuity", "RegexMatch.convert contract never evaluated")
    # a regex whose compilation + exact product search exceeds the budget is left out of the (bounded) exploration and named; more than a handful means the budget is wrong
    rep.coverage["regexes_left_out_time_limit"] = {"limit_s": limit, "regexes": slow}
    if len(slow) > max(3, len(ps) // 50):
        rep.undecided_ob("C07/rtc/time-limit", f"{len(slow)} of {len(ps)} regexes did not finish within {limit} s: {slow[:3]}")
    rep.fn("RegexMatch.convert", "BinaryRegexMatch.convert", "RegexMatch._interpret_parse_tree", "RegexNFA.convert_to_dfa", "RegexNFA.minimize_dfa", "RegexMatch._create_dfa_state")
    rep.coverage["regexes"] = len(ps)
    rep.samples += [p["name"] for p in ps[:5]]
    text = ("Character-class algebra proved for all byte sets (256-bit vectors, z3); escape-class table by exhaustion. RegexMatch.convert / BinaryRegexMatch.convert: run-time contract 'L(out) = L(regex), "
            "error exactly when no member of the language can continue, end-of-input never consumed' evaluated exactly (product search over all 256 bytes + End against an independent derivative automaton) "
            f"for {len(ps)} regexes: every AST up to size {'3' if thorough else '2'} over 7 atoms x 7 repeat operators, hand-written tricky ones, random deeper ones, binary regexes. Bounded over regexes; the pipeline functions in between are covered by the end-to-end contract only.")
    return rep.finish(text, checker_cmd="./check C07")


def replay(path):
    import json
    d = json.load(open(path))
    print(json.dumps(d["input"], indent=1)[:2000])
    return 0
