from ._tvprops import main_for, replay_for


def main():
    return main_for("C06")


def replay(path):
    return replay_for("C06", path)
