"""Property checks decided by deductive verification of the emitted C against the compiled DFA (vf/csem/tv.py)."""
from .. import common, progs
from . import _tvcommon as T

CODEGEN_FNS = ["CodegenCtx._generate_feed_implementation", "CodegenCtx._generate_switch_body", "CodegenCtx._generate_transition_body",
               "CodegenCtx._generate_action_implementation", "CodegenCtx._generate_condition_for_transition", "CodegenCtx._generate_condition_point_body",
               "CodegenCtx._generate_end_implementation", "CodegenCtx._generate_end_switch_body", "CodegenCtx._generate_start_implementation",
               "CodegenCtx._generate_free_implementation", "CodegenCtx._generate_code_for_int_expr", "CodegenCtx._generate_set_string", "CodegenCtx._escape_string"]

SPECS = {
    "C06": dict(families={"refine", "endfx", "coherence", "consume"}, level="translation_validation",
                text="Per emitted program: for every state, every byte class (all 256 bytes partitioned by the transition the DFA selects) and end-of-input, for symbolic data, "
                     "the C block of that state is proved to perform exactly the step the abstract machine prescribes for the DFA transition: same next state, same output values "
                     "(buffers as arrays), same hook calls with the same argument and the same visible outputs, same consumption, same result code; start() equals the initial configuration."),
    "C02": dict(families={"coherence", "chunk", "consume"}, level="proof",
                text="Per emitted program: the only local of feed is inval and it equals *start at every dispatch point; the switch dispatches on state->state; every goto jpto_N/fall_N is taken "
                     "with state->state == N (so re-entering through the switch on a later call is the same continuation); yields return after the advance iff the transition consumes; "
                     "the prologue end check exists when a yield can leave start == end. Together with C06/C10 (OK only at chunk end with the state already stored) this gives chunking independence by induction on cuts."),
    "C03": dict(families={"memsafe", "consume"}, level="proof",
                text="Per emitted program and storage option set: inductive invariant (0<=counter<=capacity, allocation size, live/NULL never dangling, NUL terminator at counter) established by start() "
                     "and preserved by every path of every case of feed and end; every array read/write index in bounds and through a live pointer; memcpy lengths within source literal and destination; "
                     "free() releases every heap string exactly once and NULLs it; counters fit their declared types."),
    "C10": dict(families={"protocol", "coherence", "chunk", "consume", "end", "endfx"}, level="proof",
                text="Per emitted program: every return OK in feed is proved to happen only with start == end; FAIL leaves an absorbing state and does not advance; DONE/FINISH do not advance (pointer on the last byte read); "
                     "a yield returns after the advance exactly when the transition consumes. "
                     "The per-block reasoning assumes state->state == N on entry to block N; that lemma (label/state coherence of every goto) is discharged here as well. "
                     "The result code of end() (DONE / finish code exactly when the machine is complete after the end-of-input step, FAIL otherwise) is the `end` family, discharged here too."),
    "C17": dict(families={"end", "endfx", "coherence"}, level="proof",
                text="Per emitted program with EOF support: for every state the end() block performs the abstract machine's end-of-input step (actions, fall-through chain) and returns DONE iff the machine ends in an accepting state "
                     "(finish code if the actions finish), FAIL otherwise."),
    "C04": dict(families={"term", "coherence", "consume"}, level="proof",
                text="Per emitted program: the graph of non-consuming moves of end() is acyclic; every cycle of non-consuming moves of feed (fall-through, overflow redirect, break, condition branch) is proved infeasible within 3 laps "
                     "or to strictly increase a bounded length counter; a closed recurrence set is reported as a violation and replayed on the compiled C under a wall-clock limit. "
                     "The cycle analysis classifies a move as consuming from the machine's transition; that the C text advances the pointer exactly as often (never moves it back, so no byte is dispatched twice) "
                     "is the `consume` family, discharged here as well."),
}


def optsets_for(prop):
    names = list(T.OPTS_QUICK)
    if common.tier() == "thorough":
        extra = {
            "O3-strict-indirect": ["-O3", "-fstrict-done-token-generation", "-findirect-start-ptr"],
            "O1-unsafe-idx-u8": ["-O1", "-funsafe-string-indexing", "-fstrings-as-u8"],
            "O2-ondemand": ["-O2", "-fallocate-str-space-dynamic-on-demand"],
            "O2-collapse1": ["-O2", "--collapsed-range-length", "1"],
            "O3-maxsc0": ["-O3", "--max-shortcircuit-fallthrough", "0"],
            "O2-userptr-packed-pragma": ["-O2", "-finclude-user-ptr", "-fuse-packed-enums", "-fuse-pragma-once", "-fno-use-cplusplus-guard"],
        }
        d = dict(T.OPTS_QUICK)
        d.update(extra)
        return d
    d = {k: T.OPTS_QUICK[k] for k in names}
    if prop == "C10":
        # early advance (yield) + strict done tokens + merged transitions is a code path of its own (F-10c was found there)
        d["O3-strict-indirect"] = ["-O3", "-fstrict-done-token-generation", "-findirect-start-ptr"]
    return d


def programs_for(prop):
    # programs the unchanged compiler rejects are included on purpose: a change that makes one of them accepted is then verified too
    ps = [p_ for p_ in progs.corpus(big=True, include_fail=True) if "// only: " not in p_["src"] or f"// only: {prop}" in p_["src"]]
    try:
        from .. import gen
        n = 400 if common.tier() == "thorough" else 100
        ps += gen.generated_programs(n, common.seed())
    except ImportError:
        pass
    if prop == "C06":
        # every operator directly under / beside every other one, in assignments, appends and conditions (the seed-independent expression
        # programs of C14): the expression text is part of what the emitted C executes
        from . import c14
        ps += [{k: v for k, v in p_.items() if k != "trees"} for p_ in c14.pair_programs()]
    return ps


def main_for(prop):
    spec = SPECS[prop]
    rep, recs = T.run(prop, spec["families"], spec["level"], spec["text"], optsets=optsets_for(prop), programs=programs_for(prop), fns=CODEGEN_FNS)
    if prop == "C02":
        # induction on the cuts, machine-checked (Lean 4, core library): the per-program obligations above are its hypotheses H1/H2
        from .. import lemmas
        lemmas.check(rep, "C02", "Chunking.lean", ["drive_chunks_eq_whole", "one_cut", "bytewise"])
        rep.coverage["lemma"] = ("L-cuts (vf/lemmas/Chunking.lean, checked by lean on every run): a driver that dispatches one byte at a time on the stored state (H1: obligations "
                                 "coherence/dispatch/consume) and for which OK-at-a-cut followed by re-entry is the identity (H2: return-OK sites, prologue end check) yields the same events, codes at the same "
                                 "absolute offsets and final state for every chunking.  The correspondence between the C text and that driver is what the per-program obligations establish; it is not itself a Lean statement.")
    if prop == "C03":
        # capacity arithmetic behind every printed bound, for all sizes / flag values (pyvc on the real AST)
        from . import c03_proofs
        c03_proofs.run(rep, "C03")
        spec = dict(spec)
        spec["text"] += (" In addition, for all programs (pyvc on the real AST): OutputStorage.effective_string_size is size - 1 for terminated and size for unterminated strings (symbolic size, z3); the bounds, "
                         "element accesses and string declarations the generator prints (_generate_buflike_length_expr / _index_expr, _get_state_object_out_declaration) are the numerals of exactly those capacities, "
                         "an array of the declared size or a pointer, uint8_t exactly with strings-as-u8 (representative sizes, all flag values).")
    if prop in ("C02", "C10"):
        # the two decisions of the generator that chunking and the start-pointer protocol hinge on, for all flag values and action lists:
        # when a transition body jumps straight to the next case (and its label exists), and when feed() guards against an empty chunk
        from . import codegen_proofs
        codegen_proofs.run(rep, prop)
        spec = dict(spec)
        spec["text"] += (" In addition, for all flag values and every combination of what they inspect (pyvc on the real AST + z3): CodegenCtx._transition_will_directly_jump is true exactly when the transition is not a "
                         "fall-through (or excl_fall), its target is not accepting (or strict done tokens are on) and every action reports override mode NONE; CodegenCtx._needs_end_check is true exactly when "
                         "zero-length input support is on or some action on some transition may return early.")
    if prop == "C06":
        # byte tests: for ALL transitions (symbol lists), thresholds and flag values the emitted condition denotes exactly the symbols
        from . import cond_proofs
        cond_proofs.run(rep, "C06")
        # expression text: the renderer is proved for every expression tree (structural induction over the node classes, pyvc)
        try:
            from . import c14_proofs
            from ..pyvc.driver import Program
            from ..pyvc.sym import Unsupported, NeedFork
            try:
                c14_proofs.prove(rep, common.load_nmfu(), Program(common.load_nmfu(), common.repo_source()), prop="C06")
            except (Unsupported, NeedFork) as e:
                rep.unavailable("C06/pyvc/CodegenCtx._generate_code_for_int_expr/engine", f"outside the modelled Python subset: {type(e).__name__}: {e}")
        except ImportError:
            pass
        spec = dict(spec)
        spec["text"] += (" In addition, for ALL symbol lists, collapse thresholds and flag values (not per program): the condition text emitted by _generate_condition_for_transition denotes exactly the "
                         "transition's byte symbols (pyarr: VCs from the real AST with loop invariants, discharged by z3; leaf templates by exhaustion through the C expression parser).")
    rep.coverage["bound"] = "property-level quantifier over programs is bounded to the program set (repo corpus + /verif/corpus + generated); per program all inputs, data states and chunkings are covered by the discharged obligations"
    return rep.finish(spec["text"], checker_cmd=f"./check {prop}")


def replay_for(prop, path):
    import json
    from ..csem import tv, creplay
    d = json.load(open(path))
    inp = d["input"]
    nmfu = common.load_nmfu()
    ps = {p["name"]: p for p in programs_for(prop)}
    p = ps[inp["program"]]
    c = tv.compile_program(nmfu, p["src"], inp["flags"] + p["args"], path=p["name"])
    Tt = tv.TV(c)
    Tt.run()
    for r in Tt.results:
        if r.oid == inp["obligation"]:
            print(r.family, r.oid, r.verdict, r.what, r.witness)
            if r.verdict == "refuted" and r.witness is not None:
                print(T.replay_result(c, Tt, r))
    return 0
