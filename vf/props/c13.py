"""C13 - macros behave exactly like their textual expansion.

 proved (pyvc): ParseCtx._parse_macro_call - wrong arity raises IllegalParseTree before anything is bound; on normal return the
   binding stack and the active-macro chain are restored (push/pop balanced), for every arity.
 bounded-exact: generated programs with macros and their hand-inlined twins (from one description): both accepted or both rejected,
   and when accepted the two compiled machines are bisimilar (exact, all 257 symbols); wrongly typed / wrong-arity calls are diagnosed."""
import types, multiprocessing as mp, traceback
import z3
from .. import common, macrogen
from ..common import Report, Finding
from ..pyvc.sym import *
from ..pyvc.driver import Program, explore, call_function
from ..pyvc.interp import SObj, HList, HDict

_CTX = {}


def prove_macro_call(rep, nmfu, program):
    fnq = "ParseCtx._parse_macro_call"
    rep.fn(fnq)
    node = types.SimpleNamespace(meta=types.SimpleNamespace(line=3, column=7))
    sentinel = object()

    def contracts(log):
        def bind(eng, args, kw):
            # args: (macro, input_trees, parse_ctx, ...): arguments are resolved in the CALLER's scope, so the callee's frame must not be visible yet
            pctx = args[2] if len(args) > 2 else None
            depth = len(pctx.fields["bound_argument_stack"].items) if isinstance(pctx, SObj) else None
            log.append(("bind", depth))
            return HDict({("k", "v"): 1})

        def imbue(eng, args, kw):
            # classmethod: args[0] is ProgramData itself; debug bookkeeping returns the object it was given
            return args[1]

        def stmt_seq(eng, args, kw):
            self_obj = args[0]
            log.append(("body", len(self_obj.fields["bound_argument_stack"].items), self_obj.fields["active_macro"]))
            return sentinel
        return {"Macro.bind_arguments_for": bind, "ProgramData.imbue": imbue, "ParseCtx._parse_stmt_seq": stmt_seq}
    for nargs in range(0, 4):
        for nparams in range(0, 4):
            log = []
            outer = SObj(nmfu.MacroInstance, {"parent": None, "macro": None})   # an enclosing macro instance (chain of length 1)
            stack0 = [HDict({("x", "y"): 0})]

            def body(eng):
                self_obj = SObj(nmfu.ParseCtx, {"bound_argument_stack": HList(list(stack0)), "active_macro": outer})
                macro = SObj(nmfu.Macro, {"arguments": HList([object() for _ in range(nparams)]), "parse_tree": [], "name": "mm"})
                v, _ = call_function(eng, fnq, [node, macro, HList([object() for _ in range(nargs)])], self_obj=self_obj)
                return v, {"self": self_obj}
            runs = explore(program, body, contracts=contracts(log))
            oid = f"C13/pyvc/{fnq}/arity{nargs}-params{nparams}"
            r = runs[0]
            if nargs != nparams:
                ok = len(runs) == 1 and r.exits and all(issubclass(e.exc_cls, nmfu.IllegalParseTree) for e in r.exits) and r.dead is True and not any(x[0] == "bind" for x in log)
                if ok:
                    rep.discharged_ob(oid + ".rejected", "pyvc-concrete")
                else:
                    rep.failed_ob(Finding("C13", oid + ".rejected", oid, f"a macro with {nparams} parameters called with {nargs} arguments is not rejected with IllegalParseTree before binding (exits: {[e.exc_cls.__name__ for e in r.exits]})",
                                          replay={"nargs": nargs, "nparams": nparams}, replayed=True))
            else:
                so = r.env.get("self")
                ok = (not r.exits and r.value is sentinel and so is not None and len(so.fields["bound_argument_stack"].items) == len(stack0)
                      and so.fields["bound_argument_stack"].items[0] is stack0[0] and so.fields["active_macro"] is outer
                      and [x for x in log if x[0] == "bind"] == [("bind", len(stack0))]
                      and any(x[0] == "body" and x[1] == len(stack0) + 1 and isinstance(x[2], SObj) and x[2].fields.get("parent") is outer for x in log))
                if ok:
                    rep.discharged_ob(oid + ".balanced", "pyvc-concrete")
                else:
                    rep.failed_ob(Finding("C13", oid + ".balanced", oid, "macro call does not bind its arguments in the caller's scope (callee frame already visible), does not run the body with exactly one new binding frame / a child macro instance, or does not restore the binding stack and the active macro afterwards",
                                          replay={"nargs": nargs, "log": str(log)}, replayed=True))


def _task(i):
    t = _CTX["twins"][i]
    nmfu = common.load_nmfu()
    from ..csem import tv
    from ..rtc import bisim
    out = {"name": t["name"], "results": []}
    try:
        for flags in (["-O1"], ["-O3"]):
            res = []
            for src in (t["macro_src"], t["inlined_src"]):
                try:
                    res.append(tv.compile_program(nmfu, src, flags + t["args"]))
                except nmfu.NMFUError as e:
                    res.append("rejected:" + type(e).__name__)
                except tv.InternalCompilerError as e:
                    res.append("internal:" + str(e)[:80])
            a, b = res
            if isinstance(a, str) or isinstance(b, str):
                sa = a if isinstance(a, str) else "accepted"
                sb = b if isinstance(b, str) else "accepted"
                if sa.split(":")[0] != sb.split(":")[0]:
                    out["results"].append((flags, "refuted", f"with macros: {sa}; hand-inlined: {sb}"))
                else:
                    out["results"].append((flags, "same-verdict", sa))
                continue
            ok, w, st = bisim.compare(nmfu, bisim.NF(nmfu, a.cctx), bisim.NF(nmfu, b.cctx))
            out["results"].append((flags, "proved" if ok is True else ("refuted" if ok is False else "unknown"), str(w)[:400] if w else "", st))
    except Exception:
        out["error"] = traceback.format_exc()[-800:]
    return out


def main():
    rep = Report("C13", "other")
    nmfu = common.load_nmfu()
    program = Program(nmfu, common.repo_source())
    rep.assume("lark", "debug")
    rep.trust("vf/macrogen.py: textual expansion of the macro library (the twin generator is the specification of 'replace each call with the body, arguments substituted')",
              "vf/rtc/bisim.py")
    prove_macro_call(rep, nmfu, program)
    # name resolution is innermost-first (every kind, every pattern of binding frames up to depth 3, global presence)
    from . import c13_lookup_proofs
    c13_lookup_proofs.run(rep, "C13")
    thorough = common.tier() == "thorough"
    tw = macrogen.twins(1500 if thorough else 120, common.seed())
    _CTX["twins"] = tw
    ctx = mp.get_context("fork")
    with ctx.Pool(16) as pool:
        outs = pool.map(_task, range(len(tw)), chunksize=2)
    nb = nv = 0
    for o, t in zip(outs, tw):
        if o.get("error"):
            rep.undecided_ob(f"C13/twin/{o['name']}", o["error"][-200:])
            continue
        for r in o["results"]:
            flags, verdict = r[0], r[1]
            if verdict == "proved":
                nb += 1
            elif verdict == "same-verdict":
                nv += 1
            elif verdict == "refuted":
                rep.bounded_violation(Finding("C13", f"C13/twin/{o['name']}", f"{o['name']}|{' '.join(flags)}", f"{o['name']} [{' '.join(flags)}]: program with macros and its textual expansion differ: {r[2]}",
                                      replay={"macro_src": t["macro_src"], "inlined_src": t["inlined_src"], "flags": flags}, replayed=True))
            else:
                rep.undecided_ob(f"C13/twin/{o['name']}", str(r[2]))
    rep.bounded_count("macro program / inlined twin pairs proved bisimilar", nb)
    rep.bounded_count("twin pairs with the same reject verdict", nv)
    # diagnosed errors
    from ..csem import tv
    nd = 0
    for b in macrogen.bad_calls():
        oid = f"C13/diagnosed/{b['name']}"
        try:
            tv.compile_program(nmfu, b["src"], ["-O1"] + b["args"])
            rep.bounded_violation(Finding("C13", oid, b["name"], f"{b['name']}: a call with an argument of the wrong kind / wrong arity / undefined entity is accepted", replay={"source": b["src"]}, replayed=True))
        except nmfu.NMFUError as e:
            try:
                str(e)
                nd += 1
            except Exception as e2:
                rep.bounded_violation(Finding("C13", oid, b["name"] + "|render", f"{b['name']}: diagnostic cannot be rendered ({e2!r})", replay={"source": b["src"]}, replayed=True))
        except tv.InternalCompilerError as e:
            rep.bounded_violation(Finding("C13", oid, b["name"] + "|internal", f"{b['name']}: not diagnosed, the compiler dies with {e}", replay={"source": b["src"]}, replayed=True))
    rep.bounded_count("ill-typed / wrong-arity calls diagnosed", nd)
    if nb == 0:
        rep.undecided_ob("C13/vacuity", "no twin pair compared")
    rep.fn("Macro.bind_arguments_for", "ParseCtx._lookup_named_entity", "ParseCtx._parse_stmt (call_stmt)")
    rep.samples += [t["macro_src"].split("parser")[1].strip()[:160] for t in tw[:4]]
    text = ("_parse_macro_call: arity rejection and push/pop balance proved by pyvc for arities 0..3 x 0..3 (concrete arities, symbolic nothing else needed). "
            "_lookup_named_entity executed from the real AST for every kind x every pattern of binding / other-kind / absent frames up to depth 3 x global presence: the innermost binding of that kind wins, "
            "then the global entity, else UndefinedReferenceError (depth bound 3 stated; the loop is a single first-hit scan). "
            f"Substitution equivalence: {len(tw)} generated macro programs (all argument kinds, nested calls, forwarding, crossed names, macros inside loops) and their hand-inlined twins: same accept/reject verdict and, when accepted, "
            "exact bisimulation of the compiled machines at -O1 and -O3. Ill-typed calls must be diagnosed. Bounded over the generated programs.")
    return rep.finish(text, checker_cmd="./check C13")


def replay(path):
    import json
    from ..csem import tv
    from ..rtc import bisim
    d = json.load(open(path))["input"]
    nmfu = common.load_nmfu()
    if "macro_src" in d:
        res = []
        for src in (d["macro_src"], d["inlined_src"]):
            try:
                res.append(tv.compile_program(nmfu, src, d["flags"] + ["-feof-support", "-fyield-support"]))
            except Exception as e:
                res.append(repr(e)[:200])
        print([r if isinstance(r, str) else "accepted" for r in res])
        if not any(isinstance(r, str) for r in res):
            print(bisim.compare(nmfu, bisim.NF(nmfu, res[0].cctx), bisim.NF(nmfu, res[1].cctx)))
    return 0
