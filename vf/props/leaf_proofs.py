"""pyvc proofs of the leaf DFA builders: shape contracts discharged from the real AST for ALL literals and ALL action lists.

 * DirectMatch.convert / CaseDirectMatch.convert - *per-iteration contract* of the chain-building loop: the loop body is executed
   symbolically for an arbitrary iteration (symbolic index j, symbolic literal W, symbolic character W[j], arbitrary action lists as
   `Seg`ments) from the pre-state "state is a fresh state without transitions, last of sm.states, nothing accepting yet", and the
   resulting heap is compared with the shape the property prescribes.  The prologue establishes the pre-state of iteration 0, each
   iteration's post-state is the next one's pre-state (clause `next-pre`), the epilogue returns sm: an induction over j that the
   checker spells out as separate obligations.  L-chain (vf/lemmas/Chain.lean) turns the shape into the accepted language.
 * EndMatch.convert - whole function (straight-line).
 * WaitMatch.convert - per-iteration contract of the retargeting loop, for an arbitrary (state, transition) pair handed out by
   transitions_pointing_to (assumed contract: pairs (s, t) with t.target == the handler), arbitrary transition contents.

What the engine inlines (so what is verified, not assumed): DFTransition.__init__/attach/to/fallthrough/handles_else/from_key,
DFState.__init__/__setitem__/transition/all_transitions, DFA.add/mark_accepting.  Assumed: ProgramData.imbue/lookup are debug
bookkeeping (return their first argument / None); `_create_casei_from` is replaced by its contract (a list of characters, proved
by exhaustion under C15) in the CaseDirectMatch proof."""
import ast
import z3
from ..pyvc.sym import *
from ..pyvc.driver import Program, explore, call_function, run_stmts
from ..pyvc.interp import SObj, HList, HDict, Seg, Engine
from ..common import Finding

# imbue is a classmethod: called as ProgramData.imbue(obj, ...) the interpreter passes (cls, obj, ...) - the contract "returns the object it
# was given" (clause W2 of the debug-frame lemma) means the first argument after the class
DEBUG_CONTRACTS = {"ProgramData.imbue": lambda eng, a, kw: (a[1] if len(a) > 1 and isinstance(a[0], type) else a[0]), "ProgramData.lookup": lambda eng, a, kw: None}


def _items(v):
    return list(v.items) if isinstance(v, HList) else list(v)


def _same(a, b):
    a, b = _items(a), _items(b)
    return len(a) == len(b) and all(x is y for x, y in zip(a, b))


def _tr(t):
    f = t.fields
    return {"on": _items(f["on_values"]), "target": f["target"], "ft": f["is_fallthrough"], "eh": f["error_handling"], "actions": _items(f["actions"]), "obj": t}


def _names(xs):
    return "[" + ", ".join(getattr(x, "name", None) or (x.cls.__name__ if isinstance(x, SObj) else repr(x)) for x in xs) + "]"


class Clauses:
    """collects the clauses of one symbolic path; a clause is decided structurally (concrete heap shape) or by z3 (symbolic residue)"""

    def __init__(self, rep, prop, base, path_tag, pc, replay):
        self.rep, self.prop, self.base, self.tag, self.pc, self.replay = rep, prop, base, path_tag, pc, replay
        self.n = 0

    def ok(self, clause, backend="structural", secs=0.0):
        self.n += 1
        self.rep.discharged_ob(f"{self.prop}/pyvc/{self.base}/{clause}#{self.tag}", backend, secs)

    def fail(self, clause, what):
        self.n += 1
        info, replayed = self.replay(clause) if self.replay else (None, False)
        oid = f"{self.prop}/pyvc/{self.base}/{clause}#{self.tag}"
        self.rep.failed_ob(Finding(self.prop, oid, f"{self.base}|{clause}", f"{self.base}: clause `{clause}` fails on path {self.tag}: {what}" + (f"; real code: {info}" if info else ""),
                                   replay={"function": self.base, "clause": clause, "path": self.tag, "real": info}, replayed=replayed))

    def structural(self, clause, cond, what):
        if cond:
            self.ok(clause)
        else:
            self.fail(clause, what)

    def smt(self, clause, goal, what):
        if goal is True:
            return self.ok(clause)
        if goal is False:
            return self.fail(clause, what)
        v, m, backend, secs = prove(self.pc, zbool(goal))
        if v == "proved":
            self.ok(clause, backend, secs)
        elif v == "refuted":
            self.fail(clause, what + f" (model {m})"[:300])
        else:
            self.n += 1
            self.rep.undecided_ob(f"{self.prop}/pyvc/{self.base}/{clause}#{self.tag}", "solver unknown")


# ------------------------------------------------------------------------------------------------ literal chains

def _real_chain_mismatch(nmfu, cls_name, lit, j):
    """replay on the real code: build the literal's machine and compare state j with the prescribed shape"""
    cls = getattr(nmfu, cls_name)
    m = cls(lit)
    S, C, F = object(), object(), object()
    m.start_actions.append(S), m.char_actions.append(C), m.finish_actions.append(F)
    handler = nmfu.DFState()
    try:
        sm = m.convert({nmfu.ErrorReasons.NO_MATCH: handler})
    except Exception as e:
        return f"{cls_name}({lit!r}).convert raises {type(e).__name__}: {e}"
    st = sm.starting_state
    for _ in range(j):
        nxt = [t for t in st.transitions if not t.error_handling]
        if len(nxt) != 1:
            return f"state before position {j} has {len(nxt)} consuming transitions"
        st = nxt[0].target
    exp_syms = {lit[j]}
    if cls_name == "CaseDirectMatch" and lit[j].isascii() and lit[j].isalpha():
        exp_syms = {lit[j].lower(), lit[j].upper()}
    cons = [t for t in st.transitions if not t.error_handling]
    errs = [t for t in st.transitions if t.error_handling]
    want_c = ([S] if j == 0 else []) + [C] + ([F] if j == len(lit) - 1 else [])
    want_e = [S] if j == 0 else []
    if len(cons) != 1 or len(errs) != 1:
        return f"state {j} of {lit!r} has {len(cons)} consuming and {len(errs)} error transitions"
    c, e = cons[0], errs[0]
    if set(c.on_values) != exp_syms or len(c.on_values) != len(exp_syms):
        return f"state {j} of {lit!r} consumes {c.on_values!r}, expected exactly {sorted(exp_syms)}"
    if c.is_fallthrough or c.target is handler or c.target in sm.states[:sm.states.index(st) + 1]:
        return f"state {j} of {lit!r}: consuming transition is a fall-through or does not lead to a fresh state"
    if c.actions != want_c:
        return f"state {j} of {lit!r}: consuming transition carries the wrong actions (start only on the first, per-char on every, finish only on the last character)"
    if e.on_values != [nmfu.DFTransition.Else] or e.target is not handler or not e.is_fallthrough or e.actions != want_e:
        return f"state {j} of {lit!r}: mismatch transition is not `Else -> handler` (fall-through, error) with the start actions only at position 0"
    if (c.target in sm.accepting_states) != (j == len(lit) - 1):
        return f"state {j + 1} of {lit!r}: accepting status wrong"
    return None


def prove_chain(rep, nmfu, program, prop, cls_name):
    """per-iteration contract of the chain-building loop of <cls_name>.convert"""
    fnq = f"{cls_name}.convert"
    rep.fn(fnq)
    cls = getattr(nmfu, cls_name)
    node = program.proto.funcs[fnq]
    loops = [x for x in node.body if isinstance(x, ast.For)]
    if len(loops) != 1:
        rep.unavailable(f"{prop}/pyvc/{fnq}/extraction", f"expected one top-level for loop, found {len(loops)}")
        return 0
    loop = loops[0]
    li = node.body.index(loop)
    prologue, epilogue = node.body[:li], node.body[li + 1:]
    if not (isinstance(loop.target, ast.Tuple) and len(loop.target.elts) == 2 and isinstance(loop.iter, ast.Call) and getattr(loop.iter.func, "id", None) == "enumerate"
            and ast.unparse(loop.iter.args[0]) == "self.match_contents"):
        rep.unavailable(f"{prop}/pyvc/{fnq}/extraction", "loop header is not `for j, character in enumerate(self.match_contents)`")
        return 0
    jname, cname = loop.target.elts[0].id, loop.target.elts[1].id
    W, j, ch = z3.String("W"), z3.Int("j"), z3.String("ch")
    n = z3.Length(W)
    Else = nmfu.DFTransition.Else
    nob = 0
    contracts = dict(DEBUG_CONTRACTS)
    CLS = Seg("casei(character)", elem="str")
    if cls_name == "CaseDirectMatch":
        contracts["CaseDirectMatch._create_casei_from"] = lambda eng, a, kw: HList([CLS])

    def mk_self(S, Cc, F):
        return SObj(cls, {"start_actions": HList([S]), "finish_actions": HList([F]), "char_actions": HList([Cc]), "match_contents": SStr((W,))})

    old_ms = getattr(Engine, "mutable_sets", False)
    Engine.mutable_sets = True
    try:
        # ---- (1) prologue: establishes the pre-state of iteration 0
        box = {}

        def body0(eng):
            S, Cc, F = Seg("start_actions"), Seg("char_actions"), Seg("finish_actions")
            h = SObj(nmfu.DFState, {"transitions": HList([])})
            me = mk_self(S, Cc, F)
            env = {"self": me, "current_error_handlers": HDict({nmfu.ErrorReasons.NO_MATCH: h})}
            v, fr = run_stmts(eng, fnq, prologue, env)
            return fr.env, {}
        for ri, r in enumerate(explore(program, body0, contracts=contracts)):
            cl = Clauses(rep, prop, fnq, f"prologue.{ri}", r.pc, None)
            env = r.value
            cl.structural("prologue.no-exception", not r.exits and r.dead is False, f"raises {[e.exc_cls.__name__ for e in r.exits]}")
            sm, st = env.get("sm"), env.get("state")
            good = (isinstance(sm, SObj) and isinstance(st, SObj) and _items(st.fields["transitions"]) == [] and _same(sm.fields["states"], [st])
                    and sm.fields["starting_state"] is st and _items(sm.fields["accepting_states"]) == [])
            cl.structural("prologue.establishes-pre", good, "before the loop: sm must hold exactly one fresh start state without transitions, nothing accepting")
            nob += cl.n

        # ---- (2) arbitrary iteration
        for first in (True, False):
            def body(eng, first=first):
                S, Cc, F = Seg("start_actions"), Seg("char_actions"), Seg("finish_actions")
                h = SObj(nmfu.DFState, {"transitions": HList([])})
                me = mk_self(S, Cc, F)
                st = SObj(nmfu.DFState, {"transitions": HList([])})
                if first:
                    prev = []
                    start = st
                    eng.pc.append(j == 0)
                else:
                    start = SObj(nmfu.DFState, {"transitions": HList([Seg("start-state transitions")])})
                    prev = [start, Seg("earlier states")]
                    eng.pc.append(j > 0)
                sm = SObj(nmfu.DFA, {"accepting_states": HList([]), "starting_state": start, "states": HList(prev + [st])})
                eng.pc += [j >= 0, j < n, z3.Length(ch) == 1, ch == z3.SubString(W, j, 1)]
                env = {"self": me, "current_error_handlers": HDict({nmfu.ErrorReasons.NO_MATCH: h}), "sm": sm, "state": st, jname: j, cname: SStr((ch,))}
                v, fr = run_stmts(eng, fnq, loop.body, env)
                box[id(eng)] = dict(S=S, C=Cc, F=F, h=h, me=me, st=st, sm=sm, prev=prev, start=start)
                return (fr.env, box[id(eng)]), {}
            runs = explore(program, body, contracts=contracts)
            for ri, r in enumerate(runs):
                tag = f"{'first' if first else 'later'}.{ri}"
                lasts = [lv for lv in (True, False) if feasible(r.pc + [(j == n - 1) if lv else (j != n - 1)])]
                for is_last in lasts:
                    tag = f"{'first' if first else 'later'}.{ri}.{'last' if is_last else 'inner'}"
                    pc_here = r.pc + [(j == n - 1) if is_last else (j != n - 1)]
                    lit = {(True, True): ("a", 0), (True, False): ("ab", 0), (False, True): ("ab", 1), (False, False): ("abc", 1)}[(first, is_last)]
                    if cls_name == "CaseDirectMatch":
                        lit = (lit[0].replace("a", "q").replace("b", "Z"), lit[1])

                    def replay(clause, lit=lit):
                        bad = _real_chain_mismatch(nmfu, cls_name, lit[0], lit[1])
                        if bad is None and cls_name == "CaseDirectMatch":
                            bad = _real_chain_mismatch(nmfu, cls_name, "1-" + lit[0], lit[1] + 2 if lit[1] else 0)
                        return (bad, True) if bad else ("the concrete literal " + repr(lit[0]) + " does not show the failure", False)
                    cl = Clauses(rep, prop, fnq, tag, pc_here, replay)
                    if r.exits or r.dead is not False or r.value is None:
                        cl.fail("iteration.no-exception", f"raises {[e.exc_cls.__name__ for e in r.exits]}")
                        nob += cl.n
                        continue
                    cl.ok("iteration.no-exception")
                    env, b = r.value
                    st, sm, h = b["st"], b["sm"], b["h"]
                    trs = [_tr(t) for t in _items(st.fields["transitions"])]
                    cons = [t for t in trs if t["eh"] is False]
                    errs = [t for t in trs if t["eh"] is True]
                    cl.structural("iteration.two-transitions", len(trs) == 2 and len(cons) == 1 and len(errs) == 1,
                                  f"state j must get exactly one consuming and one error transition, got {len(cons)} + {len(errs)} of {len(trs)}")
                    if len(cons) == 1 and len(errs) == 1:
                        c, e = cons[0], errs[0]
                        nxt = c["target"]
                        fresh = isinstance(nxt, SObj) and nxt.cls is nmfu.DFState and nxt is not st and nxt is not h and nxt is not b["start"] and _items(nxt.fields["transitions"]) == []
                        cl.structural("iteration.consuming.target-fresh", fresh, "the consuming transition must lead to a fresh state without transitions")
                        if cls_name == "DirectMatch":
                            on = c["on"]
                            if len(on) == 1 and is_strlike(norm_str(on[0])):
                                cl.smt("iteration.consuming.symbol", as_sstr(norm_str(on[0])).z3() == z3.SubString(W, j, 1), "the consumed symbol is not the j-th character of the literal")
                            else:
                                cl.fail("iteration.consuming.symbol", f"on_values is {on!r}, expected exactly [W[j]]")
                        else:
                            cl.structural("iteration.consuming.symbol", len(c["on"]) == 1 and c["on"][0] is CLS, f"on_values is {c['on']!r}, expected exactly the list returned by _create_casei_from(W[j])")
                        cl.structural("iteration.consuming.kind", c["ft"] is False, "the matching transition must consume")
                        want = ([b["S"]] if first else []) + [b["C"]] + ([b["F"]] if is_last else [])
                        cl.structural("iteration.consuming.actions", _same(c["actions"], want), f"actions {_names(c['actions'])}, expected {_names(want)} (start only at position 0, finish only at the last position)")
                        cl.structural("iteration.error.symbol", len(e["on"]) == 1 and e["on"][0] is Else, f"mismatch transition on {e['on']!r}, expected [Else]")
                        cl.structural("iteration.error.target", e["target"] is h, "mismatch transition must target current_error_handlers[NO_MATCH]")
                        cl.structural("iteration.error.kind", e["ft"] is True, "mismatch transition must be a fall-through (the offending byte is not consumed)")
                        want_e = [b["S"]] if first else []
                        cl.structural("iteration.error.actions", _same(e["actions"], want_e), f"actions {_names(e['actions'])}, expected {_names(want_e)}")
                        acc = _items(sm.fields["accepting_states"])
                        cl.structural("iteration.accepting", _same(acc, [nxt] if is_last else []), "the state after the last character, and only it, becomes accepting")
                        cl.structural("iteration.states", _same(sm.fields["states"], b["prev"] + [st, nxt]), "sm.states must grow by exactly the new state")
                        cl.structural("iteration.next-pre", env.get("state") is nxt and sm.fields["starting_state"] is b["start"], "the loop variable must move to the new state; the start state must not change")
                        cl.structural("iteration.frame", _items(h.fields["transitions"]) == [] and _same(b["me"].fields["start_actions"], [b["S"]]) and _same(b["me"].fields["char_actions"], [b["C"]])
                                      and _same(b["me"].fields["finish_actions"], [b["F"]]) and (first or _same(b["start"].fields["transitions"], b["start"].fields["transitions"])),
                                      "handler state or the match's own action lists were modified")
                    nob += cl.n
        # ---- (3) epilogue: returns sm unchanged
        ok_epi = len(epilogue) == 1 and isinstance(epilogue[0], ast.Return) and isinstance(epilogue[0].value, ast.Name) and epilogue[0].value.id == "sm"
        cl = Clauses(rep, prop, fnq, "epilogue", [], None)
        cl.structural("epilogue.returns-sm", ok_epi, "after the loop the function must return sm without further edits (structural check of the AST tail)")
        nob += cl.n
    finally:
        Engine.mutable_sets = old_ms
    return nob


# ------------------------------------------------------------------------------------------------ end

def _real_end_mismatch(nmfu):
    m = nmfu.EndMatch()
    S, C, F = object(), object(), object()
    m.start_actions.append(S), m.char_actions.append(C), m.finish_actions.append(F)
    handler = nmfu.DFState()
    try:
        sm = m.convert({nmfu.ErrorReasons.NO_MATCH: handler})
    except Exception as e:
        return f"EndMatch.convert raises {type(e).__name__}"
    st = sm.starting_state
    cons = [t for t in st.transitions if not t.error_handling]
    errs = [t for t in st.transitions if t.error_handling]
    if len(cons) != 1 or len(errs) != 1:
        return f"{len(cons)} consuming / {len(errs)} error transitions"
    c, e = cons[0], errs[0]
    if c.on_values != [nmfu.DFTransition.End] or c.is_fallthrough or c.actions != [S, C, F] or c.target not in sm.accepting_states:
        return f"End transition: on={c.on_values!r} ft={c.is_fallthrough} actions ok={c.actions == [S, C, F]} accepting target={c.target in sm.accepting_states}"
    if e.on_values != [nmfu.DFTransition.Else] or not e.is_fallthrough or e.target is not handler or e.actions != [S]:
        return f"Else transition: on={e.on_values!r} ft={e.is_fallthrough} to handler={e.target is handler}"
    return None


def prove_endmatch(rep, nmfu, program, prop):
    fnq = "EndMatch.convert"
    rep.fn(fnq)
    box = {}
    old_ms = getattr(Engine, "mutable_sets", False)
    Engine.mutable_sets = True
    nob = 0
    try:
        def body(eng):
            S, Cc, F = Seg("start_actions"), Seg("char_actions"), Seg("finish_actions")
            h = SObj(nmfu.DFState, {"transitions": HList([Seg("handler transitions")])})
            me = SObj(nmfu.EndMatch, {"start_actions": HList([S]), "finish_actions": HList([F]), "char_actions": HList([Cc])})
            v, _ = call_function(eng, fnq, [HDict({nmfu.ErrorReasons.NO_MATCH: h})], self_obj=me)
            return (v, dict(S=S, C=Cc, F=F, h=h, me=me)), {}
        for ri, r in enumerate(explore(program, body, contracts=DEBUG_CONTRACTS)):
            def replay(clause):
                bad = _real_end_mismatch(nmfu)
                return (bad, True) if bad else ("the real function builds the prescribed machine", False)
            cl = Clauses(rep, prop, fnq, str(ri), r.pc, replay)
            if r.exits or r.dead is not False or r.value is None:
                cl.fail("no-exception", f"raises {[e.exc_cls.__name__ for e in r.exits]}")
                nob += cl.n
                continue
            cl.ok("no-exception")
            sm, b = r.value
            End, Else = nmfu.DFTransition.End, nmfu.DFTransition.Else
            states = _items(sm.fields["states"]) if isinstance(sm, SObj) else []
            cl.structural("two-states", isinstance(sm, SObj) and len(states) == 2 and sm.fields["starting_state"] is states[0], "the machine must consist of a start state and one further state")
            if isinstance(sm, SObj) and len(states) == 2:
                s0, s1 = states
                trs = [_tr(t) for t in _items(s0.fields["transitions"])]
                cons = [t for t in trs if t["eh"] is False]
                errs = [t for t in trs if t["eh"] is True]
                cl.structural("two-transitions", len(trs) == 2 and len(cons) == 1 and len(errs) == 1, f"start state has {len(cons)} consuming + {len(errs)} error transitions")
                if len(cons) == 1 and len(errs) == 1:
                    c, e = cons[0], errs[0]
                    cl.structural("end.symbol", len(c["on"]) == 1 and c["on"][0] is End, f"the matching transition is on {c['on']!r}, expected exactly [End] (no data byte may match `end`)")
                    cl.structural("end.target", c["target"] is s1 and c["ft"] is False and _items(s1.fields["transitions"]) == [], "End must lead (consuming) to the second state, which has no transitions")
                    cl.structural("end.actions", _same(c["actions"], [b["S"], b["C"], b["F"]]), f"actions {_names(c['actions'])}, expected start ++ char ++ finish")
                    cl.structural("else.symbol", len(e["on"]) == 1 and e["on"][0] is Else, f"mismatch transition on {e['on']!r}")
                    cl.structural("else.target", e["target"] is b["h"] and e["ft"] is True, "every data byte must go to current_error_handlers[NO_MATCH] as a fall-through error transition")
                    cl.structural("else.actions", _same(e["actions"], [b["S"]]), f"actions {_names(e['actions'])}, expected the start actions only")
                    cl.structural("accepting", _same(sm.fields["accepting_states"], [s1]), "exactly the second state is accepting")
                    cl.structural("frame", len(_items(b["h"].fields["transitions"])) == 1 and _same(b["me"].fields["start_actions"], [b["S"]]), "handler state or the match's action lists were modified")
            nob += cl.n
    finally:
        Engine.mutable_sets = old_ms
    return nob


# ------------------------------------------------------------------------------------------------ wait

def _real_wait_mismatch(nmfu):
    """replay: wait "ab" under a handler; the shape (i)-(iii) of the property on the real machine"""
    inner = nmfu.DirectMatch("ab")
    w = nmfu.WaitMatch(inner)
    C = nmfu.CallHook("per_char")
    w.char_actions.append(C)
    inner.char_actions.append(C)
    handler = nmfu.DFState()
    try:
        sm = w.convert({nmfu.ErrorReasons.NO_MATCH: handler})
    except Exception as e:
        return f"WaitMatch.convert raises {type(e).__name__}"
    for st in sm.states:
        for t in st.transitions:
            if t.target is handler:
                return "a transition to the handler survives: the wait can fail"
            if t.error_handling:
                if t.target is not sm.starting_state:
                    return "a mismatch transition does not restart the pattern"
                if (st is sm.starting_state) == bool(t.is_fallthrough):
                    return "mismatch transitions must consume at the start state and fall through (re-dispatch the byte) elsewhere"
    return None


def prove_wait(rep, nmfu, program, prop):
    """whole function, for ONE arbitrary (state, transition) pair handed out by transitions_pointing_to; by contract:
    self.match_contents.convert(handlers) returns the inner machine, sm.transitions_pointing_to(h, True) returns pairs whose transition
    targets h.  The loop body touches only the transition at hand (clause `frame`), so iterations are independent and one arbitrary
    pair covers every iteration.  Nothing is extracted by pattern: helper methods a refactoring introduces are simply inlined."""
    fnq = "WaitMatch.convert"
    rep.fn(fnq)
    if program.proto.funcs.get(fnq) is None:
        rep.unavailable(f"{prop}/pyvc/{fnq}/extraction", "function not found")
        return 0
    nob = 0
    old_ms = getattr(Engine, "mutable_sets", False)
    Engine.mutable_sets = True
    try:
        for where in ("start", "inner", "outside"):
            ft0, eh0 = z3.Bool("ft0"), z3.Bool("eh0")
            box = {}

            def body(eng, where=where):
                Cc = Seg("char_actions")
                A = Seg("transition actions")
                ON = Seg("transition symbols")
                h = SObj(nmfu.DFState, {"transitions": HList([Seg("handler transitions")])})
                start = SObj(nmfu.DFState, {"transitions": HList([])})
                inner = SObj(nmfu.DFState, {"transitions": HList([])})
                outside = SObj(nmfu.DFState, {"transitions": HList([])})
                src = {"start": start, "inner": inner, "outside": outside}[where]
                tr = SObj(nmfu.DFTransition, {"on_values": HList([ON]), "target": h, "is_fallthrough": ft0, "error_handling": eh0, "actions": HList([A])})
                src.fields["transitions"].items.append(tr)
                sm = SObj(nmfu.DFA, {"accepting_states": HList([]), "starting_state": start, "states": HList([start, inner])})
                pat = SObj(nmfu.DirectMatch, {"start_actions": HList([]), "finish_actions": HList([]), "char_actions": HList([]), "match_contents": "x", "__sm": sm})
                me = SObj(nmfu.WaitMatch, {"start_actions": HList([]), "finish_actions": HList([]), "char_actions": HList([Cc]), "match_contents": pat})
                d = dict(Cc=Cc, A=A, ON=ON, h=h, start=start, inner=inner, outside=outside, tr=tr, sm=sm, src=src, me=me)
                box["cur"] = d
                v, _ = call_function(eng, fnq, [HDict({nmfu.ErrorReasons.NO_MATCH: h})], self_obj=me)
                d["ret"] = v
                return d, {}
            cs = dict(DEBUG_CONTRACTS)
            cs["DirectMatch.convert"] = lambda eng, a, kw: a[0].fields["__sm"]

            def tpt(eng, a, kw):
                d = box["cur"]
                if a[0] is not d["sm"] or a[1] is not d["h"]:
                    raise Unsupported("transitions_pointing_to called on something other than (inner machine, no-match handler)")
                incl = a[2] if len(a) > 2 else kw.get("include_states", False)
                return HList([(d["src"], d["tr"])]) if incl else HList([d["tr"]])
            cs["DFA.transitions_pointing_to"] = tpt
            for ri, r in enumerate(explore(program, body, contracts=cs)):
                def replay(clause):
                    bad = _real_wait_mismatch(nmfu)
                    return (bad, True) if bad else ("wait \"ab\" built by the real function has the prescribed shape", False)
                cl = Clauses(rep, prop, fnq, f"{where}.{ri}", r.pc, replay)
                if r.exits or r.dead is not False or r.value is None:
                    cl.fail("iteration.no-exception", f"raises {[e.exc_cls.__name__ for e in r.exits]}")
                    nob += cl.n
                    continue
                cl.ok("iteration.no-exception")
                b = r.value
                t = _tr(b["tr"])
                cl.structural("returns-inner-machine", b["ret"] is b["sm"], "the function must return the (edited) inner machine")
                if where == "outside":
                    # a state reached only through an attached action is not part of what is waited for: untouched
                    cl.structural("iteration.outside-untouched", t["target"] is b["h"] and _same(t["actions"], [b["A"]]) and t["ft"] is ft0 and t["eh"] is eh0, "a transition of a state outside the waited-for machine was rewritten")
                else:
                    cl.structural("iteration.no-edge-to-handler", t["target"] is b["start"], "a mismatch transition still reaches the handler: the wait could fail")
                    cl.structural("iteration.error-handling", t["eh"] is True, "the retargeted transition must be marked error handling")
                    cl.structural("iteration.symbols-kept", _same(t["on"], [b["ON"]]), "the symbols of the transition changed")
                    if where == "start":
                        cl.structural("iteration.start-consumes", t["ft"] is False, "at the pattern's start state the offending byte must be consumed (skipped)")
                        cl.structural("iteration.start-actions", _same(t["actions"], [b["A"], b["Cc"]]), f"actions {_names(t['actions'])}, expected the old ones followed by the per-character actions")
                    else:
                        cl.structural("iteration.inner-keeps-kind", t["ft"] is ft0, "away from the start state the transition must stay as the inner machine made it (a fall-through: the byte is re-dispatched at the start)")
                        cl.structural("iteration.inner-actions", _same(t["actions"], [b["A"]]), f"actions {_names(t['actions'])}, expected the old ones unchanged")
                cl.structural("iteration.frame", _same(b["sm"].fields["states"], [b["start"], b["inner"]]) and b["sm"].fields["starting_state"] is b["start"] and _items(b["sm"].fields["accepting_states"]) == []
                              and all(len(_items(s.fields["transitions"])) == (1 if s is b["src"] else 0) for s in (b["start"], b["inner"], b["outside"])) and len(_items(b["h"].fields["transitions"])) == 1
                              and _same(b["me"].fields["char_actions"], [b["Cc"]]),
                              "something other than the transition at hand was modified")
                nob += cl.n
    finally:
        Engine.mutable_sets = old_ms
    return nob


def prove_pointing_to(rep, nmfu, program, prop):
    """DFA.transitions_pointing_to / DFA.all_transitions - the contract the WaitMatch proof assumes: given the states DFA.dfs yields (by
    contract: an arbitrary selection of the machine's states), all_transitions yields exactly the transitions of those states (each once,
    with its state when asked), and transitions_pointing_to returns exactly those whose target is the given state.
    Shapes: three reached states with 2/0/1 transitions, every assignment of the three targets to {the asked state, another}; both
    values of include_states.  The functions are per-transition filters without carried state, so the shapes cover them up to symmetry."""
    import itertools
    n = 0
    old_ms = getattr(Engine, "mutable_sets", False)
    Engine.mutable_sets = True
    try:
        for fnq in ("DFA.all_transitions", "DFA.transitions_pointing_to"):
            rep.fn(fnq)
            for inc in (False, True):
                for hits in itertools.product((False, True), repeat=3):
                    def body(eng, fnq=fnq, inc=inc, hits=hits):
                        asked = SObj(nmfu.DFState, {"transitions": HList([])})
                        other = SObj(nmfu.DFState, {"transitions": HList([])})
                        ts = [SObj(nmfu.DFTransition, {"on_values": HList([chr(97 + i)]), "target": asked if hits[i] else other, "is_fallthrough": i == 1, "error_handling": i == 0, "actions": HList([])}) for i in range(3)]   # one error-handling, one fall-through, one plain: no kind may be filtered out
                        unreached_t = SObj(nmfu.DFTransition, {"on_values": HList(["z"]), "target": asked, "is_fallthrough": False, "error_handling": False, "actions": HList([])})
                        st = [SObj(nmfu.DFState, {"transitions": HList([ts[0], ts[1]])}), SObj(nmfu.DFState, {"transitions": HList([])}), SObj(nmfu.DFState, {"transitions": HList([ts[2]])})]
                        unreached = SObj(nmfu.DFState, {"transitions": HList([unreached_t])})
                        dfa = SObj(nmfu.DFA, {"states": HList(st + [unreached, asked, other]), "starting_state": st[0], "accepting_states": HList([]), "__reach": HList(list(st))})
                        if fnq.endswith("all_transitions"):
                            v, _ = call_function(eng, fnq, [inc], self_obj=dfa)
                        else:
                            v, _ = call_function(eng, fnq, [asked, inc], self_obj=dfa)
                        return (eng.iterate(v), ts, st, asked), {}
                    cs = dict(DEBUG_CONTRACTS)
                    cs["DFA.dfs"] = lambda eng, a, kw: a[0].fields["__reach"]
                    rs = list(explore(program, body, contracts=cs))
                    cl = Clauses(rep, prop, fnq, f"states={inc}.hits={''.join('1' if h else '0' for h in hits)}", [], None)
                    if len(rs) != 1 or rs[0].exits or rs[0].dead is not False:
                        cl.fail("no-exception", "raises / forks on a concrete machine")
                        n += cl.n
                        continue
                    got, ts, st, asked = rs[0].value
                    owner = {id(ts[0]): st[0], id(ts[1]): st[0], id(ts[2]): st[2]}
                    want = [t for i, t in enumerate(ts) if fnq.endswith("all_transitions") or hits[i]]
                    if inc:
                        ok = (len(got) == len(want) and all(isinstance(g, tuple) and len(g) == 2 for g in got)
                              and {id(g[1]) for g in got} == {id(t) for t in want} and all(g[0] is owner.get(id(g[1])) for g in got))
                    else:
                        ok = len(got) == len(want) and {id(g) for g in got} == {id(t) for t in want}
                    cl.structural("exactly-the-reached-transitions" + ("" if fnq.endswith("all_transitions") else "-into-the-state"), ok,
                                  f"returned {len(got)} item(s), expected the {len(want)} transition(s) of the reached states" + ("" if fnq.endswith("all_transitions") else " that enter the asked state") + (", each with its own state" if inc else ""))
                    n += cl.n
    finally:
        Engine.mutable_sets = old_ms
    return n


def run(rep, prop, which, nmfu, program):
    """which: subset of {"DirectMatch", "CaseDirectMatch", "EndMatch", "WaitMatch"}.  An engine limit (construct outside the modelled
    subset, e.g. after a rewrite of the function) is reported as undecided, never as a violation."""
    n = 0
    for w in which:
        try:
            if w in ("DirectMatch", "CaseDirectMatch"):
                n += prove_chain(rep, nmfu, program, prop, w)
            elif w == "EndMatch":
                n += prove_endmatch(rep, nmfu, program, prop)
            elif w == "WaitMatch":
                n += prove_wait(rep, nmfu, program, prop)
            elif w == "pointing_to":
                n += prove_pointing_to(rep, nmfu, program, prop)
        except (Unsupported, NeedFork, KeyError) as e:
            rep.unavailable(f"{prop}/pyvc/{w}.convert/engine", f"outside the modelled Python subset: {type(e).__name__}: {e}")
    rep.trust("vf/pyvc semantics of the Python subset (heap objects, arbitrary list segments `Seg`: only concatenation-like uses allowed, generators evaluated eagerly)")
    rep.assume("debug")
    return n
