"""C11, proved part: the API-declaration contract of CodegenCtx.generate_header / generate_source for ALL flag assignments.

The two functions are executed symbolically from the real AST (pyvc) with every ProgramFlag a symbolic Boolean constrained only by
the consistency predicate that C19 proves of load_commandline_flags (implies / exclusive_with, read from the real metadata).  Every
branch on a flag forks the path, so each path carries a concrete header (source skeleton) text together with the literals of the
flags that were actually read; the paths partition the whole assignment space, flags never read cannot influence the text.  On each
path the emitted text is parsed (vf/csem/cparse.parse_header) and the declaration contract (c11.header_api) is evaluated for every
completion of the contract-relevant flags that the path leaves open.

Bound that remains: the *program interface* is a representative one (the CodegenCtx of a real compiled program with two hooks, a
finish code, two yield codes and an output of every kind); lists are iterated element-wise by the code, so their length is fixed.
Modelled by contract (trusted, 5 methods, cross-checked against the real class on every run): Outputter.  Replaced by markers in
generate_source: the four _generate_*_implementation bodies (they are the subject of the csem obligations)."""
import itertools, textwrap, random
import z3
from .. import common
from ..common import Finding
from ..pyvc.sym import *
from ..pyvc.driver import Program, explore, call_function
from ..pyvc.interp import SObj, HList, HDict
from ..csem import cparse

REPRESENTATIVE = """
out str[8] s;
out unterminated str[4] u;
out raw{uint16_t} r;
out int n = 0;
out int{unsigned, size 1} b = 0;
out bool f = false;
out enum{A,B} e;
hook h1;
hook h2;
finishcode F1;
yieldcode Y1, Y2;
parser {
    s += /[a-c]+/; "x"; h1(); u += "ab"; r += /y/; n = [n + 1]; h2(); yield Y1; optional { "z"; finish F1; } "w"; yield Y2; f = true; e = B; b = 3;
}
"""
RELEVANT = ["EOF_SUPPORT", "DYNAMIC_MEMORY", "HOOK_GLOBAL", "HOOK_PER_STATE", "INDIRECT_START_PTR", "INCLUDE_USER_PTR", "USE_PACKED_ENUMS", "USE_PRAGMA_ONCE", "USE_CPLUSPLUS_GUARD"]


class Buf:
    def __init__(self):
        self.pieces = []


def _conc(v):
    v = norm_str(v)
    if isinstance(v, str):
        return v
    if isinstance(v, SStr) and v.is_concrete():
        return v.concrete()
    if is_symbolic(v) or isinstance(v, SStr):
        raise Unsupported("symbolic text written to an Outputter (path not forked)")
    return str(v)


def outputter_contracts(nmfu):
    def o_init(eng, a, kw):
        me = a[0]
        indent = a[1] if len(a) > 1 else kw.get("indent", 0)
        target = a[2] if len(a) > 2 else kw.get("target")
        me.fields["result"] = target if target else Buf()
        me.fields["indent"] = indent

    def o_enter(eng, a, kw):
        return SObj(nmfu.Outputter, {"result": a[0].fields["result"], "indent": a[0].fields["indent"] + nmfu.Outputter.SHIFT_WIDTH})

    def o_add(eng, a, kw):
        if eng.guard() is not True:
            raise NeedFork(eng.sites(), "Outputter.add under a symbolic guard")
        a[0].fields["result"].pieces.append(" " * a[0].fields["indent"] + kw.get("sep", " ").join(_conc(x) for x in a[1:]) + kw.get("end", "\n"))

    def o_value(eng, a, kw):
        return "".join(a[0].fields["result"].pieces)

    def o_iadd(eng, a, kw):
        if eng.guard() is not True:
            raise NeedFork(eng.sites(), "Outputter += under a symbolic guard")
        a[0].fields["result"].pieces.append(textwrap.indent(_conc(a[1]), " " * a[0].fields["indent"]))
        return a[0]
    return {"Outputter.__init__": o_init, "Outputter.__enter__": o_enter, "Outputter.add": o_add, "Outputter.value": o_value, "Outputter.__iadd__": o_iadd,
            "Outputter.__exit__": lambda eng, a, kw: None}


def outputter_crosscheck(rep, nmfu, seed):
    """the Outputter contract against the real class on random call sequences (validates the trusted stub; decides no property)"""
    rnd = random.Random(seed)
    C = outputter_contracts(nmfu)
    ok = True
    for _ in range(60):
        real = nmfu.Outputter()
        mod = SObj(nmfu.Outputter, {})
        C["Outputter.__init__"](None, [mod], {})
        stack = [(real, mod)]

        class E:
            @staticmethod
            def guard():
                return True
        for _ in range(rnd.randrange(1, 12)):
            r, m = stack[-1]
            k = rnd.randrange(4)
            if k == 0:
                args = [rnd.choice(["a", "int x;", "", "{", "b c"]) for _ in range(rnd.randrange(0, 3))]
                r.add(*args)
                C["Outputter.add"](E, [m] + args, {})
            elif k == 1:
                t = rnd.choice(["x\ny\n", "", "  q\n\nz\n", "one line\n"])
                r += t
                C["Outputter.__iadd__"](E, [m, t], {})
            elif k == 2 and len(stack) < 4:
                stack.append((r.__enter__(), C["Outputter.__enter__"](E, [m], {})))
            elif k == 3 and len(stack) > 1:
                stack.pop()
        if stack[0][0].value() != C["Outputter.value"](E, [stack[0][1]], {}):
            ok = False
            break
    oid = "C11/crosscheck/Outputter-contract"
    if ok:
        rep.bounded_count("Outputter contract equal to the real class on random call sequences", 60)
    else:
        rep.undecided_ob(oid, "the Outputter stub of vf/props/c11_proofs.py no longer matches nmfu.Outputter: the proved part is not meaningful until it is updated")
    return ok


def consistency(nmfu, FL):
    cs = []
    for f in nmfu.ProgramFlag:
        for g in f.implies:
            cs.append(z3.Implies(FL[f], FL[nmfu.ProgramFlag(g)]))
        for g in f.exclusive_with:
            cs.append(z3.Implies(FL[f], z3.Not(FL[nmfu.ProgramFlag(g)])))
    return cs


def _literal_map(nmfu, pc, FL):
    inv = {v.decl().name(): k for k, v in FL.items()}
    out = {}
    for c in pc:
        neg = False
        e = c
        if z3.is_not(e):
            neg, e = True, e.arg(0)
        if z3.is_const(e) and e.decl().name() in inv:
            out[inv[e.decl().name()].name] = not neg
    return out


def prove(rep, nmfu, program):
    from ..csem import tv
    c = tv.compile_program(nmfu, REPRESENTATIVE, ["-O1", "-feof-support", "-fyield-support"], path="representative")
    cc = c.cctx
    name = cc.program_name
    FL = {f: z3.Bool("flag_" + f.name) for f in nmfu.ProgramFlag}
    cons = consistency(nmfu, FL)
    contracts = {"ProgramData.imbue": lambda e, a, k: a[0], "ProgramData.lookup": lambda e, a, k: None}
    contracts.update(outputter_contracts(nmfu))
    for part in ("start", "feed", "end", "free"):
        contracts[f"CodegenCtx._generate_{part}_implementation"] = (lambda part: lambda eng, a, kw: f"<<{part}>>\n")(part)
    options = dict(nmfu.ProgramData._options)

    def mk(eng):
        eng.class_store.setdefault(nmfu.ProgramData, {})["_flags"] = HDict(dict(FL))
        eng.class_store[nmfu.ProgramData]["_options"] = HDict(dict(options))
        eng.pc.extend(cons)
        return SObj(nmfu.CodegenCtx, {k: eng.wrap(v) for k, v in cc.__dict__.items()})
    rep.fn("CodegenCtx.generate_header", "CodegenCtx.generate_source", "CodegenCtx._generate_state_object_decl", "CodegenCtx._get_state_object_out_declaration",
           "CodegenCtx._generate_out_enum", "CodegenCtx._is_dynamic", "CodegenCtx._get_string_char_type")
    nob = 0
    # ---------------- header
    runs = explore(program, lambda eng: call_function(eng, "CodegenCtx.generate_header", [], self_obj=mk(eng)), contracts=contracts, fork_functions="*", max_runs=20000)
    npaths = 0
    seen_fail = set()
    agg = {}
    for r in runs:
        if r.exits or r.dead is not False:
            oid = "C11/pyvc/CodegenCtx.generate_header/no-exception"
            if oid not in seen_fail:
                seen_fail.add(oid)
                rep.failed_ob(Finding("C11", oid, "generate_header|exception", f"generate_header raises {[e.exc_cls.__name__ for e in r.exits]} under {_literal_map(nmfu, r.pc, FL)}", replayed=False))
            continue
        npaths += 1
        text = r.value
        lits = _literal_map(nmfu, r.pc, FL)
        try:
            h = cparse.parse_header(text)
        except Exception as e:
            rep.undecided_ob("C11/pyvc/CodegenCtx.generate_header/parse", f"emitted header outside the parsed subset under {lits}: {e}")
            continue
        open_flags = [f for f in RELEVANT if f not in lits]
        for vals in itertools.product([False, True], repeat=len(open_flags)):
            fm = dict(lits)
            fm.update(dict(zip(open_flags, vals)))
            extra = [FL[nmfu.ProgramFlag[k]] if v else z3.Not(FL[nmfu.ProgramFlag[k]]) for k, v in zip(open_flags, vals)]
            if open_flags and not feasible(r.pc + extra):
                continue
            for item in __import__("vf.props.c11", fromlist=["header_api"]).header_api(h, text, fm, name, cc.hooks, cc.finish_codes, cc.yield_codes):
                a = agg.setdefault(item[1], {"ok": 0, "bad": None})
                if item[0] == "proved":
                    a["ok"] += 1
                elif a["bad"] is None:
                    a["bad"] = (item[2], fm, text)
    for clause, a in sorted(agg.items()):
        oid = f"C11/pyvc/CodegenCtx.generate_header/{clause}"
        nob += 1
        if a["bad"] is None:
            rep.discharged_ob(oid, "pyvc-paths", 0.0, sample=f"{oid} ({a['ok']} flag-assignment classes)")
        else:
            what, fm, text = a["bad"]
            flags = replay_flags(nmfu, fm)
            real = replay_header(nmfu, flags)
            rep.failed_ob(Finding("C11", oid, f"generate_header|{clause}", f"for the flag assignment {sorted(k for k, v in fm.items() if v)}: {what}; real code with {' '.join(flags)}: {real[0]}",
                                  replay={"flags": flags, "program": REPRESENTATIVE, "clause": clause, "observed": real[0]}, replayed=real[1]))
    rep.coverage["generate_header_paths"] = npaths
    if npaths == 0:
        rep.undecided_ob("C11/pyvc/CodegenCtx.generate_header/vacuity", "no path through generate_header")
    # ---------------- source skeleton
    runs = explore(program, lambda eng: call_function(eng, "CodegenCtx.generate_source", [], self_obj=mk(eng)), contracts=contracts, fork_functions="*", max_runs=20000)
    bad = None
    n = 0
    for r in runs:
        if r.exits or r.dead is not False:
            bad = (f"raises {[e.exc_cls.__name__ for e in r.exits]}", _literal_map(nmfu, r.pc, FL))
            continue
        text = r.value
        lits = _literal_map(nmfu, r.pc, FL)
        parts = [p for p in ("start", "feed", "end", "free") if f"<<{p}>>" in text]
        counts = [text.count(f"<<{p}>>") for p in parts]
        for vals in itertools.product([False, True], repeat=2):
            fm = dict(zip(["EOF_SUPPORT", "DYNAMIC_MEMORY"], vals))
            if any(k in lits and lits[k] != v for k, v in fm.items()):
                continue
            extra = [FL[nmfu.ProgramFlag[k]] if v else z3.Not(FL[nmfu.ProgramFlag[k]]) for k, v in fm.items()]
            if not feasible(r.pc + extra):
                continue
            n += 1
            want = ["start", "feed"] + (["end"] if fm["EOF_SUPPORT"] else []) + (["free"] if fm["DYNAMIC_MEMORY"] else [])
            if parts != want or any(cnt != 1 for cnt in counts) or (("#include <stdlib.h>" in text) != fm["DYNAMIC_MEMORY"]) or f'#include "{name}.h"' not in text:
                bad = bad or (f"source defines {parts} (stdlib included: {'#include <stdlib.h>' in text}) but exactly {want} are required", fm)
    oid = "C11/pyvc/CodegenCtx.generate_source/definitions"
    nob += 1
    if bad is None and n:
        rep.discharged_ob(oid, "pyvc-paths", 0.0, sample=f"{oid} ({n} flag-assignment classes)")
    elif bad is None:
        rep.undecided_ob(oid, "no path through generate_source")
    else:
        rep.failed_ob(Finding("C11", oid, "generate_source|definitions", f"for {bad[1]}: {bad[0]}", replay={"flags": replay_flags(nmfu, bad[1]), "program": REPRESENTATIVE}, replayed=False))
    rep.trust("vf/props/c11_proofs.py: contract of the Outputter class (cross-checked against the real class on random call sequences on every run)",
              "representative program interface for the proved API contract (2 hooks, 1 finish code, 2 yield codes, one output of every kind): list lengths are fixed, flags are not")
    return nob


def replay_flags(nmfu, fm):
    """a command line that produces the assignment (for the replay on the real code)"""
    fl = ["-O1"]
    for k, v in sorted(fm.items()):
        nm = k.lower().replace("_", "-")
        fl.append(("-f" if v else "-fno-") + nm)
    return fl


def replay_header(nmfu, flags):
    from ..csem import tv
    from . import c11
    import re
    try:
        src = REPRESENTATIVE
        if "-fno-indirect-start-ptr" in flags or "-fno-yield-support" in flags:
            # yields need indirect start pointers: replay on the same interface without them
            src = re.sub(r"yield Y\d;", "", src.replace("yieldcode Y1, Y2;", ""))
        else:
            flags = flags + ["-fyield-support"]
        c = tv.compile_program(nmfu, src, flags, path="representative")
        h = cparse.parse_header(c.header)
        res = c11.header_api(h, c.header, c.flagmap, c.name, c.cctx.hooks, c.cctx.finish_codes, c.cctx.yield_codes)
        badr = [x for x in res if x[0] == "refuted"]
        if badr:
            return (f"{badr[0][1]}: {badr[0][2]}", True)
        return ("the real header satisfies the contract under these flags", False)
    except Exception as e:
        return (f"could not replay: {type(e).__name__}: {e}", False)


def worker(_=None):
    """runs the proved part in a child process (so that it overlaps with the per-program runs); returns picklable results"""
    from ..common import Report
    nmfu = common.load_nmfu()
    rep = Report("C11", "other")
    try:
        outputter_crosscheck(rep, nmfu, common.seed())
        prove(rep, nmfu, Program(nmfu, common.repo_source()))
    except (Unsupported, NeedFork) as e:
        rep.unavailable("C11/pyvc/CodegenCtx.generate_header/engine", f"outside the modelled Python subset: {type(e).__name__}: {e}")
    return {"obligations": rep.obligations, "discharged": rep.discharged, "by_backend": rep.by_backend, "findings": [(f.obligation, f.signature, f.what, f.replay, f.replayed) for f in rep.findings],
            "undecided": rep.undecided, "unavail": rep.unavail, "functions": rep.functions, "trusted": rep.trusted, "coverage": rep.coverage, "bounded": rep.bounded, "samples": rep.samples}


def merge(rep, res):
    rep.obligations += res["obligations"]
    rep.discharged += res["discharged"]
    for k, v in res["by_backend"].items():
        rep.by_backend[k] = rep.by_backend.get(k, 0) + v
    for (ob, sig, what, rp, rpd) in res["findings"]:
        f = Finding("C11", ob, sig, what, replay=rp, replayed=rpd)
        f.counted = True
        rep.findings.append(f)
    rep.undecided += [tuple(u) for u in res["undecided"]]
    rep.unavail += [tuple(u) for u in res.get("unavail", [])]
    rep.fn(*res["functions"])
    rep.trust(*res["trusted"])
    rep.coverage.update(res["coverage"])
    for k, v in res["bounded"].items():
        rep.bounded_count(k, v)
    rep.samples = res["samples"][:4] + rep.samples
