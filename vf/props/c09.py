"""C09 - acceptance implies one-byte-lookahead unambiguity (run-time contracts, bounded-exact)."""
from . import _rtcprops as R

TEXT = ("Exceptional post-conditions, computed from the pre-state tables (the code's own bookkeeping is not trusted): DFA.append_after returns normally => no joined state has a byte on which the first part "
        "continues and the second part starts with different targets; CaseNode._merge returns normally => no reachable product state completes two clauses / completes one while another continues (non-greedy), "
        "greedy ties have a unique highest priority; OptionalNode/LoopNode reject empty-matching bodies / accept->accept edges; DFState.transition never replaces an explicit symbol silently and keeps symbols on one transition only. "
        "Evaluated on every call made while compiling corpus + generated programs + all statement pairs A;B + generated clause sets.")


def main():
    sel = lambda c: "C09" in c or c.startswith("DFState.transition") or c in ("DFA.append_after", "CaseNode._merge", "OptionalNode.convert", "LoopNode.convert")
    rep, outs = R.run_contracts("C09", sel, ["DFA.append_after", "CaseNode._merge", "DFState.transition", "OptionalNode.convert", "LoopNode.convert"], ["dfa", "merge"], "all", TEXT,
                                ["DFA.append_after", "CaseNode._merge", "DFState.transition", "OptionalNode.convert", "LoopNode.convert"])
    # proved parts: refusal logic of the case merge for all priorities (pyvc + z3); literal inner machines hand over only error transitions
    # programs whose ambiguity is established independently (argued in their first line) must be refused, whatever order the joins are made in
    from .. import common, progs
    from ..common import Finding
    from ..csem import tv
    nm = common.load_nmfu()
    must = [p_ for p_ in progs.corpus(include_fail=True) if "C09: must be refused" in p_["src"]]
    for p_ in must:
        for fl in (["-O0"], ["-O1"], ["-O3"]):
            try:
                tv.compile_program(nm, p_["src"], fl + ["-feof-support", "-fyield-support"], path=p_["name"])
                rep.bounded_violation(Finding("C09", f"C09/must-refuse/{p_['name']}", f"must-refuse|{p_['name']}|{fl[0]}", f"{p_['name']} [{fl[0]}]: accepted although it is ambiguous: {p_['src'].splitlines()[0][3:]}",
                                              replay={"program": p_["name"], "source": p_["src"], "flags": fl}, replayed=True))
            except nm.NMFUError:
                rep.bounded_count("ambiguous programs (argued independently) refused", 1)
            except Exception as e:
                rep.undecided_ob(f"C09/must-refuse/{p_['name']}", f"compiler internal error {type(e).__name__}")
    from . import merge_proofs, c09_proofs
    merge_proofs.run(rep, "C09")
    c09_proofs.run(rep, "C09")
    return R.finish(rep, TEXT + TEXT2, "C09")


TEXT2 = (" Proved (pyvc on the real AST of CaseNode._merge.create_real_state_of, merged states of up to 3 clauses, every acceptance pattern, greedy and not, symbolic priorities): a merge in which two clauses finish, or one finishes "
         "while another continues, is refused unless the case is greedy; a greedy merge is refused exactly when no finishing clause has the strictly highest priority, and otherwise the owner has it (z3). "
         "Proved (pyvc on the real AST of DFState.transition, default mode, states with 1-2 existing transitions, arbitrary symbol lists, symbolic kind / error flags): the duplicate-transition guard refuses only "
         "a transition that overlaps one of different behaviour, never returns normally with such an overlap in place, leaves the state untouched for a duplicate, and otherwise appends or merges into an identical transition.")


def replay(path):
    return _replay(path)


def _replay(path):
    import json
    from .. import common
    from ..rtc import core, dfa_contracts
    from ..csem import tv
    d = json.load(open(path))["input"]
    nmfu = common.load_nmfu()
    dfa_contracts.install(nmfu)
    dfa_contracts.install_merge(nmfu)
    src = d.get("source")
    if src is None:
        from .. import progs
        src = next(p["src"] for p in progs.corpus(include_fail=True) if p["name"] == d["program"])
    try:
        tv.compile_program(nmfu, src, d["flags"])
        print("compiler: accepted")
    except nmfu.NMFUError as e:
        print("compiler: rejected", type(e).__name__)
    for f in core.REC.fails:
        print("contract fired:", f["contract"], f["msg"])
    return 0
