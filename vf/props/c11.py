"""C11 - every accepted program compiles cleanly in every option combination; exactly the documented API is declared.

Per program x option row (pairwise covering array of the code-generation options; thorough: 3-wise sample):
  * API-declaration contract evaluated on the parsed header/source text (exact);
  * well-formedness obligations from csem (gotos resolve to labels of the same function at the head of the right case, members declared);
  * gcc -fsyntax-only -Wall -Werror (source) and g++ (header) as the decision procedure for "is valid warning-free C / C++".
All of this is bounded over programs x rows and labelled so."""
import itertools, random, re
from .. import common, progs, gen
from . import _tvcommon as T

PARAMS = [
    ("opt", ["-O0", "-O1", "-O2", "-O3"]),
    ("eof", [[], ["-feof-support"]]),
    ("yield", [[], ["-fyield-support"]]),
    ("indirect", [[], ["-findirect-start-ptr"]]),
    ("zerolen", [[], ["-fzero-len-input-support"]]),
    ("strict", [[], ["-fstrict-done-token-generation"]]),
    ("storage", [[], ["-fallocate-str-space-dynamic"], ["-fallocate-str-space-dynamic-on-demand"], ["-fallocate-str-space-dynamic-on-demand", "-fdelete-string-free-memory"]]),
    ("u8", [[], ["-fstrings-as-u8"]]),
    ("unsafeidx", [[], ["-funsafe-string-indexing"]]),
    ("hooks", [[], ["-fhook-per-state"]]),
    ("userptr", [[], ["-finclude-user-ptr"]]),
    ("pragma", [[], ["-fuse-pragma-once"]]),
    ("cpp", [[], ["-fno-use-cplusplus-guard"]]),
    ("packed", [[], ["-fuse-packed-enums"]]),
    ("range", [[], ["--collapsed-range-length", "1"], ["--collapsed-range-length", "6"]]),
]


def covering_rows(strength, seed, cap=400):
    """greedy covering array: every `strength`-tuple of parameter values appears in some row"""
    rnd = random.Random(seed * 7919 + strength)
    idx = list(range(len(PARAMS)))
    need = set()
    for combo in itertools.combinations(idx, strength):
        for vals in itertools.product(*[range(len(PARAMS[i][1])) for i in combo]):
            need.add((combo, vals))
    rows = []
    while need and len(rows) < cap:
        best, best_gain = None, -1
        for _ in range(40):
            row = [rnd.randrange(len(p[1])) for p in PARAMS]
            # seed the candidate with one uncovered tuple
            (combo, vals) = next(iter(need)) if _ == 0 else rnd.choice(list(need)) if len(need) < 2000 else next(iter(need))
            for i, v in zip(combo, vals):
                row[i] = v
            gain = sum(1 for combo2 in itertools.combinations(idx, strength) if (combo2, tuple(row[i] for i in combo2)) in need)
            if gain > best_gain:
                best, best_gain = row, gain
        rows.append(best)
        for combo2 in itertools.combinations(idx, strength):
            need.discard((combo2, tuple(best[i] for i in combo2)))
    return rows, len(need)


def row_flags(row):
    fl = []
    for (name, vals), v in zip(PARAMS, row):
        x = vals[v]
        fl += [x] if isinstance(x, str) else list(x)
    return fl


def header_api(h, header_text, fm, name, hooks, finish_codes, yield_codes):
    """the API-declaration contract on a parsed header `h` (cparse.parse_header) for the flag assignment `fm` (dict flag name -> bool):
    list of ("proved", oid) / ("refuted", oid, what)"""
    U = name.upper()
    out = []

    def ok(oid):
        out.append(("proved", oid))

    def bad(oid, what):
        out.append(("refuted", oid, what))
    protos = {p["name"]: p for p in h["protos"]}
    want = {f"{name}_start", f"{name}_feed"}
    if fm["EOF_SUPPORT"]:
        want.add(f"{name}_end")
    if fm["DYNAMIC_MEMORY"]:
        want.add(f"{name}_free")
    hooks = list(hooks)
    if fm["HOOK_GLOBAL"]:
        want |= {f"{name}_{hk}_hook" for hk in hooks}
    if set(protos) != want:
        bad("prototypes", f"header declares {sorted(protos)} but the options require exactly {sorted(want)}")
    else:
        ok("prototypes")
    feed = protos.get(f"{name}_feed")
    if feed:
        ptype = "const uint8_t * * start" if fm["INDIRECT_START_PTR"] else "const uint8_t * start"
        if not feed["params"].startswith(ptype + " ,") and not feed["params"].startswith(ptype + ","):
            bad("feed-signature", f"feed parameters `{feed['params']}` do not start with `{ptype}`")
        else:
            ok("feed-signature")
    # hooks as members iff per-state
    members = set(h["members"])
    hook_members = {m for m in members if m.endswith("_hook")}
    want_m = {f"{hk}_hook" for hk in hooks} if fm["HOOK_PER_STATE"] else set()
    if hook_members != want_m:
        bad("hook-members", f"hook members {sorted(hook_members)} but options require {sorted(want_m)}")
    else:
        ok("hook-members")
    if ("userptr" in members) != bool(fm["INCLUDE_USER_PTR"]):
        bad("userptr", "user pointer member presence does not follow -finclude-user-ptr")
    else:
        ok("userptr")
    # result enumerators
    res = h["enums"].get(f"{name}_result")
    want_e = [f"{U}_OK", f"{U}_FAIL", f"{U}_DONE"] + [f"{U}_FINISH_{x}" for x in finish_codes] + [f"{U}_YIELD_{x}" for x in yield_codes]
    if res is None or sorted(res["values"]) != sorted(want_e) or len(set(res["values"])) != len(res["values"]):
        bad("result-enumerators", f"result enum has {res and res['values']} but exactly {want_e} are required")
    else:
        ok("result-enumerators")
    for en, d in h["enums"].items():
        if d["packed"] != bool(fm["USE_PACKED_ENUMS"]):
            bad(f"packed.{en}", "packed attribute does not follow -fuse-packed-enums")
            break
    else:
        ok("packed-enums")
    # guards
    pp = h["pp"]
    pragma = any(x.startswith("#pragma once") for x in pp)
    ifndef = [x for x in pp if x.startswith("#ifndef")]
    define = [x for x in pp if x.startswith("#define")]
    n_if = sum(1 for x in pp if x.startswith(("#ifdef", "#ifndef", "#if ")))
    n_endif = sum(1 for x in pp if x.startswith("#endif"))
    if fm["USE_PRAGMA_ONCE"]:
        good = pragma and not any(x.startswith(f"#ifndef {U}_H") for x in ifndef)
    else:
        good = (not pragma) and any(x.startswith(f"#ifndef {U}_H") for x in ifndef) and any(x.startswith(f"#define {U}_H") for x in define)
    if not good or n_if != n_endif:
        bad("include-guard", "include guard is not `#pragma once` xor a balanced #ifndef/#define/#endif")
    else:
        ok("include-guard")
    cpp_ok = (h["extern_c"] == (1 if fm["USE_CPLUSPLUS_GUARD"] else 0)) and h.get("extern_c_closed", 0) == h["extern_c"]
    if not cpp_ok:
        bad("cplusplus-guard", "extern \"C\" guard missing, duplicated or unbalanced")
    else:
        ok("cplusplus-guard")
    return out


def api_contract(Tt, rec):
    """exact check of the declared API against the options (on the real emitted header/source of this run)"""
    c = Tt.c
    h = Tt.hinfo
    fm = c.flagmap
    name = c.name
    out = []

    def ok(oid):
        out.append(("proved", "api/" + oid, "structural", 0.0))

    def bad(oid, what):
        out.append(("refuted", "api/" + oid, what, {"header_excerpt": c.header[:1500]}, True))
    for item in header_api(h, c.header, fm, name, c.cctx.hooks, c.cctx.finish_codes, c.cctx.yield_codes):
        if item[0] == "proved":
            ok(item[1])
        else:
            bad(item[1], item[2])
    # source defines exactly the declared functions (hooks excepted: they are the user's)
    defined = set(Tt.tu["order"])
    want_def = {f"{name}_start", f"{name}_feed"} | ({f"{name}_end"} if fm["EOF_SUPPORT"] else set()) | ({f"{name}_free"} if fm["DYNAMIC_MEMORY"] else set())
    if defined != want_def or len(Tt.tu["order"]) != len(defined):
        bad("definitions", f"source defines {sorted(Tt.tu['order'])} but exactly {sorted(want_def)} are required")
    else:
        ok("definitions")
    # gcc / g++ as decision procedure for validity
    from ..csem import creplay
    syn = creplay.syntax_check(c)
    for k, (rc, err) in syn.items():
        if rc != 0:
            out.append(("refuted", f"syntax/{k}", f"{'gcc' if k != 'cpp_header' else 'g++'} -fsyntax-only -Wall -Werror rejects the emitted {'source' if k == 'c' else 'header'}: {err.strip().splitlines()[0] if err.strip() else ''}",
                        {"compiler_output": err[-1500:]}, True))
        else:
            out.append(("bounded", f"syntax/{k}"))
    rec["extra"] = out


def main():
    thorough = common.tier() == "thorough"
    rows, missing = covering_rows(3 if thorough else 2, common.seed(), cap=120 if thorough else 60)
    optsets = {f"row{i}": row_flags(r) for i, r in enumerate(rows)}
    ps = progs.corpus(big=thorough)
    if not thorough:
        keep = ("corpus/", "example/test/string-types", "example/test/raw0", "example/test/macro", "example/test/condition-break2", "example/test/try-nested", "example/test/case2", "example/test/end-match", "example/test/foreach-number")
        ps = [p for p in ps if p["name"].startswith(keep)]
        ps += [p for p in progs.corpus(big=True) if p["name"] in ("example/lexer.nmfu", "example/http.nmfu")]
    ps += gen.generated_programs(60 if thorough else 20, common.seed())

    def extra(prog):
        # options a program needs in order to be accepted at all are forced on
        fl = []
        if re.search(r"\bend\b", prog["src"]):
            fl.append("-feof-support")
        if "yield" in prog["src"]:
            fl.append("-fyield-support")
        return fl
    text = ("Proved for ALL flag assignments consistent with the flag metadata (pyvc: generate_header / generate_source executed from the real AST with every flag symbolic, one path per combination of the flags read, "
            "emitted text concrete per path) on a representative program interface: the declaration contract below. Per program x option row in addition: "
            "API-declaration contract (start/feed always, end iff EOF support, free iff dynamic memory, hooks as prototypes xor members, exactly the result enumerators, guards) evaluated exactly on the emitted header/source; "
            "csem well-formedness (every goto has its label at the head of the right case of the same function, every member/enumerator used is declared); gcc/g++ -fsyntax-only -Wall -Werror as decision procedure for validity. "
            f"Bounded: {len(ps)} programs x {len(rows)} option rows ({'3' if thorough else '2'}-wise covering array over {len(PARAMS)} option parameters, {missing} tuples uncovered).")
    # proved part (all flag assignments, representative interface) in a child process, overlapping with the per-program runs
    import multiprocessing
    from . import c11_proofs
    pool = multiprocessing.get_context("fork").Pool(1)
    proved = pool.apply_async(c11_proofs.worker, (None,))
    rep, recs = T.run("C11", {"wellformed"}, "other", text, optsets=optsets, programs=ps, extra=extra, post=api_contract,
                      fns=["CodegenCtx.generate_header", "CodegenCtx.generate_source", "CodegenCtx._generate_state_object_decl", "CodegenCtx._generate_feed_implementation", "CodegenCtx._generate_end_implementation"])
    c11_proofs.merge(rep, proved.get(timeout=1500))
    pool.terminate()
    nb = 0
    for r in recs:
        for item in r.get("extra") or []:
            if item[0] == "bounded":
                nb += 1
    rep.bounded_count("gcc/g++ -fsyntax-only accepted", nb)
    rep.coverage["covering_array"] = {"strength": 3 if thorough else 2, "rows": len(rows), "uncovered_tuples": missing, "parameters": [p[0] for p in PARAMS]}
    rep.trust("gcc/g++ as decision procedure for 'valid warning-free C/C++' (static check of the artefact, nothing is executed)")
    return rep.finish(text, checker_cmd="./check C11")


def replay(path):
    import json
    d = json.load(open(path))
    print(json.dumps(d["input"], indent=1)[:3000])
    return 0
