"""Selection logic of CaseNode._merge (nested function create_real_state_of): which clause owns a merged state, and when the merge
must be refused - discharged from the real AST by pyvc.

The nested function is extracted from CaseNode._merge by name and executed for a merged state made of k = 1..3 (clause machine,
sub-state) pairs, for EVERY acceptance pattern of the sub-states, greedy and non-greedy, with SYMBOLIC integer priorities.  The
closure environment (self.greedy, priorities, corresponding_finish_states, new_dfa, converted_states) is supplied by the harness
with the shapes _merge itself builds (read off the same AST: an extraction failure is reported as undecided).
Obligations per path (C08 "the clause with the highest priority", C09 "ambiguous programs are rejected, never resolved silently"):
  * no pair finishes            -> state not accepting, no finish list changed, no error;
  * exactly one finishes        -> non-greedy with another clause still running: IllegalDFAStateConflictsError; otherwise that clause owns it;
  * several finish, non-greedy  -> IllegalDFAStateConflictsError;
  * several finish, greedy      -> the owner's priority is strictly greater than every other finishing clause's (z3), and if no
                                   strict maximum exists the merge is refused (z3: on a raising path two finishing clauses share the maximum);
  * normal return               -> the new state is registered (converted_states, new_dfa.states) and accepting iff it is owned.
Bounded in k (<= 3 clauses meeting in one merged state); unbounded in the priorities."""
import ast, itertools
import z3
from ..common import Finding
from ..pyvc.sym import *
from ..pyvc.sym import prove as zprove
from ..pyvc.driver import Program, explore
from ..pyvc.interp import SObj, HList, HDict, Closure, Engine

FNQ = "CaseNode._merge"


def prove(rep, nmfu, program, prop):
    node = program.proto.funcs.get(FNQ)
    inner = None
    if node is not None:
        for x in node.body:
            if isinstance(x, ast.FunctionDef) and x.name == "create_real_state_of":
                inner = x
    base = f"{FNQ}.create_real_state_of"
    if inner is None:
        rep.unavailable(f"{prop}/pyvc/{base}/extraction", "nested function create_real_state_of not found in CaseNode._merge")
        return 0
    free = {n.id for n in ast.walk(inner) if isinstance(n, ast.Name)} & {"priorities", "corresponding_finish_states", "new_dfa", "converted_states", "self"}
    if free != {"priorities", "corresponding_finish_states", "new_dfa", "converted_states", "self"}:
        rep.unavailable(f"{prop}/pyvc/{base}/extraction", f"closure variables changed: {sorted(free)}")
        return 0
    rep.fn(base)
    contracts = {"ProgramData.imbue": lambda e, a, k: a[0], "ProgramData.lookup": lambda e, a, k: None}
    old_ms = getattr(Engine, "mutable_sets", False)
    Engine.mutable_sets = True
    agg = {}

    def record(clause, ok, what, detail=None):
        a = agg.setdefault(clause, {"n": 0, "bad": None})
        a["n"] += 1
        if not ok and a["bad"] is None:
            a["bad"] = (what, detail or {})

    def smt(clause, pc, goal, what, detail):
        v, m, backend, secs = zprove(pc, goal)
        record(clause, v == "proved", what + (f" (model {m})" if v == "refuted" else " (solver unknown)" if v != "proved" else ""), detail)
    try:
        for k in (1, 2, 3):
            for acc in itertools.product([False, True], repeat=k):
                for greedy in (False, True):
                    P = [z3.Int(f"prio{i}") for i in range(k)]
                    box = {}

                    def body(eng, k=k, acc=acc, greedy=greedy, P=P):
                        dfas, subs = [], []
                        for i in range(k):
                            s = SObj(nmfu.DFState, {"transitions": HList([])})
                            d = SObj(nmfu.DFA, {"accepting_states": HList([s] if acc[i] else []), "starting_state": s, "states": HList([s])})
                            dfas.append(d), subs.append(s)
                        me = SObj(nmfu.CaseNode, {"greedy": greedy})
                        new_dfa = SObj(nmfu.DFA, {"accepting_states": HList([]), "starting_state": None, "states": HList([])})
                        env = {"self": me, "priorities": HDict({d: P[i] for i, d in enumerate(dfas)}), "corresponding_finish_states": HDict({d: HList([]) for d in dfas}),
                               "new_dfa": new_dfa, "converted_states": HDict({})}
                        clo = Closure(inner, base, [env])
                        state = frozenset((dfas[i], subs[i]) for i in range(k))
                        out = eng.call_closure(clo, [state], {})
                        box[id(eng)] = (env, dfas, out, state)
                        return box[id(eng)], {}
                    for r in explore(program, body, contracts=contracts, fork_functions="*"):
                        F = [i for i in range(k) if acc[i]]
                        detail = {"clauses": k, "finishing": F, "greedy": greedy}
                        raised = [e for e in r.exits if e.exc_cls.__name__ == "IllegalDFAStateConflictsError"]
                        other = [e for e in r.exits if e.exc_cls.__name__ != "IllegalDFAStateConflictsError"]
                        if other:
                            record("no-internal-error", False, f"raises {[e.exc_cls.__name__ for e in other]}", detail)
                            continue
                        record("no-internal-error", True, "")
                        if raised:
                            # a refusal must be justified
                            if len(F) >= 2 and not greedy:
                                record("refusal.two-finish-nongreedy", True, "")
                            elif len(F) == 1 and k > 1 and not greedy:
                                record("refusal.finish-or-continue-nongreedy", True, "")
                            elif len(F) >= 2 and greedy:
                                tie = z3.Or(*[z3.And(P[a] == P[b], *[P[a] >= P[c] for c in F]) for a in F for b in F if a < b])
                                smt("refusal.greedy-tie-only", r.pc, tie, "a greedy merge is refused although one finishing clause has the strictly highest priority", detail)
                            else:
                                record("refusal.unjustified", False, "the merge is refused although nothing is ambiguous", detail)
                            continue
                        if r.value is None or r.dead is not False:
                            continue
                        env, dfas, out, state = r.value
                        new_dfa = env["new_dfa"]
                        owned = [i for i, d in enumerate(dfas) if len(env["corresponding_finish_states"].items[d].items) > 0]
                        registered = (isinstance(out, SObj) and env["converted_states"].items.get(state) is out and any(x is out for x in new_dfa.fields["states"].items))
                        record("registered", registered, "the new state is not registered in converted_states / new_dfa.states", detail)
                        is_acc = any(x is out for x in new_dfa.fields["accepting_states"].items)
                        record("accepting-iff-owned", is_acc == (len(owned) == 1) and len(owned) <= 1 and all(env["corresponding_finish_states"].items[dfas[i]].items == [out] for i in owned),
                               f"accepting={is_acc}, owners={owned}", detail)
                        if not F:
                            record("nobody-finishes", not owned, f"no sub-state is accepting but clause {owned} owns the state", detail)
                        elif len(F) == 1:
                            if k > 1 and not greedy:
                                record("silent-resolution.finish-or-continue", False, "a non-greedy case in which one clause finishes while another can continue was accepted silently", detail)
                            else:
                                record("single-finisher-owns", owned == F, f"finishing clause {F} but owner {owned}", detail)
                        else:
                            if not greedy:
                                record("silent-resolution.two-finish", False, "two clauses of a non-greedy case finish on the same input and the merge was accepted silently", detail)
                            elif len(owned) != 1 or owned[0] not in F:
                                record("greedy.owner-finishes", False, f"owner {owned} is not one of the finishing clauses {F}", detail)
                            else:
                                o = owned[0]
                                smt("greedy.owner-has-strictly-highest-priority", r.pc, z3.And(*[P[o] > P[c] for c in F if c != o]),
                                    "the selected clause does not have the unique highest priority among the finishing ones", detail)
    finally:
        Engine.mutable_sets = old_ms
    nob = 0
    for clause, a in sorted(agg.items()):
        oid = f"{prop}/pyvc/{base}/{clause}"
        nob += 1
        if a["bad"] is None:
            rep.discharged_ob(oid, "z3" if "priority" in clause or "tie" in clause else "pyvc-paths", 0.0, sample=f"{oid} ({a['n']} paths)")
        else:
            what, detail = a["bad"]
            real = replay(nmfu, detail)
            rep.failed_ob(Finding(prop, oid, f"{base}|{clause}", f"{base}: {what} [{detail}]; real code: {real[0]}", replay={"clause": clause, **{k: str(v) for k, v in detail.items()}, "real": real[0]}, replayed=real[1]))
    if not agg:
        rep.undecided_ob(f"{prop}/pyvc/{base}/vacuity", "no path")
    rep.trust("vf/pyvc semantics of the Python subset (closures, heap sets, max/sum with symbolic keys by path forking)")
    return nob


def replay(nmfu, detail):
    """real code: greedy case over literal clauses that finish together, with priorities chosen to hit the failing shape"""
    import itertools as it
    k = detail.get("clauses", 2)
    try:
        from ..csem import tv
        res = []
        for prios in it.product([1, 2], repeat=min(k, 3)):
            pats = ['/a+/', '/a/', '/[ab]/'][:k]
            if detail.get("greedy"):
                body = " ".join(f"prio {p} {pat} -> {{ n = [{i}]; }}" for i, (p, pat) in enumerate(zip(prios, pats)))
            else:
                body = " ".join(f"{pat} -> {{ n = [{i}]; }}" for i, (p, pat) in enumerate(zip(prios, pats)))
            src = f"out int n = 0;\nparser {{ {'greedy ' if detail.get('greedy') else ''}case {{ {body} }} }}\n"
            try:
                c = tv.compile_program(nmfu, src, ["-O0"], path="merge-replay")
                verdict = "accepted"
            except nmfu.NMFUError as e:
                verdict = "rejected"
            tie = sorted(prios)[-1] == sorted(prios)[-2] if k > 1 else False
            res.append((prios, verdict, tie))
        badr = [(p, v) for p, v, tie in res if detail.get("greedy") and k > 1 and ((tie and v == "accepted") or (not tie and v == "rejected"))]
        if badr:
            return (f"greedy case with priorities {badr[0][0]}: {badr[0][1]}", True)
        return ("the sampled greedy cases behave as specified", False)
    except Exception as e:
        return (f"could not replay: {type(e).__name__}: {e}", False)


def run(rep, prop):
    """guarded entry: an engine limit is undecided, never a violation"""
    from .. import common
    nmfu = common.load_nmfu()
    try:
        return prove(rep, nmfu, Program(nmfu, common.repo_source()), prop)
    except (Unsupported, NeedFork, KeyError, AttributeError) as e:
        rep.unavailable(f"{prop}/pyvc/{FNQ}.create_real_state_of/engine", f"outside the modelled Python subset: {type(e).__name__}: {e}")
        return 0
