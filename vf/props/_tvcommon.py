"""Shared runner for the properties decided by deductive verification of the emitted C (vf/csem/tv.py)."""
import multiprocessing as mp, time, os, sys, json, traceback, hashlib
from .. import common, progs
from ..common import Report, Finding

OPTS_QUICK = {
    "base": ["-O1"],
    "O3": ["-O3"],
    "O2-indirect": ["-O2", "-findirect-start-ptr"],
    "dyn": ["-O2", "-fallocate-str-space-dynamic"],
    "ondemand-free-u8-strict": ["-O2", "-fallocate-str-space-dynamic-on-demand", "-fstrings-as-u8", "-fdelete-string-free-memory", "-findirect-start-ptr", "-fstrict-done-token-generation"],
    "O0-hookstate-zero": ["-O0", "-fhook-per-state", "-fzero-len-input-support", "--collapsed-range-length", "6"],
}
EXTRA_ALWAYS = ["-feof-support", "-fyield-support"]

_CTX = {}


def _task(job):
    pi, oname = job
    prog = _CTX["programs"][pi]
    flags = list(_CTX["optsets"][oname]) + _CTX["extra"](prog)
    from ..csem import tv
    from ..csem.cparse import OutsideSubset
    nmfu = common.load_nmfu()
    t = time.time()
    rec = {"prog": prog["name"], "opt": oname, "flags": flags, "results": [], "error": None, "rejected": None, "stats": {}}
    try:
        try:
            c = tv.compile_program(nmfu, prog["src"], flags + prog["args"], path=prog["name"])
        except nmfu.NMFUError as e:
            rec["rejected"] = type(e).__name__
            return rec
        except tv.InternalCompilerError as e:
            rec["rejected"] = "INTERNAL " + str(e)[:80]
            return rec
        T = tv.TV(c)
        try:
            T.run()
        finally:
            if _CTX.get("post"):
                try:
                    _CTX["post"](T, rec)
                except Exception as e:
                    rec.setdefault("post_error", repr(e))
        nrep = 0
        for r in T.results:
            if r.verdict == "refuted" and r.family in _CTX["families"] and r.secs != 0.0 and nrep < 8:
                try:
                    ok, info = replay_result(c, T, r)
                except Exception as e:
                    ok, info = False, {"replay_error": repr(e)}
                nrep += 1
                r.witness = dict(r.witness or {}, replay=info, replayed=ok)
        rec["results"] = [(r.family, r.oid, r.verdict, r.what, r.witness, r.secs, r.line) for r in T.results]
        rec["stats"] = dict(T.stats, checks=T.nchecks, solver=round(T.solver_secs, 3), states=T.nstates)
    except OutsideSubset as e:
        rec["error"] = ("outside-subset", str(e))
    except Exception as e:
        rec["error"] = ("crash", traceback.format_exc()[-1500:])
    rec["wall"] = round(time.time() - t, 2)
    return rec


def replay_result(comp, T, r):
    """run the real emitted C from the counter-model's pre-state; decide whether the failure is observed"""
    from ..csem import creplay
    import re
    w = dict(r.witness or {})
    oid = r.oid
    codes = ["OK", "FAIL", "DONE"] + [f"FINISH_{x}" for x in comp.cctx.finish_codes] + [f"YIELD_{x}" for x in comp.cctx.yield_codes]
    m = re.match(r"(feed|end)/case(\d+)", oid)
    if m:
        w.setdefault("state", int(m.group(2)))
    if r.family == "term" and "cycle" in w:
        w["state"] = w["start_state"]
        out = creplay.build_and_run(comp, w, "feed", timeout_s=3, sanitize=False)
        return bool(out.get("timeout")), out
    if oid.startswith("start"):
        out = creplay.build_and_run(comp, {}, "none")
        bad = [l for l in out.get("stdout", "").splitlines() if l.startswith("NUL ") and l.split()[2] != "0"]
        return (bool(bad) or out.get("rc", 0) != 0), out
    call = "end" if oid.startswith("end/") else "feed"
    if oid.endswith("fail-absorbing") and call == "end":
        st = comp.cctx.dfa.states[w["state"]]
        b = 97
        for t in st.transitions:
            if not t.error_handling:
                for v in t.on_values:
                    if isinstance(v, str):
                        b = ord(v)
                        break
        w["then_feed"] = b
        out = creplay.build_and_run(comp, w, "end")
        mm = re.search(r"RC (\d+) .*\nRC2 (\d+)", out.get("stdout", ""))
        return bool(mm and int(mm.group(1)) == 1 and int(mm.group(2)) != 1), out
    out = creplay.build_and_run(comp, w, call)
    if out.get("timeout"):
        return True, out
    if out.get("rc", 0) != 0 and ("Sanitizer" in out.get("stderr", "") or "runtime error" in out.get("stderr", "")):
        return r.family == "memsafe", out
    mm = re.search(r"RC (\d+)(?: ADV (\d+))?", out.get("stdout", ""))
    if mm:
        rc = int(mm.group(1))
        got = codes[rc] if rc < len(codes) else str(rc)
        out["observed_code"] = got
        m2 = re.search(r"prescribes return (\w+)|; (\w+) expected", r.what)
        if m2:
            want = m2.group(1) or m2.group(2)
            return got != want, out
        m3 = re.search(r"advanced (\d+) time\(s\) before return (\w+); the protocol requires (\d+)", r.what)
        if m3 and mm.group(2) is not None:
            return int(mm.group(2)) != int(m3.group(3)), out
    return False, out


def default_extra(prog):
    return list(EXTRA_ALWAYS)


def run(prop, families, level, explanation, optsets=None, programs=None, extra=None, post=None, handle=None, trusted=(), assumptions=(), fns=(), rep=None):
    rep = rep or Report(prop, level)
    rep.fn(*fns)
    rep.assume("csem", "smt", "arith", "hooks", *assumptions)
    rep.trust("vf/csem: parser + symbolic semantics of the emitted C subset", "vf/amach.py: abstract machine (specification) over the DFA objects", *trusted)
    optsets = optsets or OPTS_QUICK
    programs = programs if programs is not None else progs.corpus(big=True)
    _CTX.update(programs=programs, optsets=optsets, extra=extra or default_extra, post=post, families=set(families))
    jobs = [(pi, on) for pi in range(len(programs)) for on in optsets]
    # big programs first
    jobs.sort(key=lambda j: -len(programs[j[0]]["src"]))
    ctx = mp.get_context("fork")
    with ctx.Pool(min(16, len(jobs))) as pool:
        recs = pool.map(_task, jobs, chunksize=1)
    nprog = 0
    famcount = {}
    for rec in recs:
        label = f"{rec['prog']} [{' '.join(rec['flags'])}]"
        if rec["error"]:
            rep.undecided_ob(f"{prop}/csem/{label}", f"{rec['error'][0]}: {rec['error'][1][:300]}")
            for item in rec.get("extra") or []:
                if item[0] == "refuted":
                    rep.failed_ob(Finding(prop, f"{prop}/{label}/{item[1]}", f"{rec['prog']}|{' '.join(rec['flags'])}|{item[1]}", f"{label}: {item[2]}", replay=item[3], replayed=item[4]))
            continue
        if rec["rejected"]:
            rep.notes.append(f"{label}: rejected by the compiler ({rec['rejected']})") if len(rep.notes) < 40 else None
            continue
        nprog += 1
        for (fam, oid, verdict, what, wit, secs, line) in rec["results"]:
            if fam not in families:
                continue
            famcount[fam] = famcount.get(fam, 0) + 1
            full = f"{prop}/csem/{label}/{oid}"
            if verdict == "proved":
                rep.discharged_ob(full, "z3" if secs else "structural", secs)
            elif verdict == "refuted":
                direct = wit is None or secs == 0.0 or bool((wit or {}).get("replayed"))
                f = Finding(prop, full, f"{rec['prog']}|{' '.join(rec['flags'])}|{oid}", f"{label}: {what} (emitted C line {line})",
                            replay={"program": rec["prog"], "flags": rec["flags"], "obligation": oid, "witness": wit, "c_line": line},
                            replayed=True if direct else False, details={"family": fam})
                if handle:
                    f = handle(f, rec, (fam, oid, verdict, what, wit, secs, line))
                if f is not None:
                    rep.failed_ob(f)
            else:
                rep.undecided_ob(full, "solver returned unknown")
        if post and rec.get("extra"):
            for item in rec["extra"]:
                kind = item[0]
                if kind == "proved":
                    rep.discharged_ob(f"{prop}/{label}/{item[1]}", item[2], item[3])
                elif kind == "refuted":
                    rep.failed_ob(Finding(prop, f"{prop}/{label}/{item[1]}", f"{rec['prog']}|{' '.join(rec['flags'])}|{item[1]}", f"{label}: {item[2]}", replay=item[3], replayed=item[4]))
                elif kind == "undecided":
                    rep.undecided_ob(f"{prop}/{label}/{item[1]}", item[2])
    rep.programs = nprog
    rep.coverage["program_option_pairs"] = nprog
    rep.coverage["distinct_programs"] = len(set(r["prog"] for r in recs if not r["error"] and not r["rejected"]))
    rep.coverage["option_sets"] = {k: v for k, v in optsets.items()}
    rep.coverage["obligations_by_family"] = famcount
    rep.coverage["states_verified"] = sum(r["stats"].get("states", 0) for r in recs)
    rep.coverage["c_paths"] = sum(r["stats"].get("paths", 0) for r in recs)
    rep.samples = [f"{r['prog']} [{' '.join(r['flags'])}]: {r['stats']}" for r in recs[:6] if r["stats"]]
    return rep, recs


def tier_optsets(quick_names, thorough_extra=None):
    sets = {k: OPTS_QUICK[k] for k in quick_names}
    if common.tier() == "thorough":
        sets = dict(OPTS_QUICK)
        if thorough_extra:
            sets.update(thorough_extra)
    return sets
