"""Generator of macro programs together with their hand-inlined twins (C13), from one structured description."""
import random, re

HEAD = """// args: -feof-support -fyield-support
out int n = 0;
out int m = 0;
out str[6] s;
out str[4] t;
out bool f = false;
hook h;
hook g;
finishcode F, G;
yieldcode Y, Z;
"""

# macro library: name -> (params [(kind, name)], body with {param} placeholders; calls to other macros written as @name(args))
LIB = {
    "num": ([("out", "target"), ("match", "delimit")], "{target} = 0; foreach {{ /\\d+/; }} do {{ {target} = [{target} * 10 + ($last - '0')]; }} {delimit};"),
    "two": ([("out", "a"), ("out", "b")], "{a} = [1]; {b} = [2]; h();"),
    "cond": ([("hook", "hk"), ("expr", "e")], "\"x\"; if {e} > 2 {{ {hk}(); }}"),
    "app": ([("out", "o"), ("match", "p")], "{o} += {p}; \",\";"),
    "wrap": ([("match", "p"), ("match", "q")], "({p} {q}); g();"),
    "codes": ([("finishcode", "fc"), ("yieldcode", "yc")], "yield {yc}; \"z\"; optional {{ \"!\"; finish {fc}; }}"),
    "brk": ([("loop", "l"), ("match", "p")], "{p}; break {l};"),
    "setx": ([("out", "o"), ("expr", "e")], "{o} = [({e}) + 1]; \".\";"),
    "opt": ([("match", "p")], "optional {{ {p}; h(); }} \";\";"),
    "nest": ([("macro", "inner"), ("out", "o")], "\"<\"; @{inner}({o}, \">\");"),
    "nest2": ([("macro", "inner"), ("hook", "hk")], "@{inner}({hk}, [n]); \"|\";"),
    "fwd": ([("macro", "inner"), ("match", "p"), ("out", "o")], "\"(\"; @{inner}({o}, {p});"),
    "fwde": ([("macro", "inner"), ("expr", "e")], "@{inner}(h, {e}); \"#\";"),
    "same": ([("out", "target"), ("match", "delimit")], "@num({target}, {delimit}); \"~\";"),
    "cross": ([("out", "n"), ("out", "m")], "{n} = [1]; {m} = [2]; h();"),
    "crossh": ([("hook", "h"), ("hook", "g")], "{h}(); \"x\"; {g}();"),
    "none": ([], "\"k\"; n = [n + 1];"),
    "trywait": ([("match", "p"), ("out", "o")], "try {{ {o} += {p}; }} catch (outofspace) {{ wait \"\\n\"; }}"),
    # a match argument referenced more than once in one expansion, with actions after the references (each reference is its own match)
    "one": ([("out", "o"), ("match", "p")], "{p}; {o} = [{o} + 1];"),
    "twice": ([("match", "p"), ("out", "a"), ("out", "b")], "{p}; {a} = [{a} + 1]; \",\"; {p}; {b} = [{b} + 2]; h(); \";\";"),
    "fwd2": ([("match", "p"), ("out", "a"), ("out", "b")], "@one({a}, {p}); \",\"; @one({b}, {p}); g(); \";\";"),
    "pair": ([("match", "p")], "@one(n, ({p} \"!\"));"),
    # an expr parameter named like an output (the parameter wins inside the macro), and like the out parameter of an enclosing macro
    "shadow": ([("expr", "n"), ("out", "o")], "{o} = [({n}) * 2]; \"x\"; if {n} > 3 {{ h(); }}"),
    "inner": ([("expr", "x")], "n = [{x} + 1]; \"i\";"),
    "outer": ([("out", "x")], "{x} = [3]; @inner([5]); g();"),
    # an expr argument of a nested call that mentions the caller's own out parameter (resolved two frames up); the parameter is named
    # like nothing global (bump) and like another output (bumpn: the global of that name must not be read instead)
    "bump": ([("out", "a"), ("match", "p")], "{p}; @setx({a}, [{a} + 3]);"),
    "bumpn": ([("out", "n"), ("match", "p")], "{p}; @setx({n}, [{n} * 2 + 1]); @cond(g, [{n}]);"),
    "bump3": ([("out", "q")], "@bump({q}, \"y\"); @cond(h, [{q} + 1]);"),
    "casey": ([("match", "p"), ("match", "q"), ("hook", "hk")], "case {{ {p} -> {{ {hk}(); }} {q} -> {{ n = [7]; }} else -> {{ }} }}"),
}

MATCH_ARGS = ['"ab"', '"Q"i', '/a+b/', '/[0-9]x/', '"0d"b', '("a" "b")', '/c*d/']
EXPR_ARGS = ['[n]', '[m]', '5', '[n * 2]', '[m + n]', '[s.len]', "'a'", '[n + m * 2]']
OUT_INT = ['n', 'm']
OUT_STR = ['s', 't']
HOOKS = ['h', 'g']


def subst_expr(e):
    """textual form of an integer-expression argument inside a math expression"""
    if e.startswith("[") and e.endswith("]"):
        return "(" + e[1:-1] + ")"
    return e


def expand(name, args, depth=0):
    params, body = LIB[name]
    if len(args) != len(params):
        raise ValueError("arity")
    env = {}
    for (kind, p), a in zip(params, args):
        env[p] = subst_expr(a) if kind == "expr" else a
    text = body.format(**env)
    # nested macro calls (arguments may nest parentheses to any depth)
    while "@" in text:
        i = text.index("@")
        m = re.match(r"@(\w+)\(", text[i:])
        if not m:
            break
        j = i + m.end()
        d, instr = 1, False
        while j < len(text) and d:
            ch = text[j]
            if ch == '"':
                instr = not instr
            elif not instr:
                d += ch == "("
                d -= ch == ")"
            j += 1
        if d or text[j:j + 1] != ";":
            break
        text = text[:i] + expand(m.group(1), split_args(text[i + m.end():j - 1]), depth + 1) + text[j + 1:]
    return text


def split_args(s):
    out, cur, d = [], "", 0
    instr = False
    for ch in s:
        if ch == '"':
            instr = not instr
        if not instr:
            if ch in "([":
                d += 1
            elif ch in ")]":
                d -= 1
            elif ch == "," and d == 0:
                out.append(cur.strip())
                cur = ""
                continue
        cur += ch
    if cur.strip():
        out.append(cur.strip())
    return out


def macro_decl(name):
    params, body = LIB[name]
    kindword = {"out": "out", "match": "match", "expr": "expr", "hook": "hook", "loop": "loop", "macro": "macro", "finishcode": "finishcode", "yieldcode": "yieldcode"}
    ps = ", ".join(f"{kindword[k]} {p}" for k, p in params)
    # in the macro form parameters are used by name; nested calls are ordinary calls
    env = {p: p for _, p in params}
    text = body.format(**env).replace("@", "")
    return f"macro {name}({ps}) {{ {text} }}\n"


def call_text(name, args):
    return f"{name}({', '.join(args)});"


def needed(name, args, acc):
    acc.add(name)
    params, _ = LIB[name]
    for (k, p), a in zip(params, args):
        if k == "macro":
            # the nested macro is called with fixed argument shapes; its own macro-kind params are not supported
            acc.add(a)
    _, body = LIB[name]
    for inner in re.findall(r"@(\w+)\(", body):
        if inner in LIB and inner not in acc:
            needed(inner, [None] * len(LIB[inner][0]), acc)
    return acc


def random_args(rnd, name):
    params, _ = LIB[name]
    args = []
    for k, p in params:
        if k == "out":
            want_str = name in ("app", "trywait")
            args.append(rnd.choice(OUT_STR if want_str else OUT_INT))
        elif k == "match":
            args.append(rnd.choice(MATCH_ARGS))
        elif k == "expr":
            args.append(rnd.choice([e for e in EXPR_ARGS if name != "shadow" or "n" not in e.replace("len", "")]))
        elif k == "hook":
            args.append(rnd.choice(HOOKS))
        elif k == "finishcode":
            args.append(rnd.choice(["F", "G"]))
        elif k == "yieldcode":
            args.append(rnd.choice(["Y", "Z"]))
        elif k == "loop":
            args.append("lp")
        elif k == "macro":
            args.append({"nest": "num", "nest2": "cond", "fwd": "num", "fwde": "cond"}.get(name, "num"))
    return args


def twins(n, seed=0):
    """-> list of dict(name, macro_src, inlined_src)"""
    rnd = random.Random(seed * 101 + 3)
    out = []
    names = list(LIB)
    fixed = [
        [("two", ["m", "n"])],                                  # arguments named differently
        [("two", ["n", "m"])],
        [("cross", ["m", "n"])],
        [("cross", ["n", "m"]), ("crossh", ["g", "h"])],
        [("crossh", ["g", "h"])],
        [("num", ["n", '";"']), ("two", ["m", "n"])],
        [("nest", ["num", "m"])],
        [("nest2", ["cond", "g"])],
        [("none", []), ("none", [])],
        [("setx", ["n", "[n]"])],
        [("setx", ["m", "[n * 2]"]), ("cond", ["h", "[m]"])],
        [("fwd", ["num", '";"', "n"])],
        [("fwd", ["app", '/a+b/', "s"])],
        [("fwde", ["cond", "[n * 2]"])],
        [("same", ["m", '"ab"'])],
        [("codes", ["G", "Z"])],
        [("casey", ['"ab"', '/c+d/', "g"]), ("opt", ['"q"'])],
        [("twice", ['/\\d/', "n", "m"])],
        [("twice", ['"x"', "m", "n"]), ("one", ["n", '"y"'])],
        [("fwd2", ['"x"', "n", "m"])],
        [("fwd2", ['/[ab]c/', "m", "n"])],
        [("pair", ['"a"']), ("pair", ['"b"'])],
        [("pair", ['/c+/']), ("two", ["m", "n"]), ("pair", ['"d"'])],
        [("shadow", ["[m + 1]", "m"])],
        [("shadow", ["5", "m"]), ("shadow", ["[m * 2]", "m"])],
        [("outer", ["m"])],
        [("outer", ["n"]), ("shadow", ["[m]", "m"])],
        [("bump", ["m", '"x"'])],
        [("bumpn", ["m", '"x"']), ("bumpn", ["n", '/a+b/'])],
        [("bump3", ["m"]), ("bump", ["n", '"z"'])],
    ]
    seqs = list(fixed)
    for _ in range(max(0, n - len(fixed))):
        k = rnd.randint(1, 3)
        seq = []
        for _ in range(k):
            nm = rnd.choice([x for x in names if x != "brk"])
            seq.append((nm, random_args(rnd, nm)))
        if rnd.random() < 0.2:
            seq.append(("brk", ["lp", rnd.choice(MATCH_ARGS)]))
        seqs.append(seq)
    for i, seq in enumerate(seqs):
        used = set()
        for nm, args in seq:
            needed(nm, args, used)
        decls = "".join(macro_decl(x) for x in sorted(used))
        has_brk = any(nm == "brk" for nm, _ in seq)
        body_m = " ".join(call_text(nm, args) for nm, args in seq)
        try:
            body_i = " ".join(expand(nm, args) for nm, args in seq)
        except (ValueError, KeyError):
            continue
        if has_brk:
            body_m = "loop lp { " + body_m + " } \"e\";"
            body_i = "loop lp { " + body_i + " } \"e\";"
        out.append({"name": f"macro/{i}", "macro_src": HEAD + decls + "parser { " + body_m + " }\n", "inlined_src": HEAD + "parser { " + body_i + " }\n",
                    "args": ["-feof-support", "-fyield-support"]})
    return out


def bad_calls():
    """calls that must be diagnosed: wrong kind / wrong arity"""
    cases = [
        ("two", ["n"]), ("two", ["n", "m", "m"]), ("two", ['"a"', "m"]), ("num", ["n", "5"]), ("cond", ['"x"', "n"]), ("cond", ["h", '"str"i']),
        ("codes", ["Y", "Z"]), ("codes", ["F", "G"]), ("app", ["nosuch", '"a"']), ("nest", ["nosuchmacro", "n"]), ("none", ["n"]), ("setx", ['/a/', "n"]),
        ("brk", ["nolabel", '"a"']), ("two", ["h", "n"]), ("cond", ["n", "n"]),
    ]
    out = []
    for i, (nm, args) in enumerate(cases):
        used = needed(nm, [a for a in args][:len(LIB[nm][0])] + [""] * 0, set()) if len(args) == len(LIB[nm][0]) else {nm}
        used = {u for u in used if u in LIB}
        decls = "".join(macro_decl(x) for x in sorted(used))
        out.append({"name": f"macrobad/{i}:{nm}({', '.join(args)})", "src": HEAD + decls + "parser { \"a\"; " + call_text(nm, args) + " \"b\"; }\n", "args": ["-feof-support", "-fyield-support"]})
    return out
