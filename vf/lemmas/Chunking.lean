/-
L-cuts (C02): chunking independence from per-call facts, by induction on the cuts.
Core library only (no Mathlib).  Code-independent: the hypotheses that tie it to a generated parser
are exactly the per-program obligations discharged by csem (coherence, dispatch, return-OK sites,
yield/advance), namely

 (H1) what `feed` does with one byte depends only on the stored machine state and that byte
      (`step`), never on where the chunk started or ends;
 (H2) returning OK at the end of a chunk and being called again with the next chunk (or with an
      empty chunk) leaves the machine state as it is and performs nothing.

The driver below is the caller protocol of the documentation: feed chunk after chunk; after a YIELD
call again with what is left of the current chunk; stop at a terminal code.
-/
namespace Chunking

/-- effect of dispatching one byte in one stored state -/
inductive Out (σ ε : Type) where
  | next   (s : σ) (ev : List ε)              -- byte consumed, parsing goes on
  | yieldC (s : σ) (ev : List ε) (code : Nat) -- yield reported after the byte was consumed
  | yieldN (s : σ) (ev : List ε) (code : Nat) -- yield reported with the pointer still on the byte
  | stop   (s : σ) (ev : List ε) (code : Nat) -- DONE / FAIL / FINISH_x: pointer stays on the byte

/-- observable trace: hook events, and result codes other than OK with the absolute offset of `*start` -/
inductive Item (ε : Type) where
  | ev (e : ε)
  | code (c : Nat) (offset : Nat)

/-- how a whole run ends -/
inductive Final (σ : Type) where
  | pending (s : σ) (offset : Nat)        -- all chunks used up, last call returned OK
  | stopped (s : σ) (c : Nat) (offset : Nat)
  | outOfFuel

variable {σ ε β : Type}

/-- The caller protocol over a list of chunks.  `cur` is what is left of the current chunk, `rest` the
    chunks not yet handed over, `off` the absolute offset of the next byte.  `fuel` bounds the number of
    dispatches (a yield that does not consume could otherwise repeat for ever); it is spent on
    dispatches only, never on chunk boundaries. -/
def drive (step : σ → β → Out σ ε) : Nat → σ → Nat → List β → List (List β) → List (Item ε) × Final σ
  | _, s, off, [], [] => ([], .pending s off)
  | fuel, s, off, [], c :: cs => drive step fuel s off c cs          -- (H2): OK at a cut, re-entry is the identity
  | 0, _, _, _ :: _, _ => ([], .outOfFuel)
  | fuel + 1, s, off, b :: bs, rest =>
    match step s b with
    | .next s' ev =>
        let r := drive step fuel s' (off + 1) bs rest
        (ev.map .ev ++ r.1, r.2)
    | .yieldC s' ev c =>
        let r := drive step fuel s' (off + 1) bs rest
        (ev.map .ev ++ .code c (off + 1) :: r.1, r.2)
    | .yieldN s' ev c =>
        let r := drive step fuel s' off (b :: bs) rest
        (ev.map .ev ++ .code c off :: r.1, r.2)
    | .stop s' ev c => (ev.map .ev ++ [.code c off], .stopped s' c off)
termination_by fuel _ _ cur rest => (fuel, rest.length, cur.length)

/-- flattening of the chunks -/
def join : List (List β) → List β
  | [] => []
  | c :: cs => c ++ join cs

theorem join_nil_of_cur_nil (c : List β) (cs : List (List β)) : ([] : List β) ++ join (c :: cs) = c ++ join cs := by
  simp [join]

/-- **Chunking independence.**  Any way of cutting the input into chunks gives the same events, the same
    codes at the same absolute offsets and the same final state as handing over the whole input at once. -/
theorem drive_chunks_eq_whole (step : σ → β → Out σ ε) :
    ∀ (fuel : Nat) (s : σ) (off : Nat) (cur : List β) (rest : List (List β)),
      drive step fuel s off cur rest = drive step fuel s off (cur ++ join rest) [] := by
  intro fuel
  induction fuel with
  | zero =>
    intro s off cur rest
    induction rest generalizing cur with
    | nil => simp [join]
    | cons c cs ih =>
      cases cur with
      | nil =>
        rw [drive]
        rw [ih c]
        simp [join]
      | cons b bs =>
        simp [drive]
  | succ n ihn =>
    intro s off cur rest
    induction rest generalizing cur with
    | nil => simp [join]
    | cons c cs ih =>
      cases cur with
      | nil =>
        rw [drive]
        rw [ih c]
        simp [join]
      | cons b bs =>
        simp only [List.cons_append]
        rw [drive, drive]
        cases h : step s b with
        | next s' ev =>
          simp only []
          rw [ihn s' (off + 1) bs (c :: cs), ihn s' (off + 1) (bs ++ join (c :: cs)) []]
          try simp [join]
        | yieldC s' ev code =>
          simp only []
          rw [ihn s' (off + 1) bs (c :: cs), ihn s' (off + 1) (bs ++ join (c :: cs)) []]
          try simp [join]
        | yieldN s' ev code =>
          simp only []
          rw [ihn s' off (b :: bs) (c :: cs), ihn s' off (b :: (bs ++ join (c :: cs))) []]
          try simp [join]
        | stop s' ev code => rfl

/-- special case used in the statement of C02: one cut. -/
theorem one_cut (step : σ → β → Out σ ε) (fuel : Nat) (s : σ) (xs ys : List β) :
    drive step fuel s 0 xs [ys] = drive step fuel s 0 (xs ++ ys) [] := by
  have := drive_chunks_eq_whole step fuel s 0 xs [ys]
  simpa [join] using this

/-- byte-at-a-time feeding equals whole-buffer feeding -/
theorem bytewise (step : σ → β → Out σ ε) (fuel : Nat) (s : σ) (xs : List β) :
    drive step fuel s 0 [] (xs.map (fun b => [b])) = drive step fuel s 0 xs [] := by
  have hj : join (xs.map (fun b => [b])) = xs := by
    induction xs with
    | nil => rfl
    | cons x xs ih => simp [join, ih]
  have h := drive_chunks_eq_whole step fuel s 0 [] (xs.map (fun b => [b]))
  simpa [hj] using h

end Chunking

#print axioms Chunking.drive_chunks_eq_whole
#print axioms Chunking.one_cut
#print axioms Chunking.bytewise
