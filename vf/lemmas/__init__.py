"""Code-independent lemmas, machine-checked by Lean 4 (core library only) on every run.

check(rep, prop, file, theorems) runs `lean <file>` (the file ends with `#print axioms` lines for the named theorems) and counts one
discharged obligation per theorem iff lean exits 0, reports no error, the theorem's axiom list contains no `sorryAx`, and the source
contains no `sorry` / `admit` / `axiom` declaration (mechanical scan).  Anything else is *undecided* (exit 2), never a violation:
a lemma that stops checking says nothing about nmfu."""
import os, re, subprocess, time, shutil

HERE = os.path.dirname(os.path.abspath(__file__))
ALLOWED_AXIOMS = {"propext", "Quot.sound", "Classical.choice"}


def check(rep, prop, fname, theorems):
    path = os.path.join(HERE, fname)
    src = open(path).read()
    code = re.sub(r"/-.*?-/", "", src, flags=re.S)
    code = re.sub(r"--.*", "", code)
    bad = re.findall(r"\b(sorry|admit|axiom|unsafe|implemented_by|native_decide)\b", code)
    lean = shutil.which("lean")
    ns = os.path.splitext(fname)[0]
    if lean is None:
        for t in theorems:
            rep.undecided_ob(f"{prop}/lean/{ns}.{t}", "lean not found on PATH")
        return 0
    t0 = time.time()
    try:
        p = subprocess.run([lean, path], capture_output=True, text=True, timeout=300, cwd=HERE)
        out, rc = p.stdout + p.stderr, p.returncode
    except subprocess.TimeoutExpired:
        out, rc = "timeout", -1
    secs = time.time() - t0
    ax = {}
    for m in re.finditer(r"'([\w.]+)' depends on axioms: \[([^\]]*)\]", out):
        ax[m.group(1)] = {a.strip() for a in m.group(2).split(",") if a.strip()}
    for m in re.finditer(r"'([\w.]+)' does not depend on any axioms", out):
        ax[m.group(1)] = set()
    n = 0
    for t in theorems:
        full = f"{ns}.{t}"
        oid = f"{prop}/lean/{full}"
        if rc != 0 or "error" in out:
            rep.undecided_ob(oid, f"lean did not accept {fname}: {out.strip()[:300]}")
        elif bad:
            rep.undecided_ob(oid, f"{fname} contains {sorted(set(bad))}: not a proof")
        elif full not in ax:
            rep.undecided_ob(oid, f"no `#print axioms {full}` output: theorem missing")
        elif not ax[full] <= ALLOWED_AXIOMS:
            rep.undecided_ob(oid, f"{full} depends on {sorted(ax[full] - ALLOWED_AXIOMS)}")
        else:
            rep.discharged_ob(oid, "lean", secs / max(1, len(theorems)), sample=oid)
            n += 1
    rep.fn(f"(lemma, code-independent) {fname}: " + ", ".join(theorems))
    return n
