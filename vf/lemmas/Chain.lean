/-
L-chain (C15, C01 literals): a chain automaton accepts exactly its literal and leaves at the first differing byte.
Core library only.  Code-independent: the hypothesis that ties it to nmfu is the *shape contract* of
DirectMatch.convert / CaseDirectMatch.convert (state j has exactly the symbols of position j leading to
state j+1, consuming; everything else goes to the handler as a fall-through error transition; the last
state is accepting), which is discharged from the real AST by pyvc (vf/props/c15.py, `chain-shape`).

A position of the literal is a *class* of bytes (`β → Bool`): `{w_j}` for a plain literal, both ASCII cases
for a case-insensitive one.
-/
namespace Chain

variable {β : Type}

/-- result of running a matcher over an input -/
inductive Res where
  | done (consumed : Nat)     -- accepting state reached after `consumed` bytes; the next statement starts there
  | fail (offending : Nat)    -- handler entered; the byte at this offset is the offending one and is not consumed
  | pending (state : Nat)     -- input used up inside the literal
  deriving DecidableEq, Repr

/-- the automaton of the shape contract: `δ j b = some (j+1)` iff `b` is in class `j`, otherwise the error edge -/
def delta (w : List (β → Bool)) (j : Nat) (b : β) : Option Nat :=
  match w[j]? with
  | some cls => if cls b then some (j + 1) else none
  | none => none

/-- run of a table automaton with `n` the accepting state; `pos` counts consumed bytes -/
def run (δ : Nat → β → Option Nat) (n : Nat) : Nat → Nat → List β → Res
  | j, pos, xs =>
    if j = n then .done pos else
    match xs with
    | [] => .pending j
    | b :: bs =>
      match δ j b with
      | some j' => run δ n j' (pos + 1) bs
      | none => .fail pos

/-- the specification, by recursion on the literal: what "matches exactly this byte sequence and fails at the
    first byte that differs" means -/
def spec : List (β → Bool) → Nat → List β → Res
  | [], pos, _ => .done pos
  | _ :: _, pos, [] => .pending pos
  | c :: cs, pos, x :: xs => if c x then spec cs (pos + 1) xs else .fail pos

theorem getElem?_drop_zero (w : List (β → Bool)) (j : Nat) : w[j]? = (w.drop j)[0]? := by
  simp

/-- generalised statement: started in state `j` after `j` bytes, the automaton does what the specification
    does on the rest of the literal -/
theorem run_eq_spec_from (w : List (β → Bool)) :
    ∀ (k : Nat) (j : Nat) (xs : List β), j + k = w.length →
      run (delta w) w.length j j xs = spec (w.drop j) j xs := by
  intro k
  induction k with
  | zero =>
    intro j xs h
    have hj : j = w.length := by omega
    subst hj
    unfold run
    simp [spec]
  | succ k ih =>
    intro j xs h
    have hlt : j < w.length := by omega
    have hne : ¬ j = w.length := by omega
    have hdrop : w.drop j = w[j] :: w.drop (j + 1) := List.drop_eq_getElem_cons hlt
    unfold run
    simp only [hne, if_false]
    cases xs with
    | nil => rw [hdrop]; simp [spec]
    | cons b bs =>
      have hd : delta w j b = if w[j] b then some (j + 1) else none := by
        simp [delta, List.getElem?_eq_getElem hlt]
      rw [hdrop]
      simp only [hd, spec]
      by_cases hb : w[j] b = true
      · simp only [hb, if_true]
        have := ih (j + 1) bs (by omega)
        simpa using this
      · simp [hb]

/-- **L-chain.** The chain automaton of literal `w` run from its start state is the specification. -/
theorem run_eq_spec (w : List (β → Bool)) (xs : List β) :
    run (delta w) w.length 0 0 xs = spec w 0 xs := by
  have := run_eq_spec_from w w.length 0 xs (by omega)
  simpa using this

/-- reading of the specification: it reports `done` exactly when the input starts with a member of the
    literal, and then after exactly `|w|` bytes -/
theorem spec_done_iff (w : List (β → Bool)) : ∀ (pos : Nat) (xs : List β) (k : Nat),
    spec w pos xs = .done k ↔ (k = pos + w.length ∧ w.length ≤ xs.length ∧
      ∀ i (h : i < w.length) (h' : i < xs.length), w[i] xs[i] = true) := by
  induction w with
  | nil =>
    intro pos xs k
    simp [spec]
    constructor
    · intro h; exact h.symm
    · intro h; exact h.symm
  | cons c cs ih =>
    intro pos xs k
    cases xs with
    | nil => simp [spec]
    | cons x xs =>
      simp only [spec]
      by_cases hc : c x = true
      · simp only [hc, if_true]
        rw [ih (pos + 1) xs k]
        constructor
        · rintro ⟨h1, h2, h3⟩
          refine ⟨by simp; omega, by simp; omega, ?_⟩
          intro i hi hi'
          cases i with
          | zero => simpa using hc
          | succ i =>
            simp
            exact h3 i (by simp at hi; omega) (by simp at hi'; omega)
        · rintro ⟨h1, h2, h3⟩
          refine ⟨by simp at h1; omega, by simp at h2; omega, ?_⟩
          intro i hi hi'
          have := h3 (i + 1) (by simp; omega) (by simp; omega)
          simpa using this
      · simp only [hc]
        constructor
        · intro h; simp at h
        · rintro ⟨_, _, h3⟩
          have := h3 0 (by simp) (by simp)
          simp at this
          exact absurd this hc

/-- and `fail p` exactly at the first position whose byte is outside the class of that position -/
theorem spec_fail_iff (w : List (β → Bool)) : ∀ (pos : Nat) (xs : List β) (p : Nat),
    spec w pos xs = .fail p ↔ ∃ i, p = pos + i ∧ ∃ (h : i < w.length) (h' : i < xs.length),
      w[i] xs[i] = false ∧ ∀ j (hj : j < i), w[j] xs[j] = true := by
  induction w with
  | nil =>
    intro pos xs p
    simp [spec]
  | cons c cs ih =>
    intro pos xs p
    cases xs with
    | nil => simp [spec]
    | cons x xs =>
      simp only [spec]
      by_cases hc : c x = true
      · simp only [hc, if_true]
        rw [ih (pos + 1) xs p]
        constructor
        · rintro ⟨i, hp, hi, hi', hf, hall⟩
          refine ⟨i + 1, by omega, by simp; omega, by simp; omega, by simpa using hf, ?_⟩
          intro j hj
          cases j with
          | zero => simpa using hc
          | succ j => simpa using hall j (by omega)
        · rintro ⟨i, hp, hi, hi', hf, hall⟩
          cases i with
          | zero => simp at hf; rw [hf] at hc; exact absurd hc (by simp)
          | succ i =>
            refine ⟨i, by omega, by simp at hi; omega, by simp at hi'; omega, by simpa using hf, ?_⟩
            intro j hj
            have := hall (j + 1) (by omega)
            simpa using this
      · have hcf : c x = false := by cases h : c x <;> simp_all
        simp only [hcf]
        constructor
        · intro h
          simp at h
          refine ⟨0, by omega, by simp, by simp, by simpa using hcf, ?_⟩
          intro j hj; omega
        · rintro ⟨i, hp, hi, hi', hf, hall⟩
          cases i with
          | zero => simp; omega
          | succ i =>
            have := hall 0 (by omega)
            simp at this
            rw [this] at hcf; exact absurd hcf (by simp)

end Chain

#print axioms Chain.run_eq_spec
#print axioms Chain.spec_done_iff
#print axioms Chain.spec_fail_iff
