/-
L-simplify (C05): replacing the symbol list of a transition that lists Else among other symbols by `[Else]` does not change which
transition any symbol selects.  Core library only, code-independent.  Hypotheses that tie it to nmfu:
  * the lookup is DFState.__getitem__: the first transition (list order) that lists the symbol, otherwise - for a symbol other than
    Else - the first that lists Else;
  * representation invariant RI1: no symbol (Else included) is listed by two transitions of one state;
  * the pass (`_optimize_simplify_transition_matches`) rewrites exactly the symbol lists that contain Else and have more than one
    element, to `[Else]`, and nothing else (per-transition contract, discharged by pyvc in vf/props/c05.py).
-/
namespace Simplify

variable {σ π : Type} [DecidableEq σ]

abbrev Tr (σ π : Type) := List σ × π

/-- payload of the first transition listing `c` -/
def find (ts : List (Tr σ π)) (c : σ) : Option π :=
  match ts with
  | [] => none
  | t :: rest => if c ∈ t.1 then some t.2 else find rest c

/-- DFState.__getitem__ on one symbol -/
def lookup (els : σ) (ts : List (Tr σ π)) (c : σ) : Option π :=
  match find ts c with
  | some p => some p
  | none => if c = els then none else find ts els

def simp1 (els : σ) (t : Tr σ π) : Tr σ π :=
  if els ∈ t.1 ∧ 1 < t.1.length then ([els], t.2) else t

def simplify (els : σ) (ts : List (Tr σ π)) : List (Tr σ π) := ts.map (simp1 els)

/-- RI1: the symbol lists of different transitions are disjoint -/
def Disj : List (Tr σ π) → Prop
  | [] => True
  | t :: rest => (∀ r, r ∈ rest → ∀ x, x ∈ t.1 → x ∉ r.1) ∧ Disj rest

theorem simp1_snd (els : σ) (t : Tr σ π) : (simp1 els t).2 = t.2 := by
  unfold simp1; split <;> rfl

theorem els_mem_simp1 (els : σ) (t : Tr σ π) : els ∈ (simp1 els t).1 ↔ els ∈ t.1 := by
  unfold simp1
  split
  · rename_i h; simp [h.1]
  · rfl

theorem mem_simp1_of_ne {els c : σ} (t : Tr σ π) (hc : c ≠ els) (h : c ∈ (simp1 els t).1) : c ∈ t.1 := by
  unfold simp1 at h
  split at h
  · simp at h; exact absurd h hc
  · exact h

theorem mem_simp1_of_not_els {els c : σ} (t : Tr σ π) (h : c ∈ t.1) (he : els ∉ t.1) : c ∈ (simp1 els t).1 := by
  unfold simp1
  split
  · rename_i hh; exact absurd hh.1 he
  · exact h

/-- (A) the Else lookup is unchanged -/
theorem find_els (els : σ) (ts : List (Tr σ π)) : find (simplify els ts) els = find ts els := by
  induction ts with
  | nil => rfl
  | cons t rest ih =>
    simp only [simplify, List.map] at *
    unfold find
    by_cases h : els ∈ t.1
    · have h' : els ∈ (simp1 els t).1 := (els_mem_simp1 els t).2 h
      simp [h, h', simp1_snd]
    · have h' : els ∉ (simp1 els t).1 := fun hh => h ((els_mem_simp1 els t).1 hh)
      simp [h, h']
      exact ih

/-- (C) a symbol other than Else that no transition lists is still listed by none -/
theorem find_none (els c : σ) (hc : c ≠ els) (ts : List (Tr σ π)) (h : find ts c = none) : find (simplify els ts) c = none := by
  induction ts with
  | nil => rfl
  | cons t rest ih =>
    simp only [simplify, List.map] at *
    unfold find at h ⊢
    by_cases hm : c ∈ t.1
    · simp [hm] at h
    · simp [hm] at h
      have hm' : c ∉ (simp1 els t).1 := fun hh => hm (mem_simp1_of_ne t hc hh)
      simp [hm']
      exact ih h

theorem find_none_of_not_mem (c : σ) (ts : List (Tr σ π)) (h : ∀ r, r ∈ ts → c ∉ r.1) : find ts c = none := by
  induction ts with
  | nil => rfl
  | cons t rest ih =>
    unfold find
    have : c ∉ t.1 := h t (by simp)
    simp [this]
    exact ih (fun r hr => h r (by simp [hr]))

/-- if `c` was found before and is not found after, some transition listing `c` also lists Else -/
theorem lost_means_else (els c : σ) (hc : c ≠ els) (ts : List (Tr σ π)) (p : π)
    (h1 : find ts c = some p) (h2 : find (simplify els ts) c = none) : ∃ r, r ∈ ts ∧ c ∈ r.1 ∧ els ∈ r.1 := by
  induction ts with
  | nil => simp [find] at h1
  | cons t rest ih =>
    simp only [simplify, List.map] at *
    unfold find at h1 h2
    by_cases hm : c ∈ t.1
    · by_cases he : els ∈ t.1
      · exact ⟨t, by simp, hm, he⟩
      · have : c ∈ (simp1 els t).1 := mem_simp1_of_not_els t hm he
        simp [this] at h2
    · simp [hm] at h1
      have hm' : c ∉ (simp1 els t).1 := fun hh => hm (mem_simp1_of_ne t hc hh)
      simp [hm'] at h2
      obtain ⟨r, hr, h3, h4⟩ := ih h1 h2
      exact ⟨r, by simp [hr], h3, h4⟩

/-- (B) a symbol that selected a transition explicitly still selects the same payload -/
theorem lookup_some (els c : σ) (hc : c ≠ els) (ts : List (Tr σ π)) (hd : Disj ts) (p : π)
    (h : find ts c = some p) : lookup els (simplify els ts) c = some p := by
  induction ts with
  | nil => simp [find] at h
  | cons t rest ih =>
    obtain ⟨hd1, hd2⟩ := hd
    unfold lookup
    by_cases hm : c ∈ t.1
    · -- `c` selects the head
      have hp : p = t.2 := by
        unfold find at h; simp [hm] at h; exact h.symm
      by_cases hs : c ∈ (simp1 els t).1
      · have : find (simplify els (t :: rest)) c = some t.2 := by
          simp only [simplify, List.map]; unfold find; simp [hs, simp1_snd]
        simp [this, hp]
      · -- the head was rewritten to [Else]: nobody else lists c, the Else fallback is the head
        have he : els ∈ t.1 := by
          by_cases he : els ∈ t.1
          · exact he
          · exact absurd (mem_simp1_of_not_els t hm he) hs
        have hrest : find (simplify els rest) c = none :=
          find_none els c hc rest (find_none_of_not_mem c rest (fun r hr => hd1 r hr c hm))
        have h1 : find (simplify els (t :: rest)) c = none := by
          simp only [simplify, List.map] at *; unfold find; simp [hs]; exact hrest
        have h2 : find (simplify els (t :: rest)) els = some t.2 := by
          simp only [simplify, List.map]; unfold find
          have : els ∈ (simp1 els t).1 := (els_mem_simp1 els t).2 he
          simp [this, simp1_snd]
        simp [h1, hc, h2, hp]
    · -- `c` selects something in the rest
      have hr : find rest c = some p := by
        unfold find at h; simp [hm] at h; exact h
      have hm' : c ∉ (simp1 els t).1 := fun hh => hm (mem_simp1_of_ne t hc hh)
      have hstep : find (simplify els (t :: rest)) c = find (simplify els rest) c := by
        simp only [simplify, List.map]; conv => lhs; unfold find
        simp [hm']
      have ihr := ih hd2 hr
      unfold lookup at ihr
      rw [hstep]
      cases hf : find (simplify els rest) c with
      | some q => simp [hf] at ihr ⊢; exact ihr
      | none =>
        simp [hf, hc] at ihr ⊢
        -- the Else fallback must not stop at the head: the head does not list Else
        obtain ⟨r, hrm, hrc, hre⟩ := lost_means_else els c hc rest p hr hf
        have het : els ∉ t.1 := fun he => hd1 r hrm els he hre
        have : find (simplify els (t :: rest)) els = find (simplify els rest) els := by
          simp only [simplify, List.map]; conv => lhs; unfold find
          have : els ∉ (simp1 els t).1 := fun hh => het ((els_mem_simp1 els t).1 hh)
          simp [this]
        rw [this]; exact ihr

/-- **L-simplify.** Under RI1 the pass preserves the lookup of every symbol. -/
theorem lookup_simplify (els : σ) (ts : List (Tr σ π)) (hd : Disj ts) (c : σ) :
    lookup els (simplify els ts) c = lookup els ts c := by
  by_cases hc : c = els
  · subst hc
    unfold lookup
    rw [find_els]
  · cases h : find ts c with
    | some p =>
      rw [lookup_some els c hc ts hd p h]
      unfold lookup; simp [h]
    | none =>
      unfold lookup
      rw [find_none els c hc ts h, find_els]
      simp [h, hc]

end Simplify

#print axioms Simplify.lookup_simplify
