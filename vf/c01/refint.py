"""Reference interpreter of the nmfu statement language (C01): the *procedural reading* of a program, executed directly on the
Lark parse tree.  Written from docs/user-ref/parser.md and the statement of C01; it never touches nmfu's AST nodes, automata
or code generator, so a front-end change that binds a statement wrongly shows up as a disagreement.

Reading implemented
  * statements run in order on a cursor over the input; a statement that needs input looks at the current byte only;
  * a match consumes while the pattern can continue with the current byte, is complete when it cannot and the consumed
    bytes are in its language, and raises `nomatch` at the current byte otherwise (patterns are Brzozowski derivatives,
    vf/rtc/regex_contract.py; end-of-input is symbol 256, consumed only by `end`);
  * `x += pattern` appends each consumed byte and raises `outofspace` at the byte that does not fit;
  * optional enters its body iff the current byte can start it; loop repeats; break leaves the named / innermost loop;
  * case runs the clause patterns in parallel and then the clause whose pattern equals the consumed bytes (highest priority
    in a greedy case), else the else clause, else `nomatch`;
  * try/catch: the handler runs at the offending byte, for the reasons it lists (all when none is listed);
  * foreach: the do-actions run for every byte the body consumes; if/elif/else on the data at the time it is reached;
  * wait: restart semantics, never fails; finish/yield/hook/assign/append/delete are performed when reached.
Latitude of the statement that the interpreter reproduces as nondeterminism (`oracle`):
  * actions performed since the last consumed byte when a `nomatch` strikes may or may not have run (any prefix of them ran).
Timing (which of two neighbouring bytes an action runs with) is left to the comparison (vf/c01/compare.py)."""
import string
from ..rtc import regex_contract as RX

END = 256
ESC = {"n": 10, "r": 13, "t": 9, "b": 8, "0": 0, '"': 34, "\\": 92, "'": 39}


class Unsupported(Exception):
    """the program / input is outside what the reference decides (never a violation)"""


class NoMatch(Exception):
    pass


class OutOfSpace(Exception):
    kind = "byte"     # byte: the consumed byte does not fit; action: an append-expression between two bytes; foreach: a do-action of a foreach


class Escaped(Exception):
    """an error raised by the do-actions of a foreach statement: it belongs to the handlers enclosing that foreach statement"""

    def __init__(self, frame, exc):
        self.frame = frame
        self.exc = exc


class BreakX(Exception):
    def __init__(self, target):
        self.target = target


class Finish(Exception):
    def __init__(self, code):
        self.code = code


class Incomplete(Exception):
    """the program needs input that can never come (wait at end of input, or anything after `end` was consumed)"""


def decode_string(contents):
    out = []
    i = 0
    while i < len(contents):
        if contents[i] != "\\":
            o = ord(contents[i])
            if o > 255:
                raise Unsupported("non-byte character in a literal")
            out.append(o)
            i += 1
        elif contents[i + 1] == "x":
            out.append(int(contents[i + 2:i + 4], 16))
            i += 4
        else:
            if contents[i + 1] not in ESC:
                raise Unsupported("escape outside the documented table")
            out.append(ESC[contents[i + 1]])
            i += 2
    return out


def first_mask(r):
    k = r[0]
    if k == "cls":
        return r[1]
    if k == "cat":
        m = first_mask(r[1])
        if RX.nullable(r[1]):
            m |= first_mask(r[2])
        return m
    if k == "alt":
        m = 0
        for x in r[1]:
            m |= first_mask(x)
        return m
    if k == "star":
        return first_mask(r[1])
    return 0


def all_masks(r, acc):
    k = r[0]
    if k == "cls":
        acc.add(r[1])
    elif k == "cat":
        all_masks(r[1], acc)
        all_masks(r[2], acc)
    elif k == "alt":
        for x in r[1]:
            all_masks(x, acc)
    elif k == "star":
        all_masks(r[1], acc)


MATCH_KINDS = ("string_const", "string_case_const", "binary_string_const", "regex", "binary_regex", "concat_expr", "end_expr")


def pattern_term(tree):
    d = tree.data
    if d == "string_const":
        r = RX.EPS
        for o in reversed(decode_string(tree.children[0].value[1:-1])):
            r = RX.cat(("cls", 1 << o), r)
        return r
    if d == "string_case_const":
        r = RX.EPS
        for o in reversed(decode_string(tree.children[0].value[1:-1])):
            m = 1 << o
            c = chr(o)
            if c in string.ascii_letters:
                m = (1 << ord(c.lower())) | (1 << ord(c.upper()))
            r = RX.cat(("cls", m), r)
        return r
    if d == "binary_string_const":
        hexd = [c for c in tree.children[0].value[1:-1] if c in string.hexdigits]
        if len(hexd) % 2:
            raise Unsupported("odd number of hex digits")
        r = RX.EPS
        for k in range(len(hexd) - 2, -1, -2):
            r = RX.cat(("cls", 1 << int(hexd[k] + hexd[k + 1], 16)), r)
        return r
    if d == "regex":
        return RX.from_tree(tree, False)
    if d == "binary_regex":
        return RX.from_tree(tree, True)
    if d == "end_expr":
        return ("cls", 1 << END)
    if d == "concat_expr":
        r = RX.EPS
        for ch in reversed(tree.children):
            r = RX.cat(pattern_term(ch), r)
        return r
    raise Unsupported(f"match expression {d}")


class Program:
    """declarations + statement tree of one source text (macros are expanded textually on the tree, as documented)"""

    def __init__(self, nmfu, src):
        import lark
        self.lark = lark
        self.tree = nmfu.parser.parse(src, start="start")
        self.outs = {}
        self.order = []
        self.hooks = set()
        self.finish_codes = set()
        self.yield_codes = set()
        self.macros = {}
        self.body = None
        for ch in self.tree.children:
            d = ch.data
            if d == "out_decl":
                self._out(ch)
            elif d == "hook_decl":
                self.hooks.add(ch.children[0].value)
            elif d == "code_decl":
                tgt = self.finish_codes if ch.children[0].value == "finishcode" else self.yield_codes
                for t in ch.children[1:]:
                    tgt.add(t.value)
            elif d == "macro_decl":
                self.macros[ch.children[0].value] = ch
            elif d == "parser_decl":
                self.body = list(ch.children)
        if self.macros:
            raise Unsupported("macros (their expansion is the subject of C13)")
        self.terms = []
        self._collect_terms(self.tree)

    def _out(self, ch):
        ty, name = ch.children[0], ch.children[1].value
        o = {"name": name, "kind": None, "default": None}
        d = ty.data
        if d == "bool_type":
            o.update(kind="bool", lo=0, hi=1)
        elif d == "int_type":
            signed, width = True, 32
            for a in ty.children:
                if a.data == "signed_attr":
                    signed = a.children[0].value == "signed"
                else:
                    width = int(a.children[0].value)
            # docs: `size` in the example is in bits (size 16), the implementation takes bytes; only the default is used by the reference
            if any(a.data == "width_attr" for a in ty.children):
                wb = width
                if wb in (1, 2, 4, 8):
                    width = wb * 8
                else:
                    raise Unsupported("integer size")
            o.update(kind="int", lo=-(1 << (width - 1)) if signed else 0, hi=(1 << (width - 1)) - 1 if signed else (1 << width) - 1)
        elif d == "enum_type":
            o.update(kind="enum", values=[t.value for t in ty.children], lo=0, hi=len(ty.children) - 1)
        elif d == "str_type":
            n = int(ty.children[0].value, 0)
            o.update(kind="str", cap=n - 1, term=True)
        elif d == "unterm_str_type":
            n = int(ty.children[0].value, 0)
            o.update(kind="str", cap=n, term=False)
        elif d == "raw_type":
            sizes = {"uint8_t": 1, "int8_t": 1, "uint16_t": 2, "int16_t": 2, "uint32_t": 4, "int32_t": 4, "uint64_t": 8, "int64_t": 8}
            t = ty.children[0].value
            if t not in sizes:
                raise Unsupported("raw type of unknown size")
            o.update(kind="str", cap=sizes[t], term=False, raw=True)
        if len(ch.children) > 2:
            o["default"] = ch.children[2]
        self.outs[name] = o
        self.order.append(name)

    def _collect_terms(self, t):
        for sub in t.iter_subtrees():
            if sub.data in MATCH_KINDS and sub.data != "concat_expr":
                try:
                    self.terms.append(pattern_term(sub))
                except (Unsupported, ValueError):
                    pass

    def alphabet(self):
        """one representative per block of bytes no pattern of the program distinguishes"""
        masks = set()
        for r in self.terms:
            all_masks(r, masks)
        blocks = [RX.FULL]
        for m in masks:
            m &= RX.FULL
            nb = []
            for bl in blocks:
                a, c = bl & m, bl & ~m
                if a:
                    nb.append(a)
                if c:
                    nb.append(c)
            blocks = nb
        reps = []
        for bl in blocks:
            cand = [b for b in range(256) if (bl >> b) & 1]
            pref = [b for b in cand if 33 <= b < 127] or cand
            reps.append(pref[0])
        return sorted(reps)

    def enum_const(self, name):
        hits = [(o, o["values"].index(name)) for o in self.outs.values() if o["kind"] == "enum" and name in o["values"]]
        if len(set(i for _, i in hits)) != 1:
            raise Unsupported("enum constant not resolvable without context")
        return hits[0][1]


class Oracle:
    """replayable sequence of choices (depth-first enumeration by re-execution)"""

    def __init__(self, script):
        self.script = list(script)
        self.i = 0
        self.arity = []

    def choose(self, n):
        if n <= 1:
            return 0
        if self.i < len(self.script):
            c = self.script[self.i]
        else:
            c = 0
            self.script.append(0)
        self.arity.append(n)
        self.i += 1
        return c


def all_runs(make_run, limit=64):
    """enumerate every resolution of the oracle choices; yields results of make_run(oracle)"""
    script = []
    n = 0
    while True:
        o = Oracle(script)
        yield make_run(o)
        n += 1
        if n >= limit:
            raise Unsupported("too many nondeterministic resolutions")
        s = o.script[:o.i]
        while s and s[-1] + 1 >= o.arity[len(s) - 1]:
            s.pop()
        if not s:
            return
        s[-1] += 1
        script = s


I31 = 1 << 31


class Run:
    def __init__(self, prog, w, oracle, has_end=True):
        self.p = prog
        self.w = w
        self.oracle = oracle
        self.has_end = has_end
        self.pos = 0
        self.end_consumed = False
        self.last = None
        self.last_defined = False
        self.data = {}
        self.events = []
        self.pending = []
        self.foreach = []
        self.loops = []
        self.steps = 0
        self.tags = set()
        self.provisional = False          # the match in progress is complete as it stands (and can still continue)
        self.chooser = None               # input generation: called for a byte the input does not have yet
        self.lookahead_declined = False   # the current byte was looked at by a statement that then did not consume it
        for name in prog.order:
            o = prog.outs[name]
            if o["kind"] == "str":
                v = bytes()
                if o["default"] is not None:
                    dt = o["default"]
                    if dt.data != "string_const":
                        raise Unsupported("string default that is not a string literal")
                    v = bytes(decode_string(dt.children[0].value[1:-1]))
                self.data[name] = v
            else:
                v = 0
                if o["default"] is not None:
                    v = self.literal(o, o["default"])
                self.data[name] = v

    # ---------------- input ----------------
    def peek(self, hint=0):
        if self.pos == len(self.w) and self.chooser is not None and not self.end_consumed:
            b = self.chooser(hint)
            if b is None:
                self.chooser = None
            else:
                self.w = self.w + bytes([b])
        if self.pos < len(self.w):
            return self.w[self.pos]
        if self.end_consumed or not self.has_end:
            raise Incomplete()
        return END

    def consume(self, on_byte=None):
        """consume the current byte.  The do-actions of the enclosing foreach statements belong to the consumption: if one of them
        raises, the byte is the offending byte and is not consumed."""
        b = self.peek()
        had_pending = bool(self.pending)
        self.pending = []
        if self.foreach and had_pending:
            # actions performed since the previous byte precede this byte's do-actions in program order; the compiled machine puts the
            # do-actions first on the transition (known finding F-01s)
            self.tags.add("do-actions-before-pending-actions")
        if self.foreach and self.provisional:
            # the match being extended could already have ended before this byte: non-strict assignments that follow it may have
            # been performed by then (known finding F-01f), which the do-actions of this foreach can observe
            self.tags.add("do-action-after-provisional-end")
        prev = self.last
        self.last = 255 if b == END else b
        saved = self.last_defined
        self.last_defined = True
        try:
            for fi, acts in enumerate(self.foreach):
                try:
                    for a in acts:
                        self.exec_stmt(a)
                except (NoMatch, OutOfSpace) as e:
                    if isinstance(e, OutOfSpace):
                        e.kind = "foreach"
                    raise Escaped(fi, e)
            if on_byte is not None:
                on_byte(b)
        except (Escaped, OutOfSpace):
            self.last = prev
            raise
        finally:
            self.last_defined = saved
        self.pending = []
        if b == END:
            self.end_consumed = True
        else:
            self.pos += 1
        self.lookahead_declined = False
        return b

    # ---------------- data ----------------
    def snapshot(self):
        s = {}
        for name in self.p.order:
            o = self.p.outs[name]
            v = self.data[name]
            if o["kind"] == "str":
                s[name] = (len(v), bytes(v), 0 if o.get("term") else None)
            else:
                s[name] = v
        return s

    def act(self, fn):
        """perform an action; remembered as pending until the next byte is consumed"""
        self.pending.append((dict(self.data), len(self.events)))
        fn()

    def literal(self, o, t):
        d = t.data
        if d == "bool_const":
            return 1 if t.children[0].value == "true" else 0
        if d == "number_const":
            return self.fit(o, int(t.children[0].value, 0))
        if d == "char_const":
            return self.fit(o, self.char_const(t.children[0].value))
        if d == "identifier_const":
            nm = t.children[0].value
            if o["kind"] == "enum":
                if nm not in o["values"]:
                    raise Unsupported("identifier assigned to an enum is not one of its constants")
                return o["values"].index(nm)
            raise Unsupported("identifier as a value")
        raise Unsupported(f"literal {d}")

    @staticmethod
    def char_const(v):
        body = v[1:-1]
        if body[0] == "\\":
            if body[1] not in ESC:
                raise Unsupported("character escape")
            return ESC[body[1]]
        return ord(body)

    def fit(self, o, v):
        if o["kind"] == "bool":
            return 1 if v else 0
        if not (o["lo"] <= v <= o["hi"]):
            raise Unsupported("value outside the range of the assigned variable (arithmetic is the subject of C03/C14)")
        return v

    def ev(self, t):
        """value of a math expression on small non-negative operands; anything else is left to C03/C14"""
        lark = self.p.lark
        if isinstance(t, lark.Token):
            raise Unsupported("token in expression")
        d = t.data
        c = t.children
        chk = self.chk
        if d == "math_num":
            return chk(int(c[0].value, 0))
        if d == "math_char_const":
            return self.char_const(c[0].value)
        if d == "bool_const":
            return 1 if c[0].value == "true" else 0
        if d == "math_var":
            nm = c[0].value
            if nm in self.p.outs:
                o = self.p.outs[nm]
                if o["kind"] == "str":
                    raise Unsupported("string variable in arithmetic")
                return self.data[nm]
            return self.p.enum_const(nm)
        if d == "math_str_len":
            return len(self.data[c[0].value])
        if d == "math_str_index":
            o = self.p.outs[c[0].value]
            i = self.ev(c[1])
            v = self.data[c[0].value]
            if 0 <= i < len(v):
                b = v[i]
                if b >= 128:
                    raise Unsupported("signedness of a high byte read from a string")
                return b
            if 0 <= i <= len(v) and o.get("term"):
                return 0
            raise Unsupported("string index beyond the stored bytes")
        if d == "builtin_math_var":
            if c[0].value != "last":
                raise Unsupported("builtin variable")
            if not self.last_defined or self.last is None:
                raise Unsupported("$last where the documentation leaves it undefined")
            return self.last
        if d == "not_expr":
            return 0 if self.ev(c[0]) else 1
        if d == "negate_expr":
            return chk(-self.ev(c[0]))
        if d == "sum_expr":
            acc = self.ev(c[0])
            for k in range(1, len(c), 2):
                v = self.ev(c[k + 1])
                acc = chk(acc + v if c[k].value == "+" else acc - v)
            return acc
        if d == "mul_expr":
            acc = self.ev(c[0])
            for k in range(1, len(c), 2):
                v = self.ev(c[k + 1])
                op = c[k].value
                if op == "*":
                    acc = chk(acc * v)
                else:
                    if v <= 0 or acc < 0:
                        raise Unsupported("division with a non-positive operand")
                    acc = acc // v if op == "/" else acc % v
            return acc
        if d == "shift_expr":
            a, b = self.ev(c[0]), self.ev(c[2])
            if a < 0 or not (0 <= b < 31):
                raise Unsupported("shift operands")
            return chk(a << b) if c[1].value == "<<" else a >> b
        if d == "comp_expr":
            a, b = self.ev(c[0]), self.ev(c[2])
            op = c[1].value
            return int({"==": a == b, "!=": a != b, "<": a < b, ">": a > b, "<=": a <= b, ">=": a >= b}[op])
        if d in ("bit_and_expr", "bit_or_expr", "bit_xor_expr"):
            acc = self.ev(c[0])
            for x in c[1:]:
                v = self.ev(x)
                if acc < 0 or v < 0:
                    raise Unsupported("bit operation on a negative value")
                acc = acc & v if d == "bit_and_expr" else acc | v if d == "bit_or_expr" else acc ^ v
            return acc
        if d == "conjunction_expr":
            # C semantics: short circuit; operands have no side effects, but an unsupported operand after a deciding one is not evaluated
            for x in c:
                if not self.ev(x):
                    return 0
            return 1
        if d == "disjunction_expr":
            for x in c:
                if self.ev(x):
                    return 1
            return 0
        raise Unsupported(f"expression {d}")

    @staticmethod
    def chk(v):
        if not (-I31 < v < I31):
            raise Unsupported("intermediate value outside 32 bits")
        return v

    # ---------------- statements ----------------
    def run(self):
        """-> (terminal, events) with terminal = ('done', code, k, snapshot) | ('fail', k) | ('incomplete',)"""
        try:
            try:
                self.exec_seq(self.p.body)
            except (NoMatch, OutOfSpace, Escaped) as e:
                if isinstance(e, Escaped):
                    e = e.exc
                self.resolve_pending(isinstance(e, NoMatch))
                return ("fail", self.pos, isinstance(e, OutOfSpace) and e.kind == "action"), self.events
            except BreakX:
                raise Unsupported("break outside a loop")
            return ("done", None, self.pos, self.snapshot(), self.end_consumed, self.lookahead_declined), self.events
        except Finish as f:
            return ("done", f.code, self.pos, self.snapshot(), self.end_consumed, self.lookahead_declined), self.events
        except Incomplete:
            return ("incomplete",), self.events

    def resolve_pending(self, fork):
        if fork and self.pending:
            keep = self.oracle.choose(len(self.pending) + 1)
            # choice 0 = all of them ran (listed first so that the plain reading is tried first)
            keep = len(self.pending) - keep
            if keep < len(self.pending):
                data, nev = self.pending[keep]
                self.data = dict(data)
                del self.events[nev:]
        self.pending = []

    def exec_seq(self, stmts, keep_last=False):
        if not keep_last:
            self.last_defined = False
        for i, s in enumerate(stmts):
            self.exec_stmt(s, i == len(stmts) - 1)

    def tick(self):
        self.steps += 1
        if self.steps > 20000:
            raise Unsupported("step budget (non-terminating reading; termination is the subject of C04)")

    def exec_stmt(self, s, last_in_seq=True):
        self.tick()
        d = s.data
        c = s.children
        if d == "match_stmt":
            e = c[0]
            if e.data not in MATCH_KINDS:
                raise Unsupported(f"match statement on {e.data}")
            self.do_match(pattern_term(e), None)
            self.last_defined = True
            return
        if d == "append_stmt":
            name = c[0].value
            e = c[1]
            if e.data in MATCH_KINDS:
                self.do_match(pattern_term(e), name)
                self.last_defined = True
            else:
                def f():
                    v = self.ev(e)
                    if not (0 <= v < 128):
                        raise Unsupported("appended character code outside 0..127 (conversion is the subject of C03)")
                    self.append(name, v)
                self.act_raise(f)
            return
        if d == "assign_stmt":
            name = c[0].value
            if name not in self.p.outs:
                raise Unsupported("assignment to an undeclared name")
            o = self.p.outs[name]
            e = c[1]

            def f():
                if o["kind"] == "str":
                    if e.data != "string_const":
                        raise Unsupported("string assigned from a non-literal")
                    v = bytes(decode_string(e.children[0].value[1:-1]))
                    if len(v) > o["cap"]:
                        raise Unsupported("constant longer than the variable (must be rejected: C03)")
                    self.data[name] = v
                elif e.data in ("bool_const", "number_const", "char_const", "identifier_const"):
                    self.data[name] = self.literal(o, e)
                elif e.data in ("string_const", "string_case_const", "binary_string_const", "regex", "binary_regex", "concat_expr", "end_expr"):
                    raise Unsupported("non-integer assigned to an integer")
                else:
                    self.data[name] = self.fit(o, self.ev(e))
            self.act(f)
            return
        if d == "call_stmt":
            name = c[0].value
            if name not in self.p.hooks:
                raise Unsupported("call of something that is not a hook")
            self.act(lambda: self.events.append(("hook", name, self.snapshot())))
            return
        if d == "delete_stmt":
            name = c[0].value
            self.act(lambda: self.data.__setitem__(name, bytes()))
            return
        if d in ("finish_stmt", "custom_finish_stmt"):
            if not last_in_seq:
                # statements after a finish are dead in the reading, but the compiled machine schedules the finish together with the
                # next match: what that means is not covered by the statement
                raise Unsupported("statements after finish in the same block")
            raise Finish(c[0].value if c else None)
        if d == "custom_yield_stmt":
            code = c[0].value
            self.act(lambda: self.events.append(("yield", code)))
            return
        if d == "break_stmt":
            if c:
                raise BreakX(c[0].value)
            if not self.loops:
                raise Unsupported("break outside a loop")
            raise BreakX(self.loops[-1])
        if d == "wait_stmt":
            self.do_wait(pattern_term(c[0]))
            self.last_defined = False
            return
        saved_last = self.last_defined
        try:
            if d == "loop_stmt":
                return self.do_loop(s)
            if d == "optional_stmt":
                b = self.peek_or_end()
                if b is not None and self.starts(list(c), b):
                    self.exec_seq(list(c))
                else:
                    self.lookahead_declined = True
                return
            if d in ("case_stmt", "greedy_case_stmt"):
                return self.do_case(s)
            if d == "try_stmt":
                return self.do_try(s)
            if d == "foreach_stmt":
                body = [x for x in c if x.data != "foreach_actions"]
                acts = [x for x in c if x.data == "foreach_actions"][0].children
                for a in acts:
                    if a.data not in ("assign_stmt", "append_stmt", "call_stmt", "delete_stmt", "if_stmt", "finish_stmt", "custom_finish_stmt", "custom_yield_stmt", "break_stmt"):
                        raise Unsupported("foreach action kind")
                self.foreach.append(list(acts))
                try:
                    self.exec_seq(body)
                finally:
                    self.foreach.pop()
                return
            if d == "if_stmt":
                if self.end_consumed:
                    # known finding F-01p: the compiled end() evaluates conditions after a consumed end-of-input only where no path from
                    # them could consume end-of-input again
                    self.tags.add("condition-after-consumed-end")
                for br in c:
                    if br.data == "if_condition":
                        if self.ev(br.children[0]):
                            self.exec_seq(br.children[1:], keep_last=True)
                            return
                    else:
                        self.exec_seq(br.children, keep_last=True)
                        return
                return
        finally:
            if d != "if_stmt":
                self.last_defined = False
        raise Unsupported(f"statement {d}")

    def peek_or_end(self, hint=0):
        """the current symbol, or None once end-of-input itself has been consumed (nothing can be looked at any more: a statement that
        chooses by looking ahead then takes the way that needs no input: optional is skipped, case takes else)"""
        try:
            return self.peek(hint)
        except Incomplete:
            self.tags.add("lookahead-after-consumed-end")
            return None

    def act_raise(self, f):
        # an action that can raise outofspace: everything pending before it has run (same or earlier transition)
        self.pending.append((dict(self.data), len(self.events)))
        try:
            f()
        except OutOfSpace as e:
            self.tags.add("oos-by-action")
            e.kind = "action"
            if self.pos > 0 and not self.end_consumed and not self.lookahead_declined and self.oracle.choose(2) == 1:
                # NOT part of the reading: emulation of known finding F-01h (the compiled machine performs the append on the transition
                # that consumed the previous byte and, when it does not fit, hands that byte to the handler a second time)
                self.pos -= 1
                self.tags.add("quirk:F-01h")
            raise

    def append(self, name, b):
        o = self.p.outs[name]
        if o["kind"] != "str":
            raise Unsupported("append to a non-string")
        v = self.data[name]
        if len(v) >= o["cap"]:
            self.tags.add("out-of-space")
            raise OutOfSpace()
        self.data[name] = v + bytes([b])

    def do_match(self, r, into):
        started = False
        while True:
            if r == RX.EPS:
                return
            b = self.peek(first_mask(r))
            dr = RX.deriv(r, b)
            if dr != RX.EMPTY:
                self.provisional = started and RX.nullable(r)
                if self.provisional:
                    # the match could have ended here: non-strict assignments / deletes that follow it have been performed by the compiled
                    # machine already (known finding F-01f), although the match goes on
                    self.tags.add("continued-after-provisional-end")
                started = True
                if into is not None and b != END:
                    # the byte is appended as part of its consumption (after the do-actions of enclosing foreach statements);
                    # if it does not fit it is the offending byte and is not consumed
                    self.consume(lambda bb: self.append(into, bb))
                else:
                    self.consume()
                self.provisional = False
                r = dr
                self.tick()
                continue
            if RX.nullable(r):
                self.lookahead_declined = True
                return
            raise NoMatch()

    def do_wait(self, r0):
        """restart semantics: a mismatch abandons the partial match and resumes from the pattern's beginning with the offending byte,
        which is skipped if it cannot start the pattern; end-of-input never ends the wait.  Once matching, the pattern's extent is that
        of an ordinary match (it goes on while the pattern can continue)."""
        if RX.nullable(r0):
            return
        r = r0
        while True:
            self.tick()
            if r != r0 and RX.nullable(r) and not first_mask(r):
                return
            b = self.peek(first_mask(r) | first_mask(r0))
            dr = RX.deriv(r, b)
            if b == END and dr == RX.EMPTY:
                if r != r0 and RX.nullable(r):
                    self.lookahead_declined = True
                    return
                if RX.deriv(r0, b) == RX.EMPTY:
                    if self.foreach:
                        self.tags.add("end-during-wait-in-foreach")
                    raise Incomplete()
            if dr != RX.EMPTY:
                self.consume()
                r = dr
                continue
            if r != r0 and RX.nullable(r):
                self.lookahead_declined = True
                return
            if r != r0:
                r = r0
                continue          # the offending byte may start the pattern anew
            self.consume()        # skipped

    def do_loop(self, s):
        c = list(s.children)
        lark = self.p.lark
        if isinstance(c[0], lark.Token):
            name = c[0].value
            body = c[1:]
        else:
            name = ("anon", id(s), len(self.loops))
            body = c
        self.loops.append(name)
        try:
            while True:
                before = (self.pos, self.end_consumed)
                try:
                    self.exec_seq(body)
                except BreakX as bx:
                    if bx.target == name:
                        return
                    raise
                if (self.pos, self.end_consumed) == before:
                    raise Unsupported("loop iteration that consumes nothing (C04)")
        finally:
            self.loops.pop()

    def do_try(self, s):
        c = list(s.children)
        cb = c[-1]
        body = c[:-1]
        handles = {"nomatch", "outofspace"}
        hbody = list(cb.children)
        if hbody and hbody[0].data == "catch_options":
            handles = set(t.value for t in hbody[0].children)
            hbody = hbody[1:]
        depth_f, depth_l = len(self.foreach), len(self.loops)
        try:
            self.exec_seq(body)
            return
        except (NoMatch, OutOfSpace, Escaped) as e0:
            e = e0
            if isinstance(e, Escaped):
                if e.frame < depth_f:
                    raise          # raised by the do-actions of a foreach statement this try is inside of: not part of its body
                e = e.exc
            if ("nomatch" if isinstance(e, NoMatch) else "outofspace") not in handles:
                raise e0
            self.resolve_pending(isinstance(e, NoMatch))
        del self.foreach[depth_f:]
        del self.loops[depth_l:]
        self.exec_seq(hbody)

    def clause_list(self, s):
        greedy = s.data == "greedy_case_stmt"
        out = []   # (terms, body, prio, has_else)

        def clause(cl, prio):
            terms, body, has_else = [], [], False
            for ch in cl.children:
                if ch.data == "else_predicate":
                    has_else = True
                elif ch.data == "expr_predicate":
                    e = ch.children[0]
                    if e.data not in MATCH_KINDS:
                        raise Unsupported("case predicate that is not a match expression")
                    terms.append(pattern_term(e))
                else:
                    body.append(ch)
            out.append((terms, body, prio, has_else))
        for blk in s.children:
            if blk.data == "case_clause":
                clause(blk, 0)
            else:
                pr = int(blk.children[0].value)
                for cl in blk.children[1:]:
                    clause(cl, pr)
        return greedy, out

    def do_case(self, s):
        greedy, clauses = self.clause_list(s)
        flat = [(t, ci, cl[2]) for ci, cl in enumerate(clauses) for t in cl[0]]
        else_ci = [ci for ci, cl in enumerate(clauses) if cl[3]]
        if len(else_ci) > 1:
            raise Unsupported("two else clauses")
        ds = [t for t, _, _ in flat]

        def winner():
            comp = [(flat[i][2], flat[i][1]) for i, d in enumerate(ds) if d != RX.EMPTY and RX.nullable(d)]
            if not comp:
                return None
            best = max(p for p, _ in comp)
            top = set(ci for p, ci in comp if p == best)
            if len(top) != 1 or (not greedy and len(set(ci for _, ci in comp)) != 1):
                raise Unsupported("two clauses complete on the same bytes (ambiguity is the subject of C09)")
            return next(iter(top))

        def body_of(ci):
            body = clauses[ci][1]
            # docs: inside a clause which itself cannot match characters $last is the last character of the predicate
            self.last_defined = consumed > 0
            self.exec_seq(body, keep_last=True)
        consumed = 0
        while True:
            self.tick()
            hint = 0
            for d in ds:
                if d != RX.EMPTY:
                    hint |= first_mask(d)
            b = self.peek_or_end(hint)
            nd = [RX.deriv(d, b) if (d != RX.EMPTY and b is not None) else RX.EMPTY for d in ds]
            if any(d != RX.EMPTY for d in nd):
                if any(d != RX.EMPTY and RX.nullable(d) for d in ds):
                    # a clause is complete as the input stands, yet the case goes on: the compiled machine has already run that clause's
                    # leading actions (known finding F-01k / F-08a)
                    self.tags.add("case-provisional-match")
                self.consume()
                consumed += 1
                ds = nd
                if not any(first_mask(d) for d in ds if d != RX.EMPTY):
                    return body_of(winner())
                continue
            w = winner()
            self.lookahead_declined = True
            if w is not None:
                return body_of(w)
            if else_ci:
                return body_of(else_ci[0])
            if b is None:
                raise Incomplete()
            raise NoMatch()

    # ---------------- can a statement sequence start with byte b? (optional) ----------------
    def starts(self, stmts, b):
        for s in stmts:
            d = s.data
            c = s.children
            if d == "match_stmt" or (d == "append_stmt" and c[1].data in MATCH_KINDS):
                r = pattern_term(c[0] if d == "match_stmt" else c[1])
                if RX.deriv(r, b) != RX.EMPTY:
                    return True
                if RX.nullable(r):
                    continue
                return False
            if d == "wait_stmt":
                # an optional is entered when the byte can begin its first match; for a wait that is the waited-for pattern itself (the
                # bytes a wait skips are not the beginning of anything)
                r = pattern_term(c[0])
                return RX.deriv(r, b) != RX.EMPTY
            if d in ("case_stmt", "greedy_case_stmt"):
                _, clauses = self.clause_list(s)
                if any(cl[3] for cl in clauses):
                    raise Unsupported("optional starting with a case that has an else clause")
                return any(RX.deriv(t, b) != RX.EMPTY for cl in clauses for t in cl[0])
            if d == "optional_stmt":
                if self.starts(list(c), b):
                    return True
                continue
            if d == "loop_stmt":
                body = [x for x in c if not isinstance(x, self.p.lark.Token)]
                return self.starts(body, b)
            if d == "try_stmt":
                return self.starts(list(c[:-1]), b)
            if d == "foreach_stmt":
                return self.starts([x for x in c if x.data != "foreach_actions"], b)
            raise Unsupported(f"optional body starting with {d}")
        return False


def reference_runs(prog, w, limit=64):
    """all (terminal, events, tags) the procedural reading allows for input w"""
    def mk(o):
        r = Run(prog, w, o)
        t, e = r.run()
        return t, e, frozenset(r.tags)
    return list(all_runs(mk, limit))


def guided_inputs(prog, count, seed=0, maxlen=24):
    """inputs produced by walking the reading itself: at every point where a byte is needed, mostly one that the statement at hand
    can consume, sometimes another one, sometimes the end of the input"""
    import random
    rnd = random.Random(seed * 104729 + 7)
    A = prog.alphabet()
    out = set()
    for _ in range(count):
        limit = rnd.randint(1, maxlen)
        p_good = rnd.choice([0.6, 0.8, 0.95])

        def chooser(hint, rnd=rnd):
            if len(run.w) >= limit or rnd.random() < 0.03:
                return None
            hint &= RX.FULL
            if hint and rnd.random() < p_good:
                bits = [b for b in A if (hint >> b) & 1]
                if bits:
                    return rnd.choice(bits)
                cand = [b for b in range(256) if (hint >> b) & 1]
                return rnd.choice(cand)
            return rnd.choice(A)
        run = Run(prog, b"", Oracle([]))
        run.chooser = chooser
        try:
            run.run()
        except Unsupported:
            pass
        except RecursionError:
            pass
        out.add(bytes(run.w))
    return sorted(out)
