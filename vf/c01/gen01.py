"""Program generator for the C01 cross-check: statement-language programs whose matches use rotating letters, so that most of them
pass nmfu's ambiguity checks, with every block construct, nested/named loops and breaks, handlers, data-dependent branches and
timing-strict actions.  Deterministic in (n, seed)."""
import random

DECLS = """out str[4] x;
out unterminated str[3] u;
out raw{uint16_t} r;
out int n = 0;
out int m = 0;
out int{unsigned, size 1} b;
out bool f = false;
out enum{A,B,C} e;
out str[6] s = "ab";
hook h;
hook g;
finishcode F, G;
yieldcode Y, Z;
"""

LETTERS = "abcdefgh"
PATS = ['"{X}"', '"{X}{Y}"', '"{X}{Y}"i', '/{X}+/', '/{X}*{Y}/', '/[{X}{Y}]/', '/{X}{Y}?/', '/({X}{Y}|{Z})/', '/{X}{{1,2}}{Y}/', '("{X}" /{Y}+/)', '/[{X}-{X}]{Z}/', '/\\d+{X}/',
        '"{XH}"b', 'b/{XH}+/']
ACTIONS = ['n = [n + 1]', 'm = [m * 2 + 1]', 'n = [m + 2]', 's = "xy"', 's = ""', 'delete x', 'h()', 'g()', 'f = true', 'f = false', 'e = B', 'e = C', 'b = [b + 1]',
           'm = [x.len]', 'u += [65]', 'x += [66]', 'n = 7', "b = 'q'"]
CONDS = ['n > 1', 'x.len == 0', 'x.len >= 2', 'f', '!f', '!f && n < 3', 'b >= 2 || e == B', 'm == 3', 'e != A', 'u.len < 2']


class G:
    def __init__(self, rnd):
        self.r = rnd
        self.k = rnd.randrange(len(LETTERS))
        self.loops = []
        self.nloops = 0

    def letter(self):
        self.k = (self.k + 1) % len(LETTERS)
        return LETTERS[self.k]

    def match(self):
        X, Y, Z = self.letter(), self.letter(), self.letter()
        p = self.r.choice(PATS)
        return p.format(X=X, Y=Y, Z=Z, XH=f"{ord(X):02x}")

    def action(self):
        return self.r.choice(ACTIONS) + ";"

    def simple(self):
        r = self.r
        k = r.random()
        if k < 0.34:
            return self.match() + ";"
        if k < 0.44:
            return r.choice(["x", "u", "r", "s"]) + " += " + self.match() + ";"
        if k < 0.49:
            return "wait " + self.match() + ";"
        if k < 0.84:
            return self.action()
        if k < 0.88:
            return "yield " + r.choice("YZ") + ";"
        if k < 0.94 and self.loops:
            t = r.choice(self.loops + [None])
            return "break" + (f" {t}" if t else "") + ";"
        return self.match() + ";"

    def seq(self, depth, lo=1, hi=3, tail_finish=False):
        n = self.r.randint(lo, hi)
        out = [self.stmt(depth) for _ in range(n)]
        if tail_finish and self.r.random() < 0.25:
            out.append(self.r.choice(["finish;", "finish F;", "finish G;"]))
        return " ".join(out)

    def stmt(self, depth):
        r = self.r
        if depth <= 0 or r.random() < 0.45:
            return self.simple()
        k = r.random()
        if k < 0.14:
            return "optional { " + self.match() + "; " + self.seq(depth - 1, 0, 2) + " }"
        if k < 0.38:
            self.nloops += 1
            name = f"l{self.nloops}" if r.random() < 0.6 else None
            self.loops.append(name) if name else None
            pushed = name is not None
            if not pushed:
                self.loops.append(None)
            body = self.seq(depth - 1, 1, 3)
            exits = ['if ' + r.choice(CONDS) + ' { break; }', 'optional { "' + self.letter() + '"; break; }',
                     'case { "' + self.letter() + '" -> { break; } else -> { } }']
            if name:
                exits.append('optional { "' + self.letter() + f'"; break {name}; }}')
            if r.random() < 0.85:
                ex = r.choice(exits)
                # a break that textually precedes an inner loop exercises the binding of unnamed breaks
                body = (ex + " " + body) if r.random() < 0.4 else (body + " " + ex)
            self.loops.pop()
            return "loop " + (name + " " if name else "") + "{ " + self.match() + "; " + body + " }"
        if k < 0.56:
            greedy = r.random() < 0.3
            cls = []
            for _ in range(r.randint(1, 3)):
                pre = f"prio {r.randint(0, 2)} " if greedy and r.random() < 0.4 else ""
                pats = self.match()
                if r.random() < 0.2:
                    pats += ", " + self.match()
                cls.append(pre + pats + " -> { " + self.seq(depth - 1, 0, 2, True) + " }")
            if r.random() < 0.5:
                cls.append("else -> { " + self.seq(depth - 1, 0, 2) + " }")
            return ("greedy " if greedy else "") + "case { " + " ".join(cls) + " }"
        if k < 0.72:
            opt = r.choice(["", "(nomatch)", "(outofspace)", "(nomatch, outofspace)"])
            return "try { " + self.seq(depth - 1, 1, 3) + " } catch " + opt + " { " + self.seq(depth - 1, 0, 2, True) + " }"
        if k < 0.82:
            acts = " ".join(r.choice(ACTIONS + ['n = [n * 2 + ($last & 1)]', 'x += [$last]']) + ";" for _ in range(r.randint(1, 2)))
            return "foreach { " + self.match() + "; " + self.seq(depth - 1, 0, 2) + " } do { " + acts + " }"
        c = "if " + r.choice(CONDS) + " { " + self.seq(depth - 1, 1, 2, True) + " }"
        if r.random() < 0.4:
            c += " elif " + r.choice(CONDS) + " { " + self.seq(depth - 1, 1, 2) + " }"
        if r.random() < 0.6:
            c += " else { " + self.seq(depth - 1, 1, 2) + " }"
        return c


def programs(n, seed=0, depth=2):
    rnd = random.Random(7919 * seed + 101)
    out = []
    for i in range(n):
        g = G(rnd)
        body = g.match() + "; " + g.seq(depth + (1 if rnd.random() < 0.3 else 0), 2, 4, True)
        out.append({"name": f"gen01/s{seed}/{i}", "src": DECLS + "parser { " + body + " }\n", "args": [], "path": None})
    return out


def loop_programs(n, seed=0):
    """nested / named loops with breaks in every textual position relative to an inner loop (binding of unnamed breaks, after-break
    actions, breaks out of handlers and clauses)"""
    rnd = random.Random(104729 * seed + 13)
    out = []
    for i in range(n):
        L = list("abcdefgh")
        rnd.shuffle(L)
        a, b, c, d, e, f, g, h = L
        act = lambda: rnd.choice(ACTIONS) + ";"
        name = rnd.choice(["outer ", ""])
        brk_outer = "break outer;" if name else "break;"
        k = i % 6
        if k == 0:
            body = (f'loop {name}{{ case {{ "{a}" -> {{ loop {{ case {{ "{b}" -> {{ {act()} }} "{c}" -> {{ break; }} }} }} {act()} }} '
                    f'"{d}" -> {{ {act()} break; }} ' + (f'"{e}" -> {{ {brk_outer} }} ' if name else "") + f'}} }} "{f}{g}"; {act()}')
        elif k == 1:
            body = (f'loop {name}{{ "{a}"; optional {{ "{b}"; {act()} break; }} loop {{ "{c}"; optional {{ "{d}"; break; }} {act()} "{h}"; }} {act()} '
                    + (f'optional {{ "{e}"; {brk_outer} }} ' if name else "") + f'"{g}"; }} "{f}"; {act()}')
        elif k == 2:
            body = (f'loop outer {{ loop inner {{ "{a}"; case {{ "{b}" -> {{ break; }} "{c}" -> {{ {act()} break outer; }} else -> {{ {act()} }} }} }} '
                    f'"{d}"; if {rnd.choice(CONDS)} {{ break; }} {act()} }} "{e}"; {act()}')
        elif k == 3:
            body = (f'loop {name}{{ try {{ "{a}"; loop {{ /{b}+/; "{c}"; break; }} {act()} "{d}"; }} catch {{ {act()} break; }} {act()} }} "{e}"; {act()}')
        elif k == 4:
            body = (f'loop {name}{{ "{a}"; case {{ "{b}" -> {{ break; }} "{c}" -> {{ loop {{ "{d}"; optional {{ "{e}"; break; }} "{g}"; }} {act()} }} else -> {{ }} }} {act()} "{h}"; }} "{f}"; {act()}')
        else:
            body = (f'loop {name}{{ foreach {{ "{a}"; loop {{ "{b}"; optional {{ "{c}"; {act()} break; }} "{f}"; }} }} do {{ {act()} }} optional {{ "{d}"; break; }} {act()} "{g}"; }} "{e}"; {act()}')
        out.append({"name": f"gen01/loops/s{seed}/{i}", "src": DECLS + "parser { " + body + " }\n", "args": [], "path": None})
    return out
