"""Is what the generated parser did on input w one of the behaviours the procedural reading allows?

Timing latitude of C01 handled here: an action sitting between two consumed bytes may run with either, hence
  * a finish reached after k consumed bytes may be reported by the call that consumed byte k-1 or by the next call (feed of byte k,
    not consumed, or end());
  * hook / yield events are compared as a sequence (their order and the data they see), not by the call they occurred in.
A mismatch is reported exactly at the offending byte (no latitude)."""
import itertools, random
from . import refint


def _ok(rc):
    return rc == "OK" or rc.startswith("YIELD_")


def match(obs, terminal, events, w):
    """None if obs is this run, else a short reason"""
    if obs.get("crashed"):
        return "crash", "the generated parser crashed: " + (obs.get("stderr") or "")[-300:]
    if obs["events"] != events:
        n = 0
        for a, b in zip(obs["events"], events):
            if a != b:
                break
            n += 1
        got = obs["events"][n] if n < len(obs["events"]) else None
        exp = events[n] if n < len(events) else None
        kind = "event-data" if (got and exp and got[:2] == exp[:2] and got[0] == "hook") else "event-order"
        return kind, f"event #{n}: parser performs {got}, the reading performs {exp}"
    calls = obs["calls"]
    last = calls[-1]
    for cl in calls[:-1]:
        if not _ok(cl[-1] if cl[0] != "feed" else cl[2]):
            return "rc", f"call {cl} returns a final code before the last call"
    rc = last[2] if last[0] == "feed" else last[1]
    if terminal[0] == "done":
        _, code, k, snap, endc, declined = terminal
        exp = "DONE" if code is None else f"FINISH_{code}"
        if rc != exp:
            return "rc", f"parser ends with {last}, the reading finishes with {exp} after {k} bytes"
        if last[0] == "start":
            ok = k == 0 and not endc
        elif last[0] == "feed":
            ok = (not endc) and last[1] in (k - 1, k)
        else:
            ok = endc or k == len(w)
        if not ok:
            return "pos", f"{exp} reported by {last} but the reading finishes after consuming {k} bytes{' and end-of-input' if endc else ''}"
        if obs["final"] != snap:
            return "final-data", f"outputs when finished: parser {obs['final']}, reading {snap}"
        return None
    if terminal[0] == "fail":
        k = terminal[1]
        if rc != "FAIL":
            return "rc", f"parser ends with {last}, the reading fails at byte {k}"
        if last[0] == "feed":
            # an append-expression sitting between byte k-1 and byte k may run with either
            ok = last[1] == k or (terminal[2] and last[1] == k - 1)
        elif last[0] == "end":
            ok = k == len(w)
        else:
            ok = False
        if not ok:
            return "pos", f"FAIL reported by {last} but the offending byte is #{k}"
        return None
    # incomplete: the program still needs input that cannot come
    if last[0] != "end" or rc not in ("FAIL", "OK"):
        return "rc", f"parser ends with {last}, the reading is still waiting for input"
    return None


def check_input(prog, w, obs, limit=64):
    return check_runs(refint.reference_runs(prog, w, limit), w, obs)


def check_runs(runs, w, obs):
    """-> None when the parser's behaviour is one the reading allows, else (kinds, message, tags).
    Raises refint.Unsupported when the reference does not decide this input."""
    why = None
    kinds = set()
    tags = set()
    trailing = False
    quirk = None
    per_run = []
    for terminal, events, tg in runs:
        q = [t for t in tg if t.startswith("quirk:")]
        m = match(obs, terminal, events, w)
        if m is None:
            if not q:
                return None
            quirk = quirk or q[0][6:]
            continue
        if q:
            continue
        tags |= tg
        kinds.add(m[0])
        per_run.append((m[0], frozenset(tg)))
        if terminal[0] == "done" and terminal[5] and terminal[2] < len(w) and not terminal[4]:
            trailing = True
        if why is None:
            why = m[1]
    if quirk:
        return {"known"}, f"the parser behaves as described by finding {quirk}, which the reading does not allow ({why})", {"quirk:" + quirk}, []
    if trailing:
        # the program is complete after k bytes and byte k cannot continue it.  Whether that byte is then simply left unread (DONE)
        # or is a mismatch of a parser that expected the input to stop there is not settled by the statement: not decided here.
        raise refint.Unsupported("byte after a program that is already complete")
    return kinds, why, tags, per_run


def inputs_for(prog, budget=1500, extra_random=300, seed=0):
    A = prog.alphabet()
    out = [b""]
    L = 0
    total = 1
    while True:
        L += 1
        n = len(A) ** L
        if total + n > budget or L > 8:
            break
        for t in itertools.product(A, repeat=L):
            out.append(bytes(t))
        total += n
    rnd = random.Random(seed * 7919 + len(A))
    for _ in range(extra_random // 4):
        ln = rnd.randint(L, L + 8)
        out.append(bytes(rnd.choice(A) for _ in range(ln)))
    seen = set(out)
    for w in refint.guided_inputs(prog, extra_random, seed):
        if w not in seen:
            seen.add(w)
            out.append(w)
    return out, L - 1
