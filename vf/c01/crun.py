"""Runs the real generated C parser over many inputs and reports, per input, what a user of the generated API observes:
the result code of every call, every hook call with a snapshot of the output variables, and the outputs at the end.

Protocol used (docs/user-ref/generated-code.md): start; feed one byte at a time with the indirect start pointer; a yield code means
`re-invoke with the start pointer left as-is`; DONE / FINISH_* / FAIL end the run; otherwise end() is called after the last byte."""
import os, subprocess, tempfile, shutil


def driver_source(comp):
    name = comp.name
    U = name.upper()
    T = comp.nmfu.OutputStorageType
    dyn = comp.flagmap["ALLOCATE_STR_SPACE_DYNAMIC"]
    L = ["#include <stdio.h>", "#include <stdlib.h>", "#include <string.h>", "#include <inttypes.h>", f'#include "{name}.h"', ""]
    L.append(f"static void snap({name}_state_t *s) {{")
    for o in comp.cctx.state_object_spec:
        if o.type in (T.STR, T.RAW):
            acc = f"s->c.{o.name}" if o.type == T.STR else f"((const unsigned char *)&s->c.{o.name})"
            L.append(f"  printf(\" {o.name}=%d:\", (int)s->{o.name}_counter);")
            guard = f"if ({acc}) " if (o.type == T.STR and dyn) else ""
            L.append(f"  {guard}for (int i = 0; i < (int)s->{o.name}_counter; ++i) printf(\"%02x\", (unsigned)(unsigned char){acc}[i]);")
            if o.type == T.STR and o.str_null:
                L.append(f"  {guard}printf(\"/%d\", (int)(unsigned char){acc}[s->{o.name}_counter]);")
        else:
            L.append(f"  printf(\" {o.name}=%lld\", (long long)s->c.{o.name});")
    L.append("  printf(\"\\n\"); }")
    glob = comp.flagmap["HOOK_GLOBAL"]
    for h in comp.cctx.hooks:
        fn = f"void {name}_{h}_hook" if glob else f"static void hk_{h}"
        L.append(f"{fn}({name}_state_t *s, uint8_t v) {{ printf(\"H {h}\"); snap(s); }}")
    L.append(f"static const char *rcname(int rc) {{ switch (rc) {{")
    L.append(f"  case {U}_OK: return \"OK\"; case {U}_FAIL: return \"FAIL\"; case {U}_DONE: return \"DONE\";")
    for c in comp.pctx.finish_codes if hasattr(comp.pctx, "finish_codes") else []:
        L.append(f"  case {U}_FINISH_{c}: return \"FINISH_{c}\";")
    for c in comp.pctx.yield_codes if hasattr(comp.pctx, "yield_codes") else []:
        L.append(f"  case {U}_YIELD_{c}: return \"YIELD_{c}\";")
    L.append("  } return \"?\"; }")
    L.append("static int hexv(int c) { return c <= '9' ? c - '0' : (c | 32) - 'a' + 10; }")
    L.append("int main(void) { static char line[4096]; static uint8_t in[2048];")
    L.append("  while (fgets(line, sizeof line, stdin)) {")
    L.append("    int n = 0; for (char *p = line; p[0] && p[1] && p[0] != '\\n'; p += 2) in[n++] = (uint8_t)(hexv(p[0]) * 16 + hexv(p[1]));")
    L.append(f"    static {name}_state_t st; memset(&st, 0, sizeof st);")
    L.append("    printf(\"I %d\\n\", n);")
    if not glob:
        # the hook members must survive start(): set before and after
        pass
    L.append(f"    int rc = {name}_start(&st);")
    if not glob:
        for h in comp.cctx.hooks:
            L.append(f"    st.{h}_hook = hk_{h};")
    L.append("    printf(\"S %s\\n\", rcname(rc));")
    L.append(f"    int term = (rc != {U}_OK); int guard = 0;")
    L.append("    for (int i = 0; i < n && !term; ) {")
    L.append("      const uint8_t *p = in + i;")
    L.append(f"      rc = {name}_feed(&p, in + i + 1, &st);")
    L.append("      int adv = (int)(p - (in + i));")
    L.append("      printf(\"F %d %s %d\\n\", i, rcname(rc), adv);")
    L.append(f"      if (rc == {U}_OK) {{ i += 1; guard = 0; continue; }}")
    L.append(f"      if (rc == {U}_FAIL || rc == {U}_DONE || !strncmp(rcname(rc), \"FINISH_\", 7)) {{ term = 1; break; }}")
    L.append("      /* yield: re-invoke with the start pointer left as-is */")
    L.append("      i += adv; if (++guard > 64) { printf(\"X yield-storm\\n\"); term = 1; }")
    L.append("    }")
    if comp.flagmap["EOF_SUPPORT"]:
        L.append("    guard = 0;")
        L.append("    while (!term) {")
        L.append(f"      rc = {name}_end(&st); printf(\"E %s\\n\", rcname(rc));")
        L.append("      if (strncmp(rcname(rc), \"YIELD_\", 6)) break;")
        L.append("      if (++guard > 64) { printf(\"X yield-storm\\n\"); break; }")
        L.append("    }")
    L.append("    printf(\"Z\"); snap(&st);")
    if dyn:
        L.append(f"    {name}_free(&st);")
    L.append("  }")
    L.append("  return 0; }")
    return "\n".join(L) + "\n"


class CRunner:
    def __init__(self, comp, sanitize=False):
        self.comp = comp
        self.dir = tempfile.mkdtemp(prefix="c01run.", dir="/tmp")
        name = comp.name
        open(os.path.join(self.dir, name + ".h"), "w").write(comp.header)
        open(os.path.join(self.dir, name + ".c"), "w").write(comp.source)
        open(os.path.join(self.dir, "drv.c"), "w").write(driver_source(comp))
        cc = shutil.which("gcc") or shutil.which("clang")
        cmd = [cc, "-O1", "-w", "-o", "drv", "drv.c", name + ".c"]
        if sanitize:
            cmd[1:1] = ["-fsanitize=address,undefined", "-fno-sanitize-recover=all", "-g"]
        r = subprocess.run(cmd, capture_output=True, text=True, cwd=self.dir)
        self.ok = r.returncode == 0
        self.err = r.stderr[-2000:]

    def run(self, inputs, timeout_s=60):
        """inputs: list of bytes. returns list of observations (dict) in the same order, or raises on a crash/timeout"""
        data = "".join(bytes(w).hex() + "\n" for w in inputs)
        r = subprocess.run([os.path.join(self.dir, "drv")], input=data, capture_output=True, text=True, timeout=timeout_s, cwd=self.dir,
                           env=dict(os.environ, ASAN_OPTIONS="detect_leaks=1"))
        obs = []
        cur = None
        for ln in r.stdout.split("\n"):
            if not ln:
                continue
            k = ln[0]
            if k == "I":
                cur = {"calls": [], "events": [], "final": None, "crashed": False}
                obs.append(cur)
            elif k == "S":
                cur["calls"].append(("start", ln[2:]))
            elif k == "F":
                _, i, rc, adv = ln.split()
                cur["calls"].append(("feed", int(i), rc, int(adv)))
                if rc.startswith("YIELD_"):
                    cur["events"].append(("yield", rc[6:]))
            elif k == "E":
                cur["calls"].append(("end", ln[2:]))
                if ln[2:].startswith("YIELD_"):
                    cur["events"].append(("yield", ln[8:]))
            elif k == "H":
                nm, _, rest = ln[2:].partition(" ")
                cur["events"].append(("hook", nm, parse_snap(rest)))
            elif k == "Z":
                cur["final"] = parse_snap(ln[1:].strip())
            elif k == "X":
                cur["events"].append(("storm",))
        if r.returncode != 0 or len(obs) != len(inputs) or (obs and obs[-1]["final"] is None):
            bad = {"calls": [], "events": [], "final": None, "crashed": True, "stderr": r.stderr[-1500:], "rc": r.returncode}
            if obs and obs[-1]["final"] is None:
                obs[-1].update(crashed=True, stderr=r.stderr[-1500:])
            while len(obs) < len(inputs):
                obs.append(dict(bad))
        return obs

    def close(self):
        shutil.rmtree(self.dir, ignore_errors=True)


def parse_snap(s):
    out = {}
    for part in s.split():
        k, _, v = part.partition("=")
        if ":" in v:
            ln, _, rest = v.partition(":")
            hexs, _, nul = rest.partition("/")
            out[k] = (int(ln), bytes.fromhex(hexs), None if nul == "" else int(nul))
        else:
            out[k] = int(v)
    return out
