"""Grammar-based generator of small nmfu programs (DESIGN.md appendix D).  Deterministic in (n, seed)."""
import random

DECLS = """// args: -feof-support -fyield-support
out str[4] x;
out unterminated str[3] u;
out raw{uint16_t} r;
out int n = 0;
out int{unsigned, size 1} b;
out bool f = false;
out enum{A,B} e;
out str[6] s = "ab";
out str[5] z = "";
hook h;
hook g;
finishcode F;
yieldcode Y;
"""

PAIR_ATOMS = ['"a"', '"ab"', '"Ab"i', '/a+/', '/a*b/', '/[^a]/', '/./', '/(ab|c){1,2}/', '/[ab]+/', '/[bc]/', '/[bc]x/', '/[a-c]x?/', '/b+c/', '/\\d+/', '/[ab]c?/',
              'wait "ab"', 'wait /a+b/', 'end', 'x += /a+/', 'x += "ab"', 'b/61[62-63]+/', '/[^b]*/', '/a?b?/', '"c"']
PAIR_WRAPS = ['{m};', 'optional {{ {m}; }}', 'loop {{ {m}; optional {{ "!"; break; }} }}', 'case {{ {m} -> {{ h(); }} "z" -> {{ }} }}', 'try {{ {m}; }} catch {{ }}',
              'foreach {{ {m}; }} do {{ n = [n + 1]; }}', 'if n > 2 {{ {m}; }}']


def pair_programs(thorough=False):
    """all statement pairs `A; B` over the depth-1 constructs (drives the join-time contracts exhaustively)"""
    out = []
    firsts = []
    for m in PAIR_ATOMS:
        for w in (PAIR_WRAPS if thorough else PAIR_WRAPS[:3]):
            if m.startswith(("wait", "end", "x +=")) and "case" in w:
                continue
            firsts.append(w.format(m=m))
    seconds = [m + ";" for m in PAIR_ATOMS] + (['optional { "a"; }', 'case { "a" -> { } /b+/ -> { } }', 'if n > 2 { "a"; } else { "b"; }', 'loop { "a"; "." ; break; }'] )
    k = 0
    for a in firsts:
        for b in seconds:
            src = DECLS + "parser { " + a + " " + b + ' ";"; }\n'
            out.append({"name": f"pair/{k}", "src": src, "args": ["-feof-support", "-fyield-support"], "path": None})
            k += 1
    return out


WAIT_PATTERNS = ['"ab"', '"abcabd"', '"aab"i', '"aa"', '/a+b/', '/a[^a]b/', '/<[^<>]+>/', '("k" /[^k]/ "k")', '/ab*[^c]d/', '/[^a]/', '/.a/', '/a.b/', '/(ab|ac)d/', '/a{2,3}b/',
                 '"61 61 62"b', 'b/61[^61]62/', '/\\d+;/', '/[ab][^b][ab]/', '("a" "ab")', '/x[^x]*x/', '/ab?c?d/', '"\\r\\n\\r\\n"']


def wait_programs():
    out = []
    k = 0
    ctxs = ['wait {p}; ";";', 'x += "a"; wait {p}; h();', 'try {{ "q"; wait {p}; }} catch {{ wait {p}; }} "z";', 'loop {{ wait {p}; optional {{ "!"; break; }} }} ";";', 'wait {p}; end;',
            # a wait as the first statement of a block that is entered on its first byte (the block's start state is the wait's start state)
            'try {{ "<"; optional {{ wait {p}; h(); }} ";"; }} catch {{ g(); }} "z";', '"<"; optional {{ wait {p}; }} ";";']
    for p in WAIT_PATTERNS:
        for c in ctxs:
            src = DECLS + "parser { " + c.format(p=p) + " }\n"
            out.append({"name": f"wait/{k}", "src": src, "args": ["-feof-support", "-fyield-support"], "path": None})
            k += 1
    return out


RX_ATOMS = ['a', 'b', '.', '[^a]', '\\d', '[ab]', '[a-c]']
RX_OPS = ['', '?', '*', '+', '{2}', '{1,2}', '{2,}']
RX_TRICKY = ['(a*)*b', 'a{0}b', '(a|b)*abb', '[^a][^b]', '[^a]*a', '.*', '.+x', '(ab|a)(c|bc)', 'a?a?aa', '(a|ab)(c|bcd)(d*)', '\\w+@\\w+', '[\\w\\-]+', '[^\\d\\s]x',
             '(\\.|[^"\\\\])*"', 'x[a-c\\d]{2,3}y', '(a{2}){2}', '((a))', '(a|b|c|d)', 'a|b*|c+', '[a-a]', '\\n\\t\\r', '.{3}', '(.a){2}', '[^ab]|a', 'ab*[^c]d', '\\S\\s\\S', '\\D\\W',
             '[+-\\/]', '[\\--0]x', '[\\/-9]+', '[Z-\\]]', '[^*-\\/x]', '[\\]-a\\w]', '[\\\\-a]', '[!-\\-]y', '[\\^-z]', 'a[\\-\\]]b']
RX_BIN = ['61', '61 62+', '(61|62)*63', '[61-63]{2}', '[^00]', '.', '00 [10-15]+|(44 56? 12)', 'ff.{2}', '[^61 62]63', '.*00',
          # two inverted sets whose members are disjoint (only the binary form can exclude 128 bytes at once): both must keep their own members
          '[^00-7F]|[^80-FF]', '[^00-7F]01|[^80-FF]02', '([^00-7F]61|[^80-FF]62)+', '[^00-7F][^80-FF]|[^80-FF]63']


def _rx_prog(rx, binary=False, k=0):
    src = "parser { " + ("b" if binary else "") + "/" + rx + "/; }\n"
    return {"name": f"rx/{k}:{'b' if binary else ''}/{rx}/", "src": src, "args": ["-feof-support"], "path": None}


def regex_programs(thorough=False, seed=0):
    """every regex AST up to size 2 (thorough: 3) over a small atom set with all operators + tricky hand-written + random larger ones"""
    import itertools, random
    out = []
    k = 0
    units = [a + o for a in RX_ATOMS for o in RX_OPS]
    rxs = list(units)
    for x, y in itertools.product(units, units):
        rxs.append(x + y)
        rxs.append(x + "|" + y)
    for x, y in itertools.product(RX_ATOMS, RX_ATOMS):
        for o in RX_OPS[1:]:
            rxs.append("(" + x + y + ")" + o)
            rxs.append("(" + x + "|" + y + ")" + o)
    if thorough:
        small = [a + o for a in RX_ATOMS[:5] for o in ('', '?', '*', '+')]
        for x, y, z in itertools.product(small, small, small):
            rxs.append(x + y + z)
            rxs.append(x + "(" + y + "|" + z + ")")
            rxs.append("(" + x + "|" + y + ")*" + z)
    rnd = random.Random(seed * 31 + 5)
    pool = units + RX_TRICKY

    pool_nc = [u for u in pool if "{" not in u]

    def rand_rx(d, counted=True):
        # counted repetition is not nested inside counted repetition: the unrolled automata grow multiplicatively and the compiler
        # needs minutes for them, which says nothing about the property
        if d == 0 or rnd.random() < 0.3:
            return rnd.choice(pool if counted else pool_nc)
        c = rnd.random()
        if c < 0.4:
            return rand_rx(d - 1, counted) + rand_rx(d - 1, counted)
        if c < 0.7:
            return "(" + rand_rx(d - 1, counted) + "|" + rand_rx(d - 1, counted) + ")"
        op = rnd.choice(RX_OPS[1:] if counted else RX_OPS[1:4])
        return "(" + rand_rx(d - 1, counted and "{" not in op) + ")" + op
    for _ in range(1500 if thorough else 150):
        rxs.append(rand_rx(3))
    for rx in RX_TRICKY + rxs:
        out.append(_rx_prog(rx, False, k))
        k += 1
    for rx in RX_BIN:
        out.append(_rx_prog(rx, True, k))
        k += 1
    return out


AMBIG_ATOMS = ['/[^x]*/', '/[^y]z/', '/(a|b|[^c])*/', '/[^a]/', '/a*/', '/[ab]+/', '/[bc]/', '/.*/', '/.a/', '/\\w+/', '/[^\\d]+/', '"ab"', '/[a-y]*/', '/a?b?/', 'optional { /[^q]/; }', 'optional { "a"; }']


def ambig_programs():
    """all ordered pairs of open-ended / inverted-class statements: mostly ambiguous joins, exercising every diagnostic path of the join"""
    out = []
    k = 0
    for a in AMBIG_ATOMS:
        for b in AMBIG_ATOMS:
            sa = a if a.startswith("optional") else a + ";"
            sb = b if b.startswith("optional") else b + ";"
            for ctx in ("{a} {b}", "if n > 1 {{ {a} }} {b}", "{a} if n > 1 {{ {b} }}"):
                src = DECLS + "parser { " + ctx.format(a=sa, b=sb) + ' ";"; }\n'
                out.append({"name": f"ambig/{k}", "src": src, "args": ["-feof-support", "-fyield-support"], "path": None})
                k += 1
    return out + ambigif_programs()


def ambigif_programs():
    """a statement whose end is found by lookahead, followed by a condition whose branches begin differently (a byte that one branch
    excludes explicitly may still begin the other one): if / else, if / elif / else and a nested if"""
    out = []
    k = 0
    branch = ['/[^a]/', '/[^b]/', '/[^ab]x/', '"ab"', '/[bc]/', '/./', '/a?b/', '/[^a]*c/']
    for pre in ('/a+/;', '/[^x]*/;', 'optional { "a"; }', '/b*c?/;'):
        for a in branch:
            for b in branch:
                for ctx in ("if n == 1 {{ {a}; }} else {{ {b}; }}", "if n == 1 {{ {a}; }} elif n == 2 {{ {b}; }} else {{ {a}; }}", "if n == 1 {{ if n == 3 {{ {a}; }} else {{ {b}; }} }} else {{ {a}; }}"):
                    if ctx.count("{a}") > 1 and a == b:
                        continue
                    src = DECLS + "parser { " + pre + " " + ctx.format(a=a, b=b) + ' "z"; }\n'
                    out.append({"name": f"ambigif/{k}", "src": src, "args": ["-feof-support", "-fyield-support"], "path": None})
                    k += 1
    return out


def case_programs(empty_bodies=False):
    """clause sets for case / greedy case (drives the merge contracts and the clause-selection reference).
    Clause bodies are `n = [k]; "!";` (marker scheduled on the way out of the case); with empty_bodies=True just `n = [k];`."""
    import itertools
    pats = ['"a"', '"ab"', '"abc"', '"Ab"i', '/a+/', '/a*b/', '/[ab]+/', '/[bc]/', '/[^a]/', '/./', '/ab?/', '/\\w+/', '/\\d+/', '"if"', '"in"', '"int"', '/[a-z]+/', 'end', 'b/61 62?/']
    out = []
    k = 0
    tail = "" if empty_bodies else '"!";'
    for n in (2, 3):
        for combo in itertools.combinations(pats, n):
            if n == 3 and k % 7:
                k += 1
                continue
            for greedy in (False, True):
                cls = []
                for i, pth in enumerate(combo):
                    pre = f"prio {i} " if greedy and (k + i) % 3 == 0 else ""
                    cls.append(f"{pre}{pth} -> {{ n = [{i + 1}]; {tail} }}")
                if k % 5 == 0 and n == 2:
                    # several patterns in one clause
                    cls = [f"{combo[0]}, {combo[1]} -> {{ n = [1]; {tail} }}", '"zz" -> { n = [2]; ' + tail + ' }']
                if k % 2:
                    cls.append("else -> { n = [9]; " + tail + " }")
                src = DECLS + "parser { " + ("greedy " if greedy else "") + "case { " + " ".join(cls) + ' } ";"; }\n'
                out.append({"name": f"case{'E' if empty_bodies else ''}/{k}{'g' if greedy else ''}", "src": src, "args": ["-feof-support", "-fyield-support"], "path": None})
            k += 1
    # priority assignments over overlapping clause triples / quadruples (ties at the top with a lower clause besides, ties below the top)
    overl = [['/a[a-z]/', '"ab"', '/a[bc]/'], ['/[a-z]+/', '"if"', '/i[a-z]/'], ['"ab"', '/ab?/', '/a[b-d]/', '/[ab]+/'], ['/\\w+/', '/[a-z]+/', '"in"']]
    kk = 0
    for pats3 in overl:
        for prios in itertools.product((0, 1, 2), repeat=len(pats3)):
            if len(pats3) == 4 and kk % 3:
                kk += 1
                continue
            cls = [f"prio {pr} {pth} -> {{ n = [{i + 1}]; {tail} }}" for i, (pth, pr) in enumerate(zip(pats3, prios))]
            src = DECLS + "parser { greedy case { " + " ".join(cls) + ' } ";"; }\n'
            out.append({"name": f"case{'E' if empty_bodies else ''}/prio{kk}g", "src": src, "args": ["-feof-support", "-fyield-support"], "path": None})
            if not empty_bodies and kk % 2 == 0:
                # mixed: action-only clauses competing with clauses that have a body (the priorities of both kinds must reach the merge)
                for par in (0, 1):
                    cls = [f"prio {pr} {pth} -> {{ n = [{i + 1}]; {tail if i % 2 == par else ''} }}" for i, (pth, pr) in enumerate(zip(pats3, prios))]
                    src = DECLS + "parser { greedy case { " + " ".join(cls) + ' } ";"; }\n'
                    out.append({"name": f"caseM/prio{kk}g{par}", "src": src, "args": ["-feof-support", "-fyield-support"], "path": None})
            kk += 1
    # a single pattern, in tail position (nothing follows the case), with an empty clause body: a byte that merely ends the pattern ends the
    # program - it is neither a mismatch nor the else route (the decider's finish states carry no error transition)
    if not empty_bodies:
        kk = 0
        for pth in ['/[0-9]+/', '/ab?/', '/ab*/', '/a+/', '"ab"', '/(ab)+/', '"Ab"i', '/[b-d]x*/']:
            for tailcl in ("", "else -> { n = [9]; }", "else -> { }"):
                for greedy in (False, True):
                    src = DECLS + "parser { " + ("greedy " if greedy else "") + "case { " + pth + " -> { } " + tailcl + " } }\n"
                    out.append({"name": f"caseT/{kk}{'g' if greedy else ''}", "src": src, "args": ["-feof-support", "-fyield-support"], "path": None})
                    kk += 1
    # patterns that loop on a negated class / wildcard inside a finishing state (known finding F-08b: the merge drops the explicit exclusion
    # of the negated class on finishing states, so the excluded byte is swallowed by the pattern's Else loop)
    if not empty_bodies:
        for kk, (pth, rest) in enumerate([('/[^a]+/', ''), ('/[^a]+/', 'else -> { n = [9]; }'), ('/x[^a]*/', '"a" -> { n = [2]; }'), ('/[^ab]+/', '"a" -> { n = [2]; "!"; }')]):
            body = "{ }" if kk < 2 else '{ n = [1]; }' if kk == 2 else '{ n = [1]; "!"; }'
            src = DECLS + "parser { case { " + pth + " -> " + body + " " + rest + " } " + ('";"; ' if kk >= 2 else '') + "}\n"
            out.append({"name": f"caseN/{kk}", "src": src, "args": ["-feof-support", "-fyield-support"], "path": None})
    # else sharing a clause with patterns (the clause is entered through a pattern or through the no-match route)
    kk = 0
    for a, b, c in [('"cd"', '"ab"', '"x"'), ('/c+d/', '"ab"', '/[xy]/'), ('"Cd"i', '/a*b/', '"cx"'), ('/\\d+/', '"ab"', '"a"')]:
        for shape in ("{a}, else", "else, {a}", "{a}, {c}, else"):
            for greedy in (False, True):
                head = shape.format(a=a, c=c)
                cls = [f"{b} -> {{ n = [1]; {tail} }}", f"{head} -> {{ n = [2]; {tail} }}"]
                src = DECLS + "parser { " + ("greedy " if greedy else "") + "case { " + " ".join(cls) + ' } ";"; }\n'
                out.append({"name": f"case{'E' if empty_bodies else ''}/else{kk}{'g' if greedy else ''}", "src": src, "args": ["-feof-support", "-fyield-support"], "path": None})
                kk += 1
    return out


MATCHES = ['"a"', '"ab"', '"Ab"i', '"61 62"b', '/a+/', '/a*b/', '/[^a]/', '/./', '/(ab|c){1,2}/', 'b/61[62-63]+/', '/[a-c]x?/', '"c"', '/b+c/', '("a" /b+/)', '/\\d+/', '/[ab]/', '/[ab]+/', '/[bc]/', '/[bc]x/']
ACTIONS = ['x += [$last + 1]', 'n = [n * 2 + ($last & 1)]', 's = "xy"', 's = ""', 'delete x', 'h()', 'g()', 'f = true', 'e = B', 'b = [b + 1]',
           'n = [x.len - 1]', 'b = [x[0] % 7]', 'u += [65]', 'r += [n]']
CONDS = ['n > 2', 'x.len == 0', 'x[0] != 97', '$last == 99', 'f', '!f && n < 5', 'b >= 3 || e == B', 's[1] == 120']


class G:
    def __init__(self, rnd):
        self.r = rnd
        self.loop_depth = 0

    def match(self):
        return self.r.choice(MATCHES)

    def simple(self):
        r = self.r
        k = r.random()
        if k < 0.30:
            return self.match() + ";"
        if k < 0.40:
            return "x += " + self.match() + ";"
        if k < 0.45:
            return "u += " + r.choice(['"a"', '/b+/', '"ab"']) + ";"
        if k < 0.50:
            return "r += " + r.choice(['/./', 'b/..?/', '"a"']) + ";"
        if k < 0.56:
            return "wait " + r.choice(['"ab"', '/a+b/', '"c"', '"Ab"i']) + ";"
        if k < 0.60:
            return "end;"
        if k < 0.80:
            return r.choice(ACTIONS) + ";"
        if k < 0.85:
            return self.action_block()
        if k < 0.88:
            return "finish;"
        if k < 0.91:
            return "finish F;"
        if k < 0.95:
            return "yield Y;"
        if self.loop_depth > 0:
            return "break;"
        return self.match() + ";"

    def action_block(self):
        """action-only conditionals (no match inside): nested, with leaving actions (break / finish / yield) next to appends and assignments -
        the shapes in which the placement of an action relative to the byte that triggers it, and the recorded state, can go wrong"""
        r = self.r
        act = lambda: r.choice(ACTIONS + ['z += [$last]', 'x += [$last]', 'z = ""', 'yield Y', 'finish F']) + ";"
        leave = (lambda: r.choice(["break;", "break;", "finish;", "yield Y;"])) if self.loop_depth > 0 else (lambda: r.choice(["finish F;", "yield Y;", "finish;"]))
        k = r.random()
        c1, c2 = r.choice(CONDS), r.choice(CONDS)
        if k < 0.35:
            return f"if {c1} {{ if {c2} {{ {leave()} }} }}"
        if k < 0.6:
            return f"if {c1} {{ {act()} {leave()} }} else {{ {act()} }}"
        if k < 0.8:
            return f"if {c1} {{ {act()} }} elif {c2} {{ {leave()} }} else {{ {act()} }}"
        return f"if {c1} {{ {act()} if {c2} {{ {act()} {leave()} }} else {{ {act()} }} }}"

    def seq(self, depth, lo=1, hi=3):
        n = self.r.randint(lo, hi)
        return " ".join(self.stmt(depth) for _ in range(n))

    def stmt(self, depth):
        r = self.r
        if depth <= 0 or r.random() < 0.5:
            return self.simple()
        k = r.random()
        if k < 0.14:
            return "optional { " + self.match() + "; " + self.seq(depth - 1, 0, 2) + " }"
        if k < 0.34:
            self.loop_depth += 1
            body = self.seq(depth - 1, 1, 3)
            if r.random() < 0.7:
                body += " " + r.choice(['if ' + r.choice(CONDS) + ' { break; }', 'optional { "!"; break; }', 'case { "." -> { break; } else -> { } }'])
            self.loop_depth -= 1
            return "loop { " + body + " }"
        if k < 0.54:
            greedy = r.random() < 0.3
            ncl = r.randint(1, 3)
            cls = []
            used = set()
            for _ in range(ncl):
                m = self.match() if r.random() > 0.08 else "end"
                if m in used:
                    continue
                used.add(m)
                pre = ""
                if greedy and r.random() < 0.4:
                    pre = f"prio {r.randint(0, 2)} "
                pats = m
                if r.random() < 0.2:
                    m2 = self.match()
                    if m2 not in used:
                        used.add(m2)
                        pats += ", " + m2
                cls.append(pre + pats + " -> { " + self.seq(depth - 1, 0, 2) + " }")
            if r.random() < 0.5:
                cls.append("else -> { " + self.seq(depth - 1, 0, 2) + " }")
            return ("greedy " if greedy else "") + "case { " + " ".join(cls) + " }"
        if k < 0.70:
            opt = r.choice(["", "(nomatch)", "(outofspace)", "(nomatch, outofspace)"])
            return "try { " + self.seq(depth - 1, 1, 3) + " } catch " + opt + " { " + self.seq(depth - 1, 0, 2) + " }"
        if k < 0.80:
            acts = " ".join(r.choice(ACTIONS) + ";" for _ in range(r.randint(1, 2)))
            return "foreach { " + self.seq(depth - 1, 1, 2) + " } do { " + acts + " }"
        c = "if " + r.choice(CONDS) + " { " + self.seq(depth - 1, 1, 2) + " }"
        if r.random() < 0.4:
            c += " elif " + r.choice(CONDS) + " { " + self.seq(depth - 1, 1, 2) + " }"
        if r.random() < 0.6:
            c += " else { " + self.seq(depth - 1, 1, 2) + " }"
        return c


class G2(G):
    """same grammar, but every match draws its letters from the next of several disjoint groups: far fewer programs are ambiguous at a join, so
    many more of them are accepted - and reach the later stages (optimiser, code generator) with nested structure intact"""
    GROUPS = ["abc", "def", "ghi", "jkl", "mno", "pqr", "stu", "vwx"]
    TEMPLATES = ['"{x}"', '"{x}{y}"', '"{X}{y}"i', '/{x}+/', '/{x}*{y}/', '/[{x}{y}]/', '/[{x}-{z}]+/', '/({x}{y}|{z}){{1,2}}/', '/{x}{y}?/', '("{x}" /{y}+/)', '/[{x}{y}]{z}/', '/{x}[^{x}{y}!;.]{y}/']

    def __init__(self, rnd):
        super().__init__(rnd)
        self.k = rnd.randrange(len(self.GROUPS))

    def match(self):
        g = self.GROUPS[self.k % len(self.GROUPS)]
        self.k += 1
        x, y, z = g
        return self.r.choice(self.TEMPLATES).format(x=x, y=y, z=z, X=x.upper())


def generated_programs(n, seed=0, depth=2):
    rnd = random.Random(1000003 * seed + 17)
    out = []
    for i in range(n):
        g = G(rnd) if i % 2 == 0 else G2(rnd)
        body = g.seq(depth, 2, 4)
        src = DECLS + "parser { " + body + " }\n"
        out.append({"name": f"gen/s{seed}/{i}", "src": src, "args": ["-feof-support", "-fyield-support"], "path": None})
    return out
