"""Grammar-based generator of small nmfu programs (DESIGN.md appendix D).  Deterministic in (n, seed)."""
import random

DECLS = """// args: -feof-support -fyield-support
out str[4] x;
out unterminated str[3] u;
out raw{uint16_t} r;
out int n = 0;
out int{unsigned, size 1} b;
out bool f = false;
out enum{A,B} e;
out str[6] s = "ab";
hook h;
hook g;
finishcode F;
yieldcode Y;
"""

MATCHES = ['"a"', '"ab"', '"Ab"i', '"61 62"b', '/a+/', '/a*b/', '/[^a]/', '/./', '/(ab|c){1,2}/', 'b/61[62-63]+/', '/[a-c]x?/', '"c"', '/b+c/', '("a" /b+/)', '/\\d+/', '/[ab]/']
ACTIONS = ['x += [$last + 1]', 'n = [n * 2 + ($last & 1)]', 's = "xy"', 's = ""', 'delete x', 'h()', 'g()', 'f = true', 'e = B', 'b = [b + 1]',
           'n = [x.len - 1]', 'b = [x[0] % 7]', 'u += [65]', 'r += [n]']
CONDS = ['n > 2', 'x.len == 0', 'x[0] != 97', '$last == 99', 'f', '!f && n < 5', 'b >= 3 || e == B', 's[1] == 120']


class G:
    def __init__(self, rnd):
        self.r = rnd
        self.loop_depth = 0

    def match(self):
        return self.r.choice(MATCHES)

    def simple(self):
        r = self.r
        k = r.random()
        if k < 0.30:
            return self.match() + ";"
        if k < 0.40:
            return "x += " + self.match() + ";"
        if k < 0.45:
            return "u += " + r.choice(['"a"', '/b+/', '"ab"']) + ";"
        if k < 0.50:
            return "r += " + r.choice(['/./', 'b/..?/', '"a"']) + ";"
        if k < 0.56:
            return "wait " + r.choice(['"ab"', '/a+b/', '"c"', '"Ab"i']) + ";"
        if k < 0.60:
            return "end;"
        if k < 0.85:
            return r.choice(ACTIONS) + ";"
        if k < 0.88:
            return "finish;"
        if k < 0.91:
            return "finish F;"
        if k < 0.95:
            return "yield Y;"
        if self.loop_depth > 0:
            return "break;"
        return self.match() + ";"

    def seq(self, depth, lo=1, hi=3):
        n = self.r.randint(lo, hi)
        return " ".join(self.stmt(depth) for _ in range(n))

    def stmt(self, depth):
        r = self.r
        if depth <= 0 or r.random() < 0.5:
            return self.simple()
        k = r.random()
        if k < 0.14:
            return "optional { " + self.match() + "; " + self.seq(depth - 1, 0, 2) + " }"
        if k < 0.34:
            self.loop_depth += 1
            body = self.seq(depth - 1, 1, 3)
            if r.random() < 0.7:
                body += " " + r.choice(['if ' + r.choice(CONDS) + ' { break; }', 'optional { "!"; break; }', 'case { "." -> { break; } else -> { } }'])
            self.loop_depth -= 1
            return "loop { " + body + " }"
        if k < 0.54:
            greedy = r.random() < 0.3
            ncl = r.randint(1, 3)
            cls = []
            used = set()
            for _ in range(ncl):
                m = self.match()
                if m in used:
                    continue
                used.add(m)
                pre = ""
                if greedy and r.random() < 0.4:
                    pre = f"prio {r.randint(0, 2)} "
                pats = m
                if r.random() < 0.2:
                    m2 = self.match()
                    if m2 not in used:
                        used.add(m2)
                        pats += ", " + m2
                cls.append(pre + pats + " -> { " + self.seq(depth - 1, 0, 2) + " }")
            if r.random() < 0.5:
                cls.append("else -> { " + self.seq(depth - 1, 0, 2) + " }")
            return ("greedy " if greedy else "") + "case { " + " ".join(cls) + " }"
        if k < 0.70:
            opt = r.choice(["", "(nomatch)", "(outofspace)", "(nomatch, outofspace)"])
            return "try { " + self.seq(depth - 1, 1, 3) + " } catch " + opt + " { " + self.seq(depth - 1, 0, 2) + " }"
        if k < 0.80:
            acts = " ".join(r.choice(ACTIONS) + ";" for _ in range(r.randint(1, 2)))
            return "foreach { " + self.seq(depth - 1, 1, 2) + " } do { " + acts + " }"
        c = "if " + r.choice(CONDS) + " { " + self.seq(depth - 1, 1, 2) + " }"
        if r.random() < 0.4:
            c += " elif " + r.choice(CONDS) + " { " + self.seq(depth - 1, 1, 2) + " }"
        if r.random() < 0.6:
            c += " else { " + self.seq(depth - 1, 1, 2) + " }"
        return c


def generated_programs(n, seed=0, depth=2):
    rnd = random.Random(1000003 * seed + 17)
    out = []
    for i in range(n):
        g = G(rnd)
        body = g.seq(depth, 2, 4)
        src = DECLS + "parser { " + body + " }\n"
        out.append({"name": f"gen/s{seed}/{i}", "src": src, "args": ["-feof-support", "-fyield-support"], "path": None})
    return out
