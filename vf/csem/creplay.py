"""Replay of a csem counterexample on the real emitted C: compile header+source with a driver that forces the
pre-state from the solver model, performs one feed (one byte) or end call under a wall-clock limit and prints what happened."""
import os, subprocess, tempfile, shutil, json, re


def build_and_run(comp, witness, call="feed", timeout_s=3, sanitize=True):
    """witness: {'m.<member>': int, 'c.<scalar>': int, 'inval': int, 'state': int (optional), 'bufs': {name: [bytes]}}"""
    d = tempfile.mkdtemp(prefix="creplay.", dir="/tmp")
    try:
        name = comp.name
        open(os.path.join(d, name + ".h"), "w").write(comp.header)
        open(os.path.join(d, name + ".c"), "w").write(comp.source)
        T = comp.nmfu.OutputStorageType
        lines = ["#include <stdio.h>", "#include <stdlib.h>", "#include <string.h>", f'#include "{name}.h"', ""]
        if comp.flagmap["HOOK_GLOBAL"]:
            for h in comp.cctx.hooks:
                lines.append(f"void {name}_{h}_hook({name}_state_t *s, uint8_t v) {{ printf(\"HOOK {h} %d\\n\", v); }}")
        else:
            for h in comp.cctx.hooks:
                lines.append(f"static void hk_{h}({name}_state_t *s, uint8_t v) {{ printf(\"HOOK {h} %d\\n\", v); }}")
        lines.append("int main(void) {")
        lines.append(f"  static {name}_state_t st; memset(&st, 0xAA, sizeof st);")
        lines.append(f"  {name}_start(&st);")
        if not comp.flagmap["HOOK_GLOBAL"]:
            for h in comp.cctx.hooks:
                lines.append(f"  st.{h}_hook = hk_{h};")
        dyn = comp.flagmap["ALLOCATE_STR_SPACE_DYNAMIC"]
        for o in comp.cctx.state_object_spec:
            if o.type in (T.STR, T.RAW):
                k = f"m.{o.name}_counter"
                if k in witness:
                    v = int(witness[k])
                    if o.type == T.STR and dyn:
                        tagk = witness.get(f"tag.{o.name}")
                        if v > 0 or tagk == 1:
                            lines.append(f"  if (!st.c.{o.name}) st.c.{o.name} = malloc({o.str_size});")
                    lines.append(f"  st.{o.name}_counter = {v};")
            else:
                k = f"c.{o.name}"
                if k in witness and re.fullmatch(r"-?\d+", str(witness[k])):
                    lines.append(f"  st.c.{o.name} = ({_ctype(comp, o)}){witness[k]};")
        if "state" in witness or "m.state" in witness:
            lines.append(f"  st.state = {int(witness.get('state', witness.get('m.state')))};")
        b = int(witness.get("inval", 0)) & 255
        if call == "feed":
            lines.append(f"  uint8_t buf[1] = {{ {b} }};")
            lines.append("  const uint8_t *p = buf;")
            if comp.flagmap["INDIRECT_START_PTR"]:
                lines.append(f"  int rc = {name}_feed(&p, buf + 1, &st);")
            else:
                lines.append(f"  int rc = {name}_feed(p, buf + 1, &st);")
            lines.append("  printf(\"RC %d ADV %d STATE %d\\n\", rc, (int)(p - buf), (int)st.state);")
        elif call == "end":
            lines.append(f"  int rc = {name}_end(&st);")
            lines.append("  printf(\"RC %d STATE %d\\n\", rc, (int)st.state);")
            if witness.get("then_feed") is not None:
                lines.append(f"  uint8_t buf[1] = {{ {int(witness['then_feed']) & 255} }}; const uint8_t *p = buf;")
                lines.append(f"  int rc2 = {name}_feed({'&p' if comp.flagmap['INDIRECT_START_PTR'] else 'p'}, buf + 1, &st);")
                lines.append("  printf(\"RC2 %d\\n\", rc2);")
        for o in comp.cctx.state_object_spec:
            if o.type in (T.STR, T.RAW):
                lines.append(f"  printf(\"LEN {o.name} %d\\n\", (int)st.{o.name}_counter);")
            if o.type == T.STR and o.str_null:
                acc = f"st.c.{o.name}"
                if dyn:
                    lines.append(f"  if ({acc}) printf(\"NUL {o.name} %d\\n\", (int)(unsigned char){acc}[st.{o.name}_counter]);")
                else:
                    lines.append(f"  printf(\"NUL {o.name} %d\\n\", (int)(unsigned char){acc}[st.{o.name}_counter]);")
        lines.append("  return 0; }")
        open(os.path.join(d, "drv.c"), "w").write("\n".join(lines) + "\n")
        cc = shutil.which("clang") or shutil.which("gcc")
        cmd = [cc, "-g", "-O0", "-w", "-o", os.path.join(d, "drv"), os.path.join(d, "drv.c"), os.path.join(d, name + ".c")]
        if sanitize:
            cmd[1:1] = ["-fsanitize=address,undefined", "-fno-sanitize-recover=all"]
        r = subprocess.run(cmd, capture_output=True, text=True, cwd=d)
        if r.returncode != 0:
            return {"compiled": False, "compiler_output": r.stderr[-2000:]}
        try:
            r = subprocess.run([os.path.join(d, "drv")], capture_output=True, text=True, timeout=timeout_s, cwd=d,
                               env=dict(os.environ, ASAN_OPTIONS="detect_leaks=0"))
            return {"compiled": True, "timeout": False, "rc": r.returncode, "stdout": r.stdout[-2000:], "stderr": r.stderr[-3000:]}
        except subprocess.TimeoutExpired:
            return {"compiled": True, "timeout": True}
    finally:
        shutil.rmtree(d, ignore_errors=True)


def _ctype(comp, o):
    T = comp.nmfu.OutputStorageType
    if o.type == T.BOOL:
        return "bool"
    if o.type == T.ENUM:
        return f"{comp.name}_out_{o.name}_t"
    return "int64_t"


def syntax_check(comp, extra_flags=()):
    """gcc -fsyntax-only on source + header; g++ on the header (decision procedure for 'is valid C/C++')."""
    d = tempfile.mkdtemp(prefix="csyn.", dir="/tmp")
    try:
        name = comp.name
        open(os.path.join(d, name + ".h"), "w").write(comp.header)
        open(os.path.join(d, name + ".c"), "w").write(comp.source)
        open(os.path.join(d, "hdr.cpp"), "w").write(f'#include "{name}.h"\nint main() {{ return 0; }}\n')
        out = {}
        r = subprocess.run(["gcc", "-std=gnu99", "-fsyntax-only", "-Wall", "-Werror", "-Wno-unused-label", name + ".c"], capture_output=True, text=True, cwd=d)
        out["c"] = (r.returncode, r.stderr[-1500:])
        r = subprocess.run(["g++", "-fsyntax-only", "-Wall", "-Werror", "hdr.cpp"], capture_output=True, text=True, cwd=d)
        out["cpp_header"] = (r.returncode, r.stderr[-1500:])
        # header self-contained as C
        open(os.path.join(d, "hdr.c"), "w").write(f'#include "{name}.h"\n')
        r = subprocess.run(["gcc", "-std=gnu99", "-fsyntax-only", "-Wall", "-Werror", "hdr.c"], capture_output=True, text=True, cwd=d)
        out["c_header"] = (r.returncode, r.stderr[-1500:])
        return out
    finally:
        shutil.rmtree(d, ignore_errors=True)
