"""Parser for exactly the C subset that nmfu emits (DESIGN.md appendix C).  Anything else -> OutsideSubset (exit 2)."""
import re


class OutsideSubset(Exception):
    pass


TYPE_WORDS = {"char", "uint8_t", "int8_t", "uint16_t", "int16_t", "uint32_t", "int32_t", "uint64_t", "int64_t",
              "intmax_t", "uintmax_t", "bool", "void", "const", "unsigned", "signed", "int", "float", "double", "struct", "enum", "long", "short"}

_tok_re = re.compile(r"""
    (?P<ws>[ \t\r\n]+)
  | (?P<lcomment>//[^\n]*)
  | (?P<bcomment>/\*.*?\*/)
  | (?P<pp>\#[^\n]*)
  | (?P<num>0[xX][0-9a-fA-F]+|\d+)
  | (?P<id>[A-Za-z_$][A-Za-z_0-9$]*)
  | (?P<str>"(?:[^"\\\n]|\\.)*")
  | (?P<chr>'(?:[^'\\\n]|\\.)*')
  | (?P<op>->|\+\+|--|<<|>>|<=|>=|==|!=|&&|\|\||[-+*/%<>=!&|^~?:;,.(){}\[\]])
""", re.X | re.S)


class Tok:
    __slots__ = ("kind", "text", "pos", "line")

    def __init__(self, kind, text, pos, line):
        self.kind, self.text, self.pos, self.line = kind, text, pos, line

    def __repr__(self):
        return f"{self.kind}:{self.text!r}@{self.line}"


def tokenize(src):
    toks = []
    pos = 0
    line = 1
    n = len(src)
    while pos < n:
        m = _tok_re.match(src, pos)
        if not m:
            raise OutsideSubset(f"cannot tokenize at line {line}: {src[pos:pos+30]!r}")
        kind = m.lastgroup
        text = m.group()
        if kind not in ("ws", "lcomment", "bcomment"):
            toks.append(Tok(kind, text, pos, line))
        line += text.count("\n")
        pos = m.end()
    toks.append(Tok("eof", "", n, line))
    return toks


def c_string_bytes(lit):
    """bytes a C compiler reads from a (narrow) string literal token (without the implicit NUL). Hex escapes are greedy."""
    assert lit[0] == '"' and lit[-1] == '"'
    s = lit[1:-1]
    out = []
    i = 0
    simple = {"n": 10, "t": 9, "r": 13, "b": 8, "0": 0, "\\": 92, '"': 34, "'": 39, "a": 7, "f": 12, "v": 11, "?": 63}
    while i < len(s):
        ch = s[i]
        if ch != "\\":
            o = ord(ch)
            if o > 127:
                out.extend(ch.encode("utf-8"))
            else:
                out.append(o)
            i += 1
            continue
        i += 1
        if i >= len(s):
            raise OutsideSubset("dangling backslash in string literal")
        e = s[i]
        if e == "x":
            j = i + 1
            while j < len(s) and s[j] in "0123456789abcdefABCDEF":
                j += 1
            if j == i + 1:
                raise OutsideSubset("\\x with no hex digits")
            v = int(s[i + 1:j], 16)
            out.append(("hex", v) if v > 255 else v)
            i = j
        elif e in "01234567":
            j = i
            while j < len(s) and j < i + 3 and s[j] in "01234567":
                j += 1
            out.append(int(s[i:j], 8))
            i = j
        elif e in simple:
            out.append(simple[e])
            i += 1
        else:
            raise OutsideSubset(f"unknown escape \\{e}")
    return out


# ---------------- AST (tuples) ----------------
# expressions:
#   ("num", int) ("id", name) ("str", token_text) ("un", op, e) ("bin", op, a, b) ("tern", c, a, b)
#   ("member", base, name, arrow:bool) ("index", base, idx) ("call", fn_expr, [args]) ("cast", typename, e)
#   ("postinc", e) ("preinc", e) ("deref", e) ("sizeof", e) ("assign", lhs, rhs)
# statements:
#   ("label", name) ("case", int) ("default",) ("goto", name) ("return", expr|None) ("expr", e)
#   ("if", cond, then_block, else_block|None) ("block", [stmts]) ("switch", expr, [stmts]) ("decl", type, name, init)
#   ("pp", text)

BINPREC = [
    ("||",), ("&&",), ("|",), ("^",), ("&",), ("==", "!="), ("<", ">", "<=", ">="), ("<<", ">>"), ("+", "-"), ("*", "/", "%"),
]


class Parser:
    def __init__(self, src):
        self.src = src
        self.toks = tokenize(src)
        self.i = 0

    def peek(self, k=0):
        return self.toks[self.i + k]

    def next(self):
        t = self.toks[self.i]
        self.i += 1
        return t

    def accept(self, text):
        if self.peek().text == text and self.peek().kind in ("op", "id"):
            self.i += 1
            return True
        return False

    def expect(self, text):
        t = self.next()
        if t.text != text:
            raise OutsideSubset(f"expected {text!r} got {t.text!r} at line {t.line}")
        return t

    # ---- types ----
    def at_type(self, k=0):
        t = self.peek(k)
        return t.kind == "id" and (t.text in TYPE_WORDS or t.text.endswith("_t"))

    def parse_type(self):
        words = []
        while self.at_type() or self.peek().text == "*":
            t = self.next()
            words.append(t.text)
            if t.text in ("struct", "enum"):
                words.append(self.next().text)
        return " ".join(words)

    # ---- expressions ----
    def expr(self):
        return self.assign()

    def assign(self):
        lhs = self.ternary()
        if self.peek().text == "=" and self.peek().kind == "op":
            self.next()
            rhs = self.assign()
            return ("assign", lhs, rhs)
        return lhs

    def ternary(self):
        c = self.binary(0)
        if self.peek().text == "?":
            self.next()
            a = self.expr()
            self.expect(":")
            b = self.ternary()
            return ("tern", c, a, b)
        return c

    def binary(self, level):
        if level == len(BINPREC):
            return self.unary()
        left = self.binary(level + 1)
        while self.peek().kind == "op" and self.peek().text in BINPREC[level]:
            op = self.next().text
            right = self.binary(level + 1)
            left = ("bin", op, left, right)
        return left

    def unary(self):
        t = self.peek()
        if t.kind == "op":
            if t.text == "++":
                self.next()
                return ("preinc", self.unary())
            if t.text == "--":
                self.next()
                return ("predec", self.unary())
            if t.text in ("!", "-", "~", "+"):
                self.next()
                return ("un", t.text, self.unary())
            if t.text == "*":
                self.next()
                return ("deref", self.unary())
            if t.text == "&":
                self.next()
                return ("addr", self.unary())
            if t.text == "(" and self.at_type(1):
                # cast
                self.next()
                ty = self.parse_type()
                self.expect(")")
                return ("cast", ty, self.unary())
        if t.kind == "id" and t.text == "sizeof":
            self.next()
            self.expect("(")
            e = self.expr()
            self.expect(")")
            return ("sizeof", e)
        return self.postfix()

    def postfix(self):
        e = self.primary()
        while True:
            t = self.peek()
            if t.text == "->" and t.kind == "op":
                self.next()
                e = ("member", e, self.next().text, True)
            elif t.text == "." and t.kind == "op":
                self.next()
                e = ("member", e, self.next().text, False)
            elif t.text == "[":
                self.next()
                idx = self.expr()
                self.expect("]")
                e = ("index", e, idx)
            elif t.text == "(":
                self.next()
                args = []
                if self.peek().text != ")":
                    while True:
                        args.append(self.assign())
                        if not self.accept(","):
                            break
                self.expect(")")
                e = ("call", e, args)
            elif t.text == "++" and t.kind == "op":
                self.next()
                e = ("postinc", e)
            else:
                return e

    def primary(self):
        t = self.next()
        if t.kind == "num":
            return ("num", int(t.text, 0))
        if t.kind == "id":
            return ("id", t.text)
        if t.kind == "str":
            return ("str", t.text)
        if t.kind == "op" and t.text == "(":
            e = self.expr()
            self.expect(")")
            return ("paren", e)
        raise OutsideSubset(f"unexpected token {t!r} in expression")

    # ---- statements ----
    def block(self):
        self.expect("{")
        out = []
        while self.peek().text != "}":
            if self.peek().kind == "eof":
                raise OutsideSubset("unterminated block")
            out.append(self.stmt())
        self.expect("}")
        return out

    def stmt(self):
        t = self.peek()
        if t.kind == "pp":
            self.next()
            return ("pp", t.text, t.line)
        if t.text == "{":
            return ("block", self.block())
        if t.kind == "id":
            if t.text == "case":
                self.next()
                n = self.next()
                if n.kind != "num":
                    raise OutsideSubset("case label not a number")
                self.expect(":")
                return ("case", int(n.text, 0), t.line)
            if t.text == "default":
                self.next()
                self.expect(":")
                return ("default", t.line)
            if t.text == "goto":
                self.next()
                n = self.next().text
                self.expect(";")
                return ("goto", n, t.line)
            if t.text == "return":
                self.next()
                e = None
                if self.peek().text != ";":
                    e = self.expr()
                self.expect(";")
                return ("return", e, t.line)
            if t.text == "if":
                self.next()
                self.expect("(")
                c = self.expr()
                self.expect(")")
                th = self.stmt_as_block()
                el = None
                if self.peek().text == "else" and self.peek().kind == "id":
                    self.next()
                    el = self.stmt_as_block()
                return ("if", c, th, el, t.line)
            if t.text == "switch":
                self.next()
                self.expect("(")
                e = self.expr()
                self.expect(")")
                body = self.block()
                return ("switch", e, body, t.line)
            if t.text in ("while", "for", "do", "break", "continue"):
                raise OutsideSubset(f"statement {t.text} is outside the emitted subset (line {t.line})")
            # label?
            if self.peek(1).text == ":" and self.peek(1).kind == "op":
                self.next()
                self.next()
                return ("label", t.text, t.line)
            if self.at_type():
                ty = self.parse_type()
                name = self.next().text
                init = None
                if self.accept("="):
                    init = self.expr()
                self.expect(";")
                return ("decl", ty, name, init, t.line)
        e = self.expr()
        self.expect(";")
        return ("expr", e, t.line)

    def stmt_as_block(self):
        s = self.stmt()
        if s[0] == "block":
            return s[1]
        return [s]

    # ---- translation unit ----
    def source_file(self):
        funcs = {}
        order = []
        pps = []
        while self.peek().kind != "eof":
            t = self.peek()
            if t.kind == "pp":
                self.next()
                pps.append(t.text)
                continue
            ret = self.parse_type()
            name = self.next().text
            self.expect("(")
            params = []
            if self.peek().text != ")":
                while True:
                    pty = self.parse_type()
                    pname = self.next().text
                    params.append((pty, pname))
                    if not self.accept(","):
                        break
            self.expect(")")
            body = self.block()
            funcs[name] = {"ret": ret, "params": params, "body": body}
            order.append(name)
        return {"funcs": funcs, "order": order, "pp": pps}


def parse_source(src):
    return Parser(src).source_file()


# ---------------- header ----------------

def parse_header(src):
    """-> dict(struct_members, c_members, enums, prototypes, hooks_typedef, guards...)"""
    p = Parser(src)
    info = {"enums": {}, "c": {}, "members": {}, "protos": [], "pp": [], "typedefs": {}, "extern_c": 0, "order": []}
    toks = p.toks
    i = 0

    def text(k):
        return toks[k].text
    n = len(toks)
    while toks[i].kind != "eof":
        t = toks[i]
        if t.kind == "pp":
            info["pp"].append(t.text.strip())
            i += 1
            continue
        if t.text == "extern":
            # extern "C" {
            if toks[i + 1].kind == "str" and text(i + 2) == "{":
                info["extern_c"] += 1
                i += 3
                continue
            raise OutsideSubset("extern")
        if t.text == "}" and True:
            # closing of extern "C"
            info["extern_c_closed"] = info.get("extern_c_closed", 0) + 1
            i += 1
            continue
        if t.text == "enum":
            j = i + 1
            packed = False
            if text(j) == "__attribute__":
                # __attribute__((packed))
                while text(j) != ")" or text(j + 1) != ")":
                    j += 1
                j += 2
                packed = True
            name = text(j)
            j += 1
            if text(j) == "{":
                j += 1
                vals = []
                while text(j) != "}":
                    if toks[j].kind == "id":
                        vals.append(text(j))
                    elif text(j) != ",":
                        raise OutsideSubset(f"enum body token {text(j)}")
                    j += 1
                j += 1
                if text(j) != ";":
                    raise OutsideSubset("enum decl")
                info["enums"][name] = {"values": vals, "packed": packed}
                i = j + 1
                continue
        if t.text == "typedef":
            # typedef enum X X_t; | typedef struct X X_t; | typedef void (*name)(struct s *, uint8_t);
            j = i + 1
            if text(j) in ("enum", "struct"):
                info["typedefs"][text(j + 2)] = (text(j), text(j + 1))
                if text(j + 3) != ";":
                    raise OutsideSubset("typedef")
                i = j + 4
                continue
            if text(j) == "void" and text(j + 1) == "(" and text(j + 2) == "*":
                name = text(j + 3)
                k = j + 4
                while text(k) != ";":
                    k += 1
                info["typedefs"][name] = ("fnptr", " ".join(text(x) for x in range(j, k)))
                i = k + 1
                continue
            raise OutsideSubset("typedef form")
        if t.text == "struct":
            name = text(i + 1)
            if text(i + 2) == ";":
                info.setdefault("fwd", []).append(name)
                i += 3
                continue
            if text(i + 2) == "{":
                j = i + 3
                info["struct_name"] = name
                while text(j) != "}":
                    if text(j) == "struct" and text(j + 1) == "{":
                        j += 2
                        while text(j) != "}":
                            j, decl = _member(toks, j)
                            info["c"][decl[1]] = decl
                            info["order"].append(("c", decl[1]))
                        if text(j + 1) != "c" or text(j + 2) != ";":
                            raise OutsideSubset("inner struct name")
                        j += 3
                    else:
                        j, decl = _member(toks, j)
                        info["members"][decl[1]] = decl
                        info["order"].append(("m", decl[1]))
                if text(j + 1) != ";":
                    raise OutsideSubset("struct end")
                i = j + 2
                continue
        # prototype
        j = i
        words = []
        while text(j) != "(":
            words.append(text(j))
            j += 1
            if toks[j].kind == "eof":
                raise OutsideSubset("header: unparsed tail " + " ".join(words[:6]))
        fname = words[-1]
        k = j
        depth = 0
        while True:
            if text(k) == "(":
                depth += 1
            if text(k) == ")":
                depth -= 1
                if depth == 0:
                    break
            k += 1
        if text(k + 1) != ";":
            raise OutsideSubset("prototype end")
        info["protos"].append({"name": fname, "ret": " ".join(words[:-1]), "params": " ".join(text(x) for x in range(j + 1, k))})
        i = k + 2
    return info


def _member(toks, j):
    """parse `type name;` | `type name[N];` | `type * name;` -> (type, name, arraylen|None)"""
    words = []
    while toks[j].text not in (";", "["):
        words.append(toks[j].text)
        j += 1
        if toks[j].kind == "eof":
            raise OutsideSubset("member")
    name = words[-1]
    ty = " ".join(words[:-1])
    arr = None
    if toks[j].text == "[":
        arr = int(toks[j + 1].text, 0)
        if toks[j + 2].text != "]":
            raise OutsideSubset("array member")
        j += 3
    if toks[j].text != ";":
        raise OutsideSubset("member end")
    return j + 1, (ty, name, arr)
