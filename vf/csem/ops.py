"""Shared z3 encoding of C integer operators (used by BOTH the abstract machine and the C executor, so that two
sides agree iff they build the same expression up to ring axioms of + - *)."""
import z3

I = z3.IntSort()
cdiv = z3.Function("c_div", I, I, I)
cmod = z3.Function("c_mod", I, I, I)
shl = z3.Function("c_shl", I, I, I)
shr = z3.Function("c_shr", I, I, I)
band = z3.Function("c_and", I, I, I)
bor = z3.Function("c_or", I, I, I)
bxor = z3.Function("c_xor", I, I, I)
bnot = z3.Function("c_not", I, I)
_conv = {}


def conv(ctype, v):
    """value of `v` converted to C type `ctype` (uninterpreted per type; identity is NOT assumed)"""
    ctype = " ".join(ctype.split())
    if ctype in ("char", "uint8_t"):
        ctype = "byte"     # representation-independent: a byte stored in a string/raw buffer
    if ctype not in _conv:
        _conv[ctype] = z3.Function("conv_" + ctype.replace(" ", "_").replace("*", "p"), I, I)
    return _conv[ctype](v)


# value obtained by reading an element of a buffer declared plain `char` that holds byte b: whether plain char is signed is the
# implementation's choice (it is on the targets nmfu is used on), so the value read is NOT assumed to be b; converting it to uint8_t
# gives b back
RD_CHAR = z3.Function("rd_plain_char", I, I)


def rd_char(b):
    return RD_CHAR(b)


def un_rd_char(v):
    """(uint8_t) of a value read from a plain-char element is the byte stored there; None if v is not such a read"""
    if z3.is_app(v) and v.decl().eq(RD_CHAR):
        return v.arg(0)
    return None


def b2i(v):
    if z3.is_bool(v):
        return z3.If(v, z3.IntVal(1), z3.IntVal(0))
    return v


def truth(v):
    if z3.is_bool(v):
        return v
    return v != 0


def binop(op, a, b):
    if op in ("&&", "||"):
        return z3.And(truth(a), truth(b)) if op == "&&" else z3.Or(truth(a), truth(b))
    a, b = b2i(a), b2i(b)
    if op == "+":
        return a + b
    if op == "-":
        return a - b
    if op == "*":
        return a * b
    if op == "/":
        return cdiv(a, b)
    if op == "%":
        return cmod(a, b)
    if op == "<<":
        return shl(a, b)
    if op == ">>":
        return shr(a, b)
    if op == "&":
        return band(a, b)
    if op == "|":
        return bor(a, b)
    if op == "^":
        return bxor(a, b)
    if op == "==":
        return a == b
    if op == "!=":
        return a != b
    if op == "<":
        return a < b
    if op == ">":
        return a > b
    if op == "<=":
        return a <= b
    if op == ">=":
        return a >= b
    raise ValueError(op)


TYPE_SIZES = {"int8_t": 1, "uint8_t": 1, "char": 1, "bool": 1, "int16_t": 2, "uint16_t": 2, "int32_t": 4, "uint32_t": 4, "int64_t": 8,
              "uint64_t": 8, "intmax_t": 8, "uintmax_t": 8, "float": 4, "double": 8, "int": 4, "unsigned": 4, "unsigned int": 4, "long": 8,
              "short": 2, "unsigned char": 1, "signed char": 1, "unsigned short": 2, "unsigned long": 8, "long long": 8, "unsigned long long": 8, "size_t": 8}
UNSIGNED_MAX = {"uint8_t": 255, "uint16_t": 65535, "uint32_t": 2**32 - 1, "uintmax_t": 2**64 - 1, "uint64_t": 2**64 - 1}
