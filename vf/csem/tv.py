"""Deductive verification of the emitted C against the compiled DFA (translation validation per program).

For one compiled program + option set this generates proof obligations in families:
  refine (C06/C12/C14/C15), coherence (C02), memsafe (C03), protocol (C10), end (C17), wellformed (C11)
and discharges them with z3.  The C text comes from the real CodegenCtx of /repo's working tree."""
import time, re
import z3
from . import cparse, cexec, ops
from .cparse import OutsideSubset
from .. import amach

I = z3.IntSort()


class Compiled:
    pass


class InternalCompilerError(Exception):
    """the compiler died with something that is not an NMFUError (a C18 matter, not a verdict of the csem properties)"""


class SourceSyntaxError(InternalCompilerError):
    """the source is not derivable from the grammar (Lark rejects it)"""


def compile_program(nmfu, src, flags, name="p", path="p.nmfu"):
    """real front end + middle end + code generator. raises NMFUError subclasses for rejected programs."""
    PD = nmfu.ProgramData
    PD.load_commandline_flags(list(flags) + [path])
    PD.load_source(src)
    try:
        tree = nmfu.parser.parse(src, start="start")
    except Exception as e:
        import lark
        if isinstance(e, lark.LarkError):
            # not derivable from the grammar: the driver reports a syntax error (outside every property's quantifier)
            raise SourceSyntaxError(str(e)[:200]) from None
        raise
    try:
        pctx = nmfu.ParseCtx(tree)
        pctx.parse()
        dctx = nmfu.DfaCompileCtx(pctx)
        dctx.compile()
        cctx = nmfu.CodegenCtx(dctx, name)
        header = cctx.generate_header()
        source = cctx.generate_source()
    except nmfu.NMFUError:
        raise
    except TimeoutError:
        raise
    except RecursionError as e:
        raise InternalCompilerError("RecursionError") from None
    except Exception as e:
        raise InternalCompilerError(f"{type(e).__name__}: {e}") from e
    c = Compiled()
    c.nmfu, c.src, c.flags, c.name = nmfu, src, list(flags), name
    c.pctx, c.dctx, c.cctx = pctx, dctx, cctx
    c.header = header
    c.source = source
    c.flagmap = {f.name: bool(v) for f, v in PD._flags.items()}
    c.options = {o.name: v for o, v in PD._options.items()}
    return c


class Result:
    __slots__ = ("family", "oid", "verdict", "what", "witness", "secs", "line")

    def __init__(self, family, oid, verdict, what="", witness=None, secs=0.0, line=0):
        self.family, self.oid, self.verdict, self.what, self.witness, self.secs, self.line = family, oid, verdict, what, witness, secs, line


class TV:
    def __init__(self, comp, timeout_ms=20000):
        self.c = comp
        self.nmfu = comp.nmfu
        self.results = []
        self.timeout = timeout_ms
        self.solver_secs = 0.0
        self.nchecks = 0
        self.U = comp.name.upper()
        self.hinfo = cparse.parse_header(comp.header)
        self.tu = cparse.parse_source(comp.source)
        self.L = cexec.Layout(self.hinfo, comp.name)
        self.indirect = comp.flagmap["INDIRECT_START_PTR"]
        cc = comp.cctx
        self.spec = amach.Spec(self.nmfu, cc.dfa, cc.state_object_spec, comp.name, comp.flagmap, cc.generic_fail_state, cc.start_actions)
        self.nstates = len(cc.dfa.states)
        self.In = z3.Array("In", I, I)
        self.edges = []   # non-consuming moves for C04: (from, to, byteclass, pc, kind)
        self.stats = {"blocks": 0, "paths": 0, "pairs": 0}

    # ---------- solver ----------
    def check(self, conds):
        s = z3.Solver()
        s.set("timeout", self.timeout)
        for c in conds:
            s.add(c)
        t = time.time()
        r = s.check()
        self.solver_secs += time.time() - t
        self.nchecks += 1
        if r == z3.sat:
            self._model = s.model()
            return "sat"
        if r == z3.unsat:
            return "unsat"
        return "unknown"

    def prove(self, family, oid, hyps, goal, what, line=0, witness_fn=None):
        if isinstance(goal, bool):
            goal = z3.BoolVal(goal)
        g = z3.simplify(goal)
        if z3.is_true(g):
            self.results.append(Result(family, oid, "proved", what, None, 0.0, line))
            return True
        t = time.time()
        r = self.check(list(hyps) + [z3.Not(g)])
        secs = time.time() - t
        if z3.is_false(g) and r == "sat":
            # a structural fact about the emitted text on a feasible path (not a solver-found data corner case)
            self.results.append(Result(family, oid, "refuted", what, {}, 0.0, line))
            return False
        if r == "unsat":
            self.results.append(Result(family, oid, "proved", what, None, secs, line))
            return True
        if r == "sat":
            m = self._model
            wit = witness_fn(m) if witness_fn else self.default_witness(m)
            self.results.append(Result(family, oid, "refuted", what, wit, secs, line))
            return False
        self.results.append(Result(family, oid, "unknown", what, None, secs, line))
        return False

    def fail(self, family, oid, what, line=0, witness=None):
        self.results.append(Result(family, oid, "refuted", what, witness or {}, 0.0, line))

    def default_witness(self, m):
        w = {}
        try:
            for k, v in self.sigma0.items():
                if k[0] in ("c", "m"):
                    w[f"{k[0]}.{k[1]}"] = str(m.eval(v, model_completion=True))
            w["inval"] = str(m.eval(self.inval0, model_completion=True))
        except Exception:
            pass
        return w

    # ---------- symbolic pre-state ----------
    def fresh_state(self, tag=""):
        """symbolic struct contents + invariant Inv"""
        T = self.nmfu.OutputStorageType
        vals = {}
        inv = []
        for o in self.c.cctx.state_object_spec:
            if o.type in (T.STR, T.RAW):
                cnt = z3.Int(f"{o.name}_counter{tag}")
                vals[("m", o.name + "_counter")] = cnt
                vals[("buf", o.name)] = z3.Array(f"{o.name}_buf{tag}", I, I)
                cap_eff = self.spec.capacity(o)
                inv += [cnt >= 0, cnt <= cap_eff]
                info = self.L.c.get(o.name)
                if o.type == T.STR:
                    if info is None or info["kind"] != "buf":
                        raise OutsideSubset(f"string {o.name} not declared as buffer in header")
                    tagv = z3.Int(f"{o.name}_tag{tag}")
                    vals[("tag", o.name)] = tagv
                    if info["heap"]:
                        capv = z3.Int(f"{o.name}_cap{tag}")
                        vals[("cap", o.name)] = capv
                        ondemand = self.c.flagmap["ALLOCATE_STR_SPACE_DYNAMIC_ON_DEMAND"] and (o.default_value is None or self.c.flagmap["DELETE_STRING_FREE_MEMORY"])
                        if ondemand:
                            inv += [z3.Or(tagv == cexec.NULLTAG, tagv == cexec.VALID), z3.Implies(tagv == cexec.NULLTAG, cnt == 0)]
                        else:
                            inv += [tagv == cexec.VALID]
                        inv += [z3.Implies(tagv == cexec.VALID, capv == o.str_size)]
                    else:
                        vals[("cap", o.name)] = z3.IntVal(info["size"])
                        inv += [tagv == cexec.VALID]
                    if o.str_null:
                        inv += [z3.Implies(tagv == cexec.VALID, z3.Select(vals[("buf", o.name)], cnt) == 0)]
                else:
                    vals[("tag", o.name)] = z3.IntVal(cexec.VALID)
                    vals[("cap", o.name)] = z3.IntVal(cap_eff)
            else:
                vals[("c", o.name)] = z3.Int(f"c_{o.name}{tag}")
        vals[("m", "state")] = z3.Int(f"state{tag}")
        # counters declared?
        return vals, inv

    def inv_of(self, vals):
        """Inv evaluated on an arbitrary state dict (same shape as fresh_state)"""
        T = self.nmfu.OutputStorageType
        inv = []
        for o in self.c.cctx.state_object_spec:
            if o.type in (T.STR, T.RAW):
                cnt = vals[("m", o.name + "_counter")]
                cap_eff = self.spec.capacity(o)
                inv.append((f"{o.name}: 0 <= counter <= capacity {cap_eff}", z3.And(cnt >= 0, cnt <= cap_eff)))
                if o.type == T.STR:
                    tagv = vals[("tag", o.name)]
                    info = self.L.c[o.name]
                    if info["heap"]:
                        ondemand = self.c.flagmap["ALLOCATE_STR_SPACE_DYNAMIC_ON_DEMAND"] and (o.default_value is None or self.c.flagmap["DELETE_STRING_FREE_MEMORY"])
                        if ondemand:
                            inv.append((f"{o.name}: pointer is NULL or a live allocation (never dangling)", z3.Or(tagv == cexec.NULLTAG, tagv == cexec.VALID)))
                            inv.append((f"{o.name}: NULL implies length 0", z3.Implies(tagv == cexec.NULLTAG, cnt == 0)))
                        else:
                            inv.append((f"{o.name}: pointer is a live allocation", tagv == cexec.VALID))
                        inv.append((f"{o.name}: allocation has the declared size {o.str_size}", z3.Implies(tagv == cexec.VALID, vals[("cap", o.name)] == o.str_size)))
                    if o.str_null:
                        inv.append((f"{o.name}: NUL terminator at index counter", z3.Implies(tagv == cexec.VALID, z3.Select(vals[("buf", o.name)], cnt) == 0)))
        return inv

    def abstract_keys(self):
        T = self.nmfu.OutputStorageType
        keys = [("m", "state")]
        for o in self.c.cctx.state_object_spec:
            if o.type in (T.STR, T.RAW):
                keys.append(("m", o.name + "_counter"))
                keys.append(("buf", o.name))
            else:
                keys.append(("c", o.name))
        return keys

    # ---------- structure ----------
    def check_declarations(self):
        T = self.nmfu.OutputStorageType
        declared = {}
        for o in self.c.cctx.state_object_spec:
            info = self.L.c.get(o.name)
            if info is None:
                self.fail("wellformed", f"decl/{o.name}", f"output {o.name} is not declared in the state struct")
                continue
            if o.type == T.STR:
                ct = self.spec.char_type()
                ok = info["kind"] == "buf" and info["ctype"] == ct
                dyn = self.c.flagmap["ALLOCATE_STR_SPACE_DYNAMIC"]
                ok = ok and (info["heap"] == dyn) and (dyn or info["size"] == o.str_size)
                if ok:
                    self.results.append(Result("refine", f"decl/{o.name}.type", "proved", "declared type matches the specification"))
                else:
                    self.fail("refine", f"decl/{o.name}.type", f"string {o.name} declared as {info} but the specification wants {ct}[{o.str_size}] (dynamic={dyn})")
            else:
                try:
                    exp = self.spec.expected_ctypes(o)
                except amach.SpecError as e:
                    self.fail("refine", f"decl/{o.name}.type", str(e))
                    continue
                if info["kind"] == "scalar" and info["ctype"] in exp:
                    self.results.append(Result("refine", f"decl/{o.name}.type", "proved", "declared type matches the specification"))
                    declared[o.name] = info["ctype"]
                else:
                    self.fail("refine", f"decl/{o.name}.type", f"{o.name} declared as {info.get('ctype')} but the declared width/sign/kind requires one of {sorted(exp)}")
                    declared[o.name] = info.get("ctype", "?")
            if o.type in (T.STR, T.RAW):
                cn = o.name + "_counter"
                cty = self.L.members.get(cn)
                cap = self.spec.capacity(o)
                if cty is None:
                    self.fail("wellformed", f"decl/{cn}", f"counter {cn} not declared")
                elif cty not in ops.UNSIGNED_MAX or ops.UNSIGNED_MAX[cty] < cap:
                    self.fail("memsafe", f"decl/{cn}.width", f"counter type {cty} cannot hold the capacity {cap} of {o.name}")
                else:
                    self.results.append(Result("memsafe", f"decl/{cn}.width", "proved", "counter type holds the capacity"))
        sty = self.L.members.get("state")
        if sty not in ops.UNSIGNED_MAX or ops.UNSIGNED_MAX[sty] < self.nstates - 1:
            self.fail("memsafe", "decl/state.width", f"state member type {sty} cannot hold {self.nstates} states")
        else:
            self.results.append(Result("memsafe", "decl/state.width", "proved", "state type holds all state indices"))
        # label/state coherence (C02, C10, C04, C17) also rests on it: a truncated store would dispatch the next call to another case
        if sty not in ops.UNSIGNED_MAX or ops.UNSIGNED_MAX[sty] < self.nstates - 1:
            self.fail("coherence", "decl/state.holds-every-index", f"state member type {sty} cannot hold {self.nstates} state indices: a stored index would be truncated and the next call would dispatch elsewhere")
        else:
            self.results.append(Result("coherence", "decl/state.holds-every-index", "proved", "state type holds all state indices"))
        self.spec.declared = declared

    def split_switch(self, fname):
        """-> (prologue stmts, {idx: [stmts]}, default stmts, labels per block)"""
        f = self.tu["funcs"].get(fname)
        if f is None:
            return None
        body = f["body"]
        sw = [s for s in body if s[0] == "switch"]
        if len(sw) != 1:
            raise OutsideSubset(f"{fname}: expected exactly one switch")
        sw = sw[0]
        pro = body[:body.index(sw)]
        post = body[body.index(sw) + 1:]
        blocks = {}
        cur = None
        default = None
        for s in sw[2]:
            if s[0] == "case":
                cur = s[1]
                if cur in blocks:
                    raise OutsideSubset("duplicate case label")
                blocks[cur] = []
            elif s[0] == "default":
                cur = "default"
                default = []
            else:
                if cur is None:
                    raise OutsideSubset("statement before first case")
                (default if cur == "default" else blocks[cur]).append(s)
        return {"pro": pro, "switch_expr": sw[1], "blocks": blocks, "default": default, "post": post, "params": f["params"], "ret": f["ret"]}

    # ---------- executors ----------
    def make_exec_factory(self, vals, pc0, inval, start, end, func):
        def mk():
            ex = cexec.Exec(self.L, self.check, self.indirect, self.In, func)
            st = cexec.CState()
            st.vals = dict(vals)
            st.inval = inval
            st.start = start
            st.end = end
            ex.st = st
            ex.pc = list(pc0)
            if func.endswith("_end"):
                ex.macros["inval"] = 255
            return ex
        return mk

    def head_labels(self, stmts):
        labs = []
        i = 0
        while i < len(stmts) and stmts[i][0] == "label":
            labs.append(stmts[i][1])
            i += 1
        return labs, i

    def byte_classes(self, state):
        """partition 0..255 by the transition the specification selects"""
        classes = {}
        for b in range(256):
            t = self.spec.lookup(state, chr(b))
            classes.setdefault(id(t) if t is not None else None, [t, []])[1].append(b)
        return list(classes.values())

    @staticmethod
    def in_class(v, bs):
        runs = []
        s = bs[0]
        p = bs[0]
        for b in bs[1:]:
            if b == p + 1:
                p = b
                continue
            runs.append((s, p))
            s = p = b
        runs.append((s, p))
        return z3.Or(*[z3.And(v >= a, v <= b) if a != b else v == a for a, b in runs])

    # ---------- main entry ----------
    def run(self):
        self.check_declarations()
        self.verify_feed()
        if self.c.flagmap["EOF_SUPPORT"]:
            self.verify_end()
        elif (self.c.name + "_end") in self.tu["funcs"]:
            self.fail("wellformed", "api/end-without-eof", "end() defined although EOF support is off")
        self.verify_start()
        self.verify_free()
        self.verify_termination()
        return self.results

    # ---------- feed ----------
    def verify_feed(self):
        fname = self.c.name + "_feed"
        sp = self.split_switch(fname)
        if sp is None:
            self.fail("wellformed", "api/feed", "feed() is not defined")
            return
        self.feed_sp = sp
        U = self.U
        # prologue structure: [if (start == end) return OK;] uint8_t inval = *start; repeatswitch: switch (state->state)
        pro = [s for s in sp["pro"]]
        has_end_check = False
        ok = True
        if pro and pro[0][0] == "if":
            s = pro.pop(0)
            has_end_check = True
        labels = [x[1] for x in pro if x[0] == "label"]
        if not (pro and pro[-1][0] == "label" and pro[-1][1] == "repeatswitch" and labels == ["repeatswitch"] and any(x[0] == "decl" and x[2] == "inval" for x in pro)):
            # (what the prologue computes is checked semantically below; here only: re-dispatch enters directly at the switch)
            self.fail("coherence", "feed/prologue", "feed prologue does not end with the single label `repeatswitch:` directly in front of the switch (after declaring inval)")
            ok = False
        if sp["switch_expr"] != ("member", ("id", "state"), "state", True):
            self.fail("coherence", "feed/dispatch-on-state", "the switch does not dispatch on state->state")
        else:
            self.results.append(Result("coherence", "feed/dispatch-on-state", "proved", "switch dispatches on state->state"))
        self.has_end_check = has_end_check
        # symbolic prologue run: inval == In[start]
        vals, inv = self.fresh_state()
        self.sigma0 = vals
        start0, end0 = z3.Int("start0"), z3.Int("end0")
        pre = inv + [start0 >= 0]
        # May feed be entered with an empty chunk?  Decided from the machine and the options, not from the emitted text: the documented
        # protocol re-invokes feed with the pointer left as-is after a yield code, and a yield on a consuming transition returns after the
        # advance, i.e. possibly with start == end.
        n_ = self.nmfu
        def _yields(a):
            return isinstance(a, n_.CustomYieldAction) or any(isinstance(x, n_.CustomYieldAction) for x in a.all_subactions())
        self.empty_chunk_possible = bool(self.c.flagmap.get("ZERO_LEN_INPUT_SUPPORT")) or any(
            (not t.is_fallthrough) and any(_yields(a) for a in t.actions) for st_ in self.c.cctx.dfa.states for t in st_.transitions)
        pre += [start0 <= end0] if (has_end_check or self.empty_chunk_possible) else [start0 < end0]
        mk = self.make_exec_factory(vals, pre, None, start0, end0, fname)
        paths = cexec.explore_block(mk, sp["pro"])
        for p in paths:
            self.collect_obs(p, "feed/prologue")
            if p["term"][0] == "return":
                self.prove("protocol", "feed/prologue.return-OK-at-end", p["pc"], z3.And(p["term"][1] == U + "_OK", start0 == end0) if False else z3.BoolVal(p["term"][1] == U + "_OK"), "prologue returns something other than OK", p["term"][2])
                self.prove("protocol", "feed/prologue.return-only-if-empty", p["pc"], start0 == end0, "prologue returns although the chunk is not empty", p["term"][2])
            elif p["term"][0] == "falloff":
                self.prove("coherence", "feed/prologue.inval-is-current-byte", p["pc"], z3.And(p["state"].inval == z3.Select(self.In, start0), start0 < end0),
                           "inval is not initialised to the byte at the start pointer (or the chunk may be empty)")
        # default: must return FAIL
        if sp["default"] is not None:
            d = sp["default"]
            if not (len(d) == 1 and d[0][0] == "return" and d[0][1] == ("id", U + "_FAIL")):
                self.fail("protocol", "feed/default", "default: does not return FAIL")
        # per state
        T = self.nmfu
        states = self.c.cctx.dfa.states
        if set(sp["blocks"].keys()) != set(range(len(states))):
            self.fail("refine", "feed/cases", f"case labels {sorted(sp['blocks'])[:5]}.. do not cover exactly the {len(states)} states")
            return
        self.absorbing = self.compute_absorbing()
        inval0 = z3.Int("inval0")
        self.inval0 = inval0
        for i, state in enumerate(states):
            self.verify_feed_block(i, state, sp["blocks"][i], inval0, start0, end0)

    def compute_absorbing(self):
        """states whose feed (and end) block is exactly `return FAIL;`"""
        U = self.U
        A = set()
        fb = self.feed_sp["blocks"]
        esp = None
        if (self.c.name + "_end") in self.tu["funcs"]:
            esp = self.split_switch(self.c.name + "_end")
            self.end_sp = esp
        for i, b in fb.items():
            labs, k = self.head_labels(b)
            rest = b[k:]
            if len(rest) == 1 and rest[0][0] == "return" and rest[0][1] == ("id", U + "_FAIL"):
                if esp is not None:
                    eb = esp["blocks"].get(i, [])
                    l2, k2 = self.head_labels(eb)
                    r2 = eb[k2:]
                    if not (len(r2) == 1 and r2[0][0] == "return" and r2[0][1] == ("id", U + "_FAIL")):
                        continue
                A.add(i)
        return A

    def collect_obs(self, p, where):
        fam = {"input-read-in-bounds": "memsafe", "deref-valid": "memsafe", "index-in-bounds": "memsafe", "memcpy-fits-dest": "memsafe",
               "memcpy-fits-src": "memsafe", "free-valid": "memsafe", "no-leak": "memsafe", "fits-type": "memsafe", "unsequenced": "memsafe", "decl": "wellformed",
               "literal-escape-in-range": "refine"}
        for ob in p["obs"]:
            self.prove(fam.get(ob.kind, "memsafe"), f"{where}/L{ob.line}.{ob.kind}", ob.cond, ob.goal, ob.text, ob.line)

    def verify_feed_block(self, i, state, block, inval0, start0, end0):
        self.stats["blocks"] += 1
        nm = self.nmfu
        U = self.U
        labs, k = self.head_labels(block)
        for l in labs:
            if l not in (f"fall_{i}", f"jpto_{i}"):
                self.fail("coherence", f"feed/case{i}.label", f"label {l} placed in the block of state {i}")
        body = block[k:]
        vals = dict(self.sigma0)
        vals[("m", "state")] = z3.IntVal(i)
        _, inv = self.fresh_state()
        base = inv + [start0 >= 0, start0 < end0, inval0 >= 0, inval0 <= 255, inval0 == z3.Select(self.In, start0)]
        if state is self.spec.fail_state:
            # fail state: FAIL, no effect
            mk = self.make_exec_factory(vals, base, inval0, start0, end0, "feed")
            for p in cexec.explore_block(mk, body):
                self.collect_obs(p, f"feed/case{i}")
                okr = p["term"][0] == "return" and p["term"][1] == U + "_FAIL" and p["consumed"] == 0
                if not okr:
                    self.fail("refine", f"feed/case{i}.fail-state", "generic fail state does not return FAIL without consuming")
                else:
                    self.compare_store(f"feed/case{i}.fail-state", p["pc"], p["state"].vals, vals, "refine")
            return
        if isinstance(state, nm.DFConditionPoint):
            groups = [(None, list(range(256)))]
        else:
            groups = self.byte_classes(state)
        for t, bs in groups:
            cls = self.in_class(inval0, bs)
            pc0 = base + [cls]
            mk = self.make_exec_factory(vals, pc0, inval0, start0, end0, "feed")
            try:
                paths = cexec.explore_block(mk, body)
            except cexec.Goto:
                raise
            self.stats["paths"] += len(paths)
            # expected outcomes
            tag = f"feed/case{i}.b{bs[0]}"
            try:
                exp = self.expected_feed(state, t, vals, inval0)
            except amach.SpecError as e:
                self.fail("refine", f"feed/case{i}.spec", str(e))
                if "capacity" in str(e):
                    # a constant that does not fit must be a compile-time error (C03)
                    self.fail("memsafe", f"feed/case{i}.constant-fits", str(e))
                for p in paths:
                    self.collect_obs(p, tag)
                continue
            for p in paths:
                self.collect_obs(p, tag)
                self.check_path(tag, i, p, exp, vals, inval0, start0, end0, bs, "feed")

    def expected_feed(self, state, t, vals, inval0):
        nm = self.nmfu
        if isinstance(state, nm.DFConditionPoint):
            outs = []
            neg = []
            for ct in state.transitions:
                cv = self.spec.cond(ct.condition, vals, inval0, "feed")
                for o in self.spec.transition_outcomes(ct, vals, inval0, "feed"):
                    o = dict(o)
                    o["conds"] = neg + [cv] + o["conds"]
                    outs.append(o)
                neg = neg + [z3.Not(cv)]
            outs.append({"conds": neg, "st": vals, "trace": [], "term": ("return", "FAIL"), "advance_before_return": False})
            return outs
        if t is None:
            code = "DONE" if self.spec.is_accepting(state) else "OK"
            return [{"conds": [], "st": vals, "trace": [], "term": ("stuck", code), "advance_before_return": False}]
        return self.spec.transition_outcomes(t, vals, inval0, "feed")

    def compare_store(self, tag, hyps, cvals, avals, family, fresh=()):
        ok = True
        for key in self.abstract_keys():
            a = avals[key]
            cv = cvals.get(key)
            if cv is None:
                self.fail(family, f"{tag}.store.{key[1]}", f"C state has no location for {key}")
                ok = False
                continue
            if key[0] == "buf" and key[1] in fresh:
                # buffer freshly allocated on this path: bytes beyond the string are indeterminate; compare content (+ terminator)
                o = self.spec.outputs[key[1]]
                n = avals[("m", key[1] + "_counter")]
                k = z3.Int("k!")
                rng = [k >= 0, k <= n] if o.str_null else [k >= 0, k < n]
                ok &= self.prove(family, f"{tag}.store.buf.{key[1]}", list(hyps) + rng, z3.Select(cv, k) == z3.Select(a, k),
                                 f"after the step, the content of {key[1]} differs from what the state machine prescribes")
                continue
            ok &= self.prove(family, f"{tag}.store.{key[0]}.{key[1]}", hyps, cv == a,
                             f"after the step, {key[0]}:{key[1]} differs from what the state machine prescribes")
        return ok

    def check_path(self, tag, i, p, exp, vals0, inval0, start0, end0, bs, ctx):
        U = self.U
        term = p["term"]
        matched = 0
        cst = p["state"]
        for ei, a in enumerate(exp):
            hyp = p["pc"] + a["conds"]
            if self.check(hyp) == "unsat":
                continue
            matched += 1
            self.stats["pairs"] += 1
            t2 = f"{tag}.p{ei}"
            line = term[-1] if term[0] in ("return", "goto") else 0
            # --- effects
            fresh = set(ev[1] for ev in p["events"] if ev[0] == "malloc")
            self.compare_store(t2, hyp, cst.vals, a["st"], "refine" if ctx != "end" else "endfx", fresh)
            fam = "refine" if ctx != "end" else "endfx"
            if len(cst.trace) != len(a["trace"]):
                self.fail(fam, f"{t2}.hooks", f"C performs {len(cst.trace)} hook calls, the machine prescribes {len(a['trace'])}", line, self.witness_from(hyp))
            else:
                for hi, (hc, ha) in enumerate(zip(cst.trace, a["trace"])):
                    if hc[1] != ha[1]:
                        self.fail(fam, f"{t2}.hook{hi}.name", f"hook {hc[1]} called where {ha[1]} is prescribed", line, self.witness_from(hyp))
                        continue
                    self.prove(fam, f"{t2}.hook{hi}.arg", hyp, hc[2] == ha[2], f"hook {ha[1]} called with a different argument", line)
                    self.compare_store(f"{t2}.hook{hi}.visible", hyp, hc[3], ha[3], fam, fresh)
                    want_style = "global" if self.c.flagmap["HOOK_GLOBAL"] else "member"
                    if hc[4] != want_style:
                        self.fail("wellformed", f"{t2}.hook{hi}.style", f"hook called as {hc[4]} but options select {want_style}")
            # --- terminal
            at = a["term"]
            consumed = p["consumed"]
            if at[0] == "return":
                code = at[1]
                want_adv = 1 if a.get("advance_before_return") else 0
                rfam = "end" if ctx == "end" else fam
                if term[0] != "return" or term[1] != f"{U}_{code}":
                    self.fail(rfam, f"{t2}.result", f"C ends with {term[:2]} where the machine prescribes return {code}", line, self.witness_from(hyp))
                else:
                    self.results.append(Result(rfam, f"{t2}.result", "proved", f"returns {code}"))
                    pfam = "coherence" if code.startswith("YIELD") else "protocol"
                    if consumed != want_adv:
                        self.fail(pfam, f"{t2}.pointer-at-{code}", f"start pointer advanced {consumed} time(s) before return {code}; the protocol requires {want_adv}", line, self.witness_from(hyp))
                    else:
                        self.results.append(Result(pfam, f"{t2}.pointer-at-{code}", "proved", "pointer position at return"))
                    if code == "FAIL" and ctx == "feed":
                        self.fail_absorbing(t2, hyp, cst, line)
            elif at[0] == "stuck":
                # no transition for this byte: accepting -> DONE (pointer stays); otherwise OK would be returned without consuming
                if term[0] != "return" or term[1] != f"{U}_{at[1]}" or consumed != 0:
                    self.fail(fam, f"{t2}.result", f"C ends with {term[:2]} where no transition applies (expected return {at[1]} without consuming)", line)
                elif at[1] == "OK":
                    st_obj = self.c.cctx.dfa.states[i]
                    lost = ".condlost" if st_obj.transitions and all(len(t.on_values) == 0 for t in st_obj.transitions) else ""
                    self.fail("protocol", f"{t2}.ok-without-consuming{lost}", f"state {i} has no transition for byte {bs[0]} and is not accepting: feed returns OK without consuming the chunk", line,
                              {"state": i, "byte": bs[0]})
                else:
                    self.results.append(Result(fam, f"{t2}.result", "proved", "accepting state without applicable transition returns DONE"))
            elif at[0] == "redispatch":
                self.check_continue(t2, i, p, hyp, consumed_expected=0, inval0=inval0, start0=start0, end0=end0, bs=bs, fam=fam, ctx=ctx)
            elif at[0] == "consume":
                if term[0] == "return":
                    if term[1] != f"{U}_OK":
                        self.fail(fam, f"{t2}.result", f"C returns {term[1]} after a consuming transition (OK at chunk end or continue expected)", line, self.witness_from(hyp))
                    else:
                        if consumed != 1:
                            self.fail("chunk", f"{t2}.consume-count", f"consuming transition advanced the pointer {consumed} times", line)
                        self.prove("chunk", f"{t2}.ok-only-at-chunk-end", hyp, cst.start == end0, "feed returns OK although bytes of the chunk remain", line)
                else:
                    self.check_continue(t2, i, p, hyp, consumed_expected=1, inval0=inval0, start0=start0, end0=end0, bs=bs, fam=fam, ctx=ctx)
            elif at[0] == "end-verdict":
                tgt = z3.simplify(a["st"][("m", "state")])
                acc = z3.is_int_value(tgt) and self.spec.is_accepting(self.c.cctx.dfa.states[tgt.as_long()])
                if (not acc and z3.is_int_value(tgt) and not a.get("overridden") and self.passes_through(self.c.cctx.dfa.states[tgt.as_long()])
                        and not self.end_consumable_again(self.c.cctx.dfa.states[tgt.as_long()])):
                    # end-of-input has been consumed; states that never look at the input (conditions, pure fall-throughs) still have to run
                    self.check_continue(t2, i, p, hyp, consumed_expected=0, inval0=inval0, start0=start0, end0=end0, bs=bs, fam="end", ctx=ctx)
                    continue
                want = "DONE" if acc else "FAIL"
                if term[0] == "goto" and ctx == "end":
                    # the C text goes on where a verdict was due: whatever the `end` family says about that, the move is part of what
                    # end() really does and belongs to the graph whose acyclicity C04 needs
                    tv_ = z3.simplify(cst.vals[("m", "state")]) if ("m", "state") in cst.vals else tgt
                    self.end_edges.append((i, tv_.as_long() if z3.is_int_value(tv_) else None))
                if term[0] != "return" or term[1] != f"{U}_{want}":
                    ov = ".override" if a.get("overridden") else ""
                    self.fail("end", f"{t2}.result{ov}", f"end() returns {term[1] if term[0]=='return' else term} after the end-of-input transition into {'an accepting' if acc else 'a non-accepting'} state; {want} expected", line,
                              {"state": i, "target": str(tgt)})
                else:
                    self.results.append(Result("end", f"{t2}.result", "proved", f"end returns {want}"))
            elif at[0] == "unspecified":
                pass
        if matched == 0:
            self.fail("refine", f"{tag}.unmatched", f"a C path is feasible that corresponds to no outcome of the state machine (terminal {term[:2]})", 0, self.witness_from(p["pc"]))
        # invariant preservation on every path that keeps the parser alive
        for (txt, g) in self.inv_of(cst.vals):
            self.prove("memsafe", f"{tag}.inv.{txt.split(':')[0]}.{abs(hash(txt))%1000}", p["pc"], g, f"invariant broken: {txt}", term[-1] if term[0] in ("return", "goto") else 0)

    def passes_through(self, state):
        """a state whose behaviour does not depend on the current symbol: a condition point, or one whose transitions (Else included) all
        fall through to the same state performing the same actions"""
        n = self.nmfu
        if isinstance(state, n.DFConditionPoint):
            return True
        ts = list(state.transitions)
        same = lambda a, b: len(a) == len(b) and all(x is y for x, y in zip(a, b))
        return bool(ts) and all(t.is_fallthrough and t.target is ts[0].target and same(t.actions, ts[0].actions) for t in ts) and any(v is n.DFTransition.Else for t in ts for v in t.on_values)

    def end_consumable_again(self, state):
        """following only non-consuming moves from `state`, can end-of-input meet a transition that consumes it?  (then the parse cannot be
        completed by this end-of-input: going on would let one end-of-input be matched twice, or for ever)"""
        n = self.nmfu
        End = n.DFTransition.End
        seen, work = set(), [state]
        states = set(id(x) for x in self.c.cctx.dfa.states)
        while work:
            q = work.pop()
            if q is None or id(q) in seen or id(q) not in states:
                continue
            seen.add(id(q))
            if isinstance(q, n.DFConditionPoint):
                ts = list(q.transitions)
            else:
                t = self.spec.lookup(q, End)
                if t is None:
                    continue
                if not t.is_fallthrough:
                    return True
                ts = [t]
            for t in ts:
                work.append(t.target)
                for a in t.actions:
                    work.extend(a.get_target_override_targets())
        return False

    def witness_from(self, hyp):
        if self.check(hyp) == "sat":
            return self.default_witness(self._model)
        return {}

    def fail_absorbing(self, tag, hyp, cst, line):
        st = cst.vals[("m", "state")]
        A = sorted(self.absorbing)
        self.prove("protocol", f"{tag}.fail-absorbing", hyp, z3.Or(*[st == a for a in A]) if A else z3.BoolVal(False),
                   "FAIL is returned but the stored state is not one from which every later feed/end call returns FAIL", line)

    def check_continue(self, tag, i, p, hyp, consumed_expected, inval0, start0, end0, bs, fam, ctx):
        term = p["term"]
        cst = p["state"]
        line = term[-1] if term[0] in ("goto", "return") else 0
        if term[0] != "goto":
            self.fail(fam, f"{tag}.result", f"C ends with {term[:2]} where the machine continues with the {'next' if consumed_expected else 'same'} byte", line, self.witness_from(hyp))
            return
        label = term[1]
        st = cst.vals[("m", "state")]
        if label == "repeatswitch":
            if ctx == "end" and not self.end_has_repeatswitch:
                self.fail("wellformed", f"{tag}.goto-undefined-label", "goto repeatswitch emitted inside end(), which has no such label", line)
                return
            tgt = z3.simplify(st)
        else:
            m = re.fullmatch(r"(jpto|fall)_(\d+)", label)
            if not m:
                self.fail("coherence", f"{tag}.goto", f"goto {label}: not a dispatch label", line)
                return
            n = int(m.group(2))
            sp = self.feed_sp if ctx == "feed" else self.end_sp
            blk = sp["blocks"].get(n)
            if blk is None or label not in self.head_labels(blk)[0]:
                self.fail("wellformed", f"{tag}.goto-undefined-label", f"goto {label}: label not defined at the head of case {n}", line)
                return
            self.prove("coherence", f"{tag}.label-state-coherence", hyp, st == n,
                       f"goto {label} taken while state->state != {n}: resuming through the switch on a later call would continue elsewhere", line)
            if m.group(1) == "jpto" and consumed_expected == 0:
                self.fail("coherence", f"{tag}.jpto-without-consume", "jpto label used by a non-consuming move", line)
            tgt = z3.IntVal(n)
        if p["consumed"] != consumed_expected:
            # (family `consume`: C06 refinement, and what C02/C03/C10 rest on - no byte lost, read twice, or read beyond the chunk)
            self.fail("consume" if ctx == "feed" else fam, f"{tag}.consumption", f"C advances the pointer {p['consumed']} time(s); the machine consumes {consumed_expected}", line, self.witness_from(hyp))
            return
        if ctx == "feed":
            self.results.append(Result("consume", f"{tag}.consumption", "proved", "pointer advanced exactly as often as the machine consumes"))
        if ctx == "feed":
            # dispatch precondition for the next block
            self.prove("coherence", f"{tag}.dispatch-precondition", hyp, z3.And(cst.inval == z3.Select(self.In, cst.start), cst.start < end0, cst.start >= 0),
                       "control reaches a dispatch point with inval != *start or with start == end", line)
            if consumed_expected == 0:
                tv = z3.simplify(tgt)
                self.edges.append((i, tv.as_long() if z3.is_int_value(tv) else None, tuple(bs), list(hyp), dict(cst.vals)))
        else:
            if consumed_expected == 0:
                tv = z3.simplify(tgt)
                self.end_edges.append((i, tv.as_long() if z3.is_int_value(tv) else None))

    end_edges = []
    end_has_repeatswitch = False

    # ---------- end ----------
    def verify_end(self):
        fname = self.c.name + "_end"
        if fname not in self.tu["funcs"]:
            self.fail("wellformed", "api/end", "EOF support is on but end() is not defined")
            return
        sp = getattr(self, "end_sp", None) or self.split_switch(fname)
        self.end_sp = sp
        self.end_edges = []
        U = self.U
        states = self.c.cctx.dfa.states
        self.end_has_repeatswitch = any(s[0] == "label" and s[1] == "repeatswitch" for s in sp["pro"])
        pro_ok = all(s[0] == "pp" or (s[0] == "label" and s[1] == "repeatswitch") for s in sp["pro"])
        if not pro_ok or sp["switch_expr"] != ("member", ("id", "state"), "state", True):
            self.fail("end", "end/prologue", "end() prologue is not `#define inval 255; switch (state->state)`")
        if set(sp["blocks"].keys()) != set(range(len(states))):
            self.fail("end", "end/cases", "case labels of end() do not cover exactly the states")
            return
        End = self.nmfu.DFTransition.End
        inval_end = z3.IntVal(255)
        for i, state in enumerate(states):
            block = sp["blocks"][i]
            labs, k = self.head_labels(block)
            for l in labs:
                if l != f"fall_{i}":
                    self.fail("coherence", f"end/case{i}.label", f"label {l} in end() block of state {i}")
            body = block[k:]
            vals = dict(self.sigma0)
            vals[("m", "state")] = z3.IntVal(i)
            _, inv = self.fresh_state()
            mk = self.make_exec_factory(vals, inv, inval_end, z3.Int("start0"), z3.Int("end0"), fname)
            paths = cexec.explore_block(mk, body)
            tag = f"end/case{i}"
            try:
                if state is self.spec.fail_state:
                    exp = [{"conds": [], "st": vals, "trace": [], "term": ("return", "FAIL"), "advance_before_return": False}]
                elif isinstance(state, self.nmfu.DFConditionPoint):
                    exp = []
                    neg = []
                    for ct in state.transitions:
                        cv = self.spec.cond(ct.condition, vals, inval_end, "end")
                        for o in self.spec.transition_outcomes(ct, vals, inval_end, "end"):
                            o = dict(o)
                            o["conds"] = neg + [cv] + o["conds"]
                            exp.append(o)
                        neg = neg + [z3.Not(cv)]
                    exp.append({"conds": neg, "st": vals, "trace": [], "term": ("return", "FAIL"), "advance_before_return": False})
                else:
                    t = self.spec.lookup(state, End)
                    if t is not None and t.error_handling and self.spec.is_accepting(state):
                        # the input may stop in an accepting state: that is the end of the program, not a mismatch (C01/C10)
                        t = None
                    if t is None:
                        code = "DONE" if self.spec.is_accepting(state) else "FAIL"
                        exp = [{"conds": [], "st": vals, "trace": [], "term": ("return", code), "advance_before_return": False}]
                    else:
                        exp = self.spec.transition_outcomes(t, vals, inval_end, "end")
            except amach.SpecError as e:
                self.fail("end", f"{tag}.spec", str(e))
                continue
            for p in paths:
                self.collect_obs(p, tag)
                self.check_path(tag, i, p, exp, vals, inval_end, z3.Int("start0"), z3.Int("end0"), [255], "end")
                if p["term"][0] == "return" and p["term"][1] == U + "_FAIL":
                    st = p["state"].vals[("m", "state")]
                    A = sorted(self.absorbing)
                    self.prove("protocol", f"{tag}.fail-absorbing", p["pc"], z3.Or(*[st == a for a in A]) if A else z3.BoolVal(False),
                               "end() returns FAIL but leaves a state from which a later feed/end call does not return FAIL", p["term"][2],
                               witness_fn=lambda m, i=i: {"state": i})
        # end() must not loop: the graph of its non-consuming moves is acyclic
        g = {}
        for a, b in self.end_edges:
            g.setdefault(a, set()).add(b)
        cyc = find_cycle(g)
        if cyc:
            self.fail("term", "end/acyclic", f"end() can cycle through states {cyc} without ever returning", 0, {"cycle": cyc})
        else:
            self.results.append(Result("term", "end/acyclic", "proved", "non-consuming moves of end() form an acyclic graph"))

    # ---------- start ----------
    def verify_start(self):
        fname = self.c.name + "_start"
        f = self.tu["funcs"].get(fname)
        if f is None:
            self.fail("wellformed", "api/start", "start() is not defined")
            return
        T = self.nmfu.OutputStorageType
        U = self.U
        # garbage pre-state: nothing allocated
        vals = {}
        for o in self.c.cctx.state_object_spec:
            if o.type in (T.STR, T.RAW):
                vals[("m", o.name + "_counter")] = z3.Int(f"g_{o.name}_counter")
                vals[("buf", o.name)] = z3.Array(f"g_{o.name}_buf", I, I)
                info = self.L.c.get(o.name, {"heap": False, "size": 0, "kind": "scalar"})
                if o.type == T.STR and info.get("heap"):
                    vals[("tag", o.name)] = z3.IntVal(cexec.FREED + 1)   # wild pointer: neither NULL, valid nor freed
                    vals[("cap", o.name)] = z3.IntVal(0)
                else:
                    vals[("tag", o.name)] = z3.IntVal(cexec.VALID)
                    vals[("cap", o.name)] = z3.IntVal(info["size"] if o.type == T.STR else self.spec.capacity(o))
            else:
                vals[("c", o.name)] = z3.Int(f"g_c_{o.name}")
        vals[("m", "state")] = z3.Int("g_state")
        mk = self.make_exec_factory(vals, [], z3.IntVal(0), z3.Int("start0"), z3.Int("end0"), fname)
        paths = cexec.explore_block(mk, f["body"])
        # expected: defaults, counters, start state, then start actions
        try:
            exp_st = {}
            for o in self.c.cctx.state_object_spec:
                if o.type in (T.STR, T.RAW):
                    arr = vals[("buf", o.name)]
                    n = 0
                    if o.default_value is not None:
                        codes = [x if isinstance(x, int) else ord(x) for x in o.default_value]
                        if len(codes) > self.spec.capacity(o):
                            raise amach.SpecError(f"default value of {len(codes)} bytes for {o.name} (capacity {self.spec.capacity(o)}) was accepted")
                        n = len(codes)
                        for j, cpt in enumerate(codes):
                            arr = z3.Store(arr, j, z3.IntVal(cpt))
                        if o.str_null:
                            arr = z3.Store(arr, n, z3.IntVal(0))
                    elif o.type == T.STR and o.str_null and not self.spec.may_be_unallocated(o):
                        arr = z3.Store(arr, 0, z3.IntVal(0))
                    exp_st[("buf", o.name)] = arr
                    if o.type == T.STR:
                        exp_st[("tag", o.name)] = z3.IntVal(cexec.NULLTAG if (self.spec.may_be_unallocated(o) and o.default_value is None) else cexec.VALID)
                    exp_st[("m", o.name + "_counter")] = z3.IntVal(n)
                else:
                    if o.default_value is not None:
                        exp_st[("c", o.name)] = ops.conv(self.spec.decl_ctype(o), ops.b2i(self.spec.ev(o.default_value, {}, z3.IntVal(0), "start")))
                    else:
                        exp_st[("c", o.name)] = vals[("c", o.name)]
            exp_st[("m", "state")] = z3.IntVal(self.spec.idx(self.c.cctx.dfa.starting_state))
            outs = []
            self.spec.run_actions(list(self.spec.start_actions), exp_st, [], z3.IntVal(0), "start", [], outs,
                                  lambda s2, t2, c2: outs.append({"conds": c2, "st": s2, "trace": t2, "term": ("return", "OK")}))
        except amach.SpecError as e:
            self.fail("memsafe", "start/spec", str(e), 0, {"where": "start()"})
            outs = None
        for p in paths:
            self.collect_obs(p, "start")
            if p["term"][0] != "return":
                self.fail("refine", "start/returns", "start() does not end in a return")
                continue
            if outs is None:
                continue
            matched = 0
            for ei, a in enumerate(outs):
                hyp = p["pc"] + a["conds"]
                if self.check(hyp) == "unsat":
                    continue
                matched += 1
                # buffers of strings without default are compared only on what start() is required to establish
                self.compare_store_start(f"start.p{ei}", hyp, p["state"].vals, a["st"])
                if p["term"][1] != f"{U}_{a['term'][1]}":
                    self.fail("refine", f"start.p{ei}.result", f"start() returns {p['term'][1]}, expected {a['term'][1]}")
                if len(p["state"].trace) != len(a["trace"]):
                    self.fail("refine", f"start.p{ei}.hooks", "start() performs a different number of hook calls than the start actions prescribe")
                else:
                    for hc, ha in zip(p["state"].trace, a["trace"]):
                        if hc[1] != ha[1]:
                            self.fail("refine", f"start.p{ei}.hook", f"hook {hc[1]} vs {ha[1]}")
                        self.prove("refine", f"start.p{ei}.hook.arg", hyp, hc[2] == ha[2], "start hook argument differs")
            if matched == 0:
                self.fail("refine", "start/unmatched", "start() has a path that matches no prescribed outcome")
            for (txt, g) in self.inv_of(p["state"].vals):
                self.prove("memsafe", f"start.inv.{abs(hash(txt))%100000}", p["pc"], g, f"start() does not establish the invariant: {txt}", p["term"][2])

    def compare_store_start(self, tag, hyps, cvals, avals):
        T = self.nmfu.OutputStorageType
        for o in self.c.cctx.state_object_spec:
            if o.type in (T.STR, T.RAW):
                self.prove("refine", f"{tag}.store.{o.name}_counter", hyps, cvals[("m", o.name + "_counter")] == avals[("m", o.name + "_counter")], f"length of {o.name} after start() differs")
                n = avals[("m", o.name + "_counter")]
                k = z3.Int("k!")
                # content up to length (+ terminator) must match whenever the buffer is allocated
                self.prove("refine", f"{tag}.store.{o.name}.content", hyps + [k >= 0, k < n, cvals[("tag", o.name)] == cexec.VALID],
                           z3.Select(cvals[("buf", o.name)], k) == z3.Select(avals[("buf", o.name)], k), f"content of {o.name} after start() differs from the declared default")
            else:
                self.prove("refine", f"{tag}.store.{o.name}", hyps, cvals[("c", o.name)] == avals[("c", o.name)], f"value of {o.name} after start() differs")
        self.prove("refine", f"{tag}.store.state", hyps, cvals[("m", "state")] == avals[("m", "state")], "start state differs")

    # ---------- free ----------
    def verify_free(self):
        fname = self.c.name + "_free"
        f = self.tu["funcs"].get(fname)
        dyn = self.c.flagmap["DYNAMIC_MEMORY"]
        if f is None:
            if dyn:
                self.fail("wellformed", "api/free", "dynamic memory is on but free() is not defined")
            return
        if not dyn:
            self.fail("wellformed", "api/free-without-dynamic", "free() defined although dynamic memory is off")
        vals, inv = self.fresh_state("_f")
        mk = self.make_exec_factory(vals, inv, z3.IntVal(0), z3.Int("start0"), z3.Int("end0"), fname)
        T = self.nmfu.OutputStorageType
        for p in cexec.explore_block(mk, f["body"]):
            self.collect_obs(p, "free")
            for o in self.c.cctx.state_object_spec:
                if o.type == T.STR and self.L.c[o.name]["heap"]:
                    tg = p["state"].vals[("tag", o.name)]
                    self.prove("memsafe", f"free.released.{o.name}", p["pc"], tg == cexec.NULLTAG,
                               f"after free() the allocation of {o.name} is leaked or the pointer left dangling (not NULL)")
            # second call of free() is harmless? (not required by the property) -- nothing
        # nothing freed twice is covered by the free-valid obligations


def find_cycle(g):
    color = {}
    stack = []

    def dfs(u):
        color[u] = 1
        stack.append(u)
        for v in g.get(u, ()):
            if v is None:
                continue
            if color.get(v, 0) == 0:
                r = dfs(v)
                if r:
                    return r
            elif color.get(v) == 1:
                return stack[stack.index(v):] + [v]
        stack.pop()
        color[u] = 2
        return None
    for u in list(g):
        if color.get(u, 0) == 0:
            r = dfs(u)
            if r:
                return r
    return None


# ---------------- C04: termination of the non-consuming moves of feed ----------------

def _simple_cycles(g, max_len=14, max_cycles=400):
    """enumerate simple cycles (as node lists) of a small digraph; returns (cycles, complete)"""
    nodes = sorted(g)
    cycles = []
    complete = True
    for s in nodes:
        stack = [(s, [s])]
        while stack:
            u, path = stack.pop()
            for v in g.get(u, ()):
                if v is None or v < s:
                    continue
                if v == s:
                    cycles.append(list(path))
                    if len(cycles) > max_cycles:
                        return cycles, False
                elif v not in path:
                    if len(path) >= max_len:
                        complete = False
                        continue
                    stack.append((v, path + [v]))
    return cycles, complete


def verify_termination(self):
    """every cycle among the non-consuming moves (fall-through, overflow redirect, break, condition branches) must be infeasible
    or carry a strictly increasing bounded counter; a closed recurrence set is a violation."""
    edges = self.edges
    g = {}
    for (a, b, bs, hyp, vals) in edges:
        g.setdefault(a, set()).add(b)
    cycles, complete = _simple_cycles(g)
    if not complete:
        self.results.append(Result("term", "feed/cycles.enumeration", "unknown", "cycle enumeration bound exceeded"))
    if not cycles:
        self.results.append(Result("term", "feed/no-nonconsuming-cycle", "proved", f"graph of {len(edges)} non-consuming moves is acyclic"))
        return
    sp = self.feed_sp
    start0, end0 = z3.Int("start0"), z3.Int("end0")
    inval0 = self.inval0
    T = self.nmfu.OutputStorageType
    for ci, cyc in enumerate(cycles):
        tag = "feed/cycle." + "-".join(map(str, cyc))
        # symbolic lap(s)
        vals0 = dict(self.sigma0)
        vals0[("m", "state")] = z3.IntVal(cyc[0])
        _, inv = self.fresh_state()
        base = inv + [start0 >= 0, start0 < end0, inval0 >= 0, inval0 <= 255, inval0 == z3.Select(self.In, start0)]
        frontier = [(list(base), vals0)]
        verdict = None
        laps = 0
        MAXLAPS = 3
        while laps < MAXLAPS and verdict is None:
            laps += 1
            # one lap: follow the cycle's nodes
            for pos, node in enumerate(cyc):
                nxt = cyc[(pos + 1) % len(cyc)]
                new_frontier = []
                for (pc, vals) in frontier:
                    block = sp["blocks"][node]
                    labs, k = self.head_labels(block)
                    v2 = dict(vals)
                    mk = self.make_exec_factory(v2, pc, inval0, start0, end0, "feed")
                    for p in cexec.explore_block(mk, block[k:]):
                        if p["term"][0] != "goto" or p["consumed"] != 0:
                            continue
                        st = z3.simplify(p["state"].vals[("m", "state")])
                        lab = p["term"][1]
                        if lab == "repeatswitch":
                            to = st.as_long() if z3.is_int_value(st) else None
                        else:
                            to = int(lab.split("_")[1])
                        if to != nxt:
                            continue
                        if self.check(p["pc"]) == "unsat":
                            continue
                        new_frontier.append((p["pc"], dict(p["state"].vals)))
                frontier = new_frontier[:64]
                if not frontier:
                    break
            if not frontier:
                verdict = ("proved", f"cycle infeasible after {laps} lap(s)")
                break
            # closed recurrence / ranking on the first lap only
            if laps == 1:
                for (pc, vals) in frontier:
                    subst = []
                    for key, v0 in self.sigma0.items():
                        if key == ("m", "state"):
                            continue
                        v1 = vals.get(key)
                        if v1 is not None and z3.is_const(v0) and v0.decl().kind() == z3.Z3_OP_UNINTERPRETED:
                            subst.append((v0, v1))
                    R = z3.And(*pc)
                    R1 = z3.substitute(R, *subst)
                    if self.check(pc + [z3.Not(R1)]) == "unsat":
                        m = self._model if self.check(pc) == "sat" else None
                        wit = self.default_witness(m) if m is not None else {}
                        wit.update({"cycle": cyc, "start_state": cyc[0]})
                        full = [vals0[("m", o.name + "_counter")] == self.spec.capacity(o) for o in self.c.cctx.state_object_spec if o.type in (T.STR, T.RAW)]
                        oos = bool(full) and self.check(pc + [z3.Not(z3.Or(*full))]) == "unsat"
                        if oos:
                            tag = "feed/cycle.oos." + "-".join(map(str, cyc))
                        verdict = ("refuted", f"non-consuming cycle through states {cyc} is a closed recurrence" + (" (only while an output buffer is full: out-of-space handling leads back to the append)" if oos else "") + ": feed never returns", wit)
                        break
                    # ranking: some buffer counter strictly increases (bounded by its capacity through Inv)
                    ranked = False
                    for o in self.c.cctx.state_object_spec:
                        if o.type in (T.STR, T.RAW):
                            key = ("m", o.name + "_counter")
                            if self.check(pc + [z3.Not(vals[key] > self.sigma0[key])]) == "unsat":
                                ranked = True
                    if not ranked:
                        break
                else:
                    verdict = ("proved", "every lap strictly increases a bounded length counter")
                if verdict:
                    break
        if verdict is None:
            self.results.append(Result("term", tag, "unknown", f"cycle {cyc}: neither refuted nor bounded within {MAXLAPS} laps"))
        elif verdict[0] == "proved":
            self.results.append(Result("term", tag, "proved", verdict[1]))
        else:
            self.results.append(Result("term", tag, "refuted", verdict[1], verdict[2], 0.001))


TV.verify_termination = verify_termination
