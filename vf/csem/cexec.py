"""Symbolic executor for the emitted C subset.  Single-path interpreter + decision oracle (re-execution) per block."""
import z3
from .cparse import OutsideSubset, c_string_bytes
from . import ops

I = z3.IntSort()
NULLTAG, VALID, FREED = 0, 1, 2


class Goto(Exception):
    def __init__(self, label, line):
        self.label, self.line = label, line


class Return(Exception):
    def __init__(self, code, line):
        self.code, self.line = code, line


class Ob:
    """a proof obligation generated while executing (memory safety, coherence, ...)"""

    def __init__(self, kind, cond, goal, text, line):
        self.kind, self.cond, self.goal, self.text, self.line = kind, cond, goal, text, line


class Layout:
    """what the header declares: members of state->c, counters, hooks, enum constants"""

    def __init__(self, header_info, prefix):
        self.h = header_info
        self.prefix = prefix
        self.c = {}          # name -> dict(kind=int|str|raw|enum|bool, ctype, size, heap)
        for name, (ty, _, arr) in header_info["c"].items():
            ty = " ".join(ty.split())
            if arr is not None:
                self.c[name] = {"kind": "buf", "ctype": ty, "size": arr, "heap": False}
            elif ty.endswith("*"):
                self.c[name] = {"kind": "buf", "ctype": ty[:-1].strip(), "size": None, "heap": True}
            else:
                self.c[name] = {"kind": "scalar", "ctype": ty}
        self.members = {n: " ".join(t[0].split()) for n, t in header_info["members"].items()}
        self.enum_values = {}
        for en, d in header_info["enums"].items():
            for i, v in enumerate(d["values"]):
                self.enum_values[v] = i


class CState:
    """symbolic machine state"""

    def __init__(self):
        self.vals = {}     # ("c",name) / ("m",name) -> Int ;  ("buf",name) -> Array ; ("tag",name) -> Int ; ("cap",name) -> Int (bytes allocated)
        self.start = None
        self.end = None
        self.inval = None
        self.trace = []

    def copy(self):
        s = CState()
        s.vals = dict(self.vals)
        s.start, s.end, s.inval = self.start, self.end, self.inval
        s.trace = list(self.trace)
        return s


class Oracle:
    def __init__(self, prefix=()):
        self.prefix = list(prefix)
        self.taken = []
        self.alts = []


class Exec:
    def __init__(self, layout, solver_check, indirect, in_array, func_name, raw_sizes=None):
        self.L = layout
        self.check = solver_check    # fn(list of conds) -> 'sat'/'unsat'/'unknown'
        self.indirect = indirect
        self.In = in_array
        self.func = func_name
        self.macros = {}
        self.obs = []
        self.pc = []
        self.oracle = Oracle()
        self.st = None
        self.consumed = 0
        self.events = []

    # ----- decisions -----
    def decide(self, cond):
        c = z3.simplify(cond)
        if z3.is_true(c):
            return True
        if z3.is_false(c):
            return False
        pos = len(self.oracle.taken)
        if pos < len(self.oracle.prefix):
            d = self.oracle.prefix[pos]
        else:
            ft = self.check(self.pc + [c]) != "unsat"
            ff = self.check(self.pc + [z3.Not(c)]) != "unsat"
            if ft and ff:
                d = True
                self.oracle.alts.append(list(self.oracle.taken) + [False])
            elif ft:
                d = True
            else:
                d = False
        self.oracle.taken.append(d)
        self.pc.append(c if d else z3.Not(c))
        return d

    def ob(self, kind, goal, text, line):
        self.obs.append(Ob(kind, list(self.pc), goal, text, line))

    # ----- lvalues -----
    def lval(self, e):
        """-> ('scalar', key) | ('elem', name, idx, viewcast) | ('start',) | ('inval',) | ('ptr', name)"""
        k = e[0]
        if k == "paren":
            return self.lval(e[1])
        if k == "id":
            if e[1] == "inval":
                return ("inval",)
            if e[1] == "start":
                return ("start",)
            raise OutsideSubset(f"assignment to identifier {e[1]}")
        if k == "deref" and e[1] == ("id", "start") and self.indirect:
            return ("startval",)
        if k == "member":
            base, name, arrow = e[1], e[2], e[3]
            if base == ("id", "state") and arrow:
                if name not in self.L.members:
                    self.ob("decl", False, f"state->{name} is not declared in the header", 0)
                return ("scalar", ("m", name))
            if base == ("member", ("id", "state"), "c", True) and not arrow:
                if name not in self.L.c:
                    self.ob("decl", False, f"state->c.{name} is not declared in the header", 0)
                    return ("scalar", ("c", name))
                if self.L.c[name]["kind"] == "buf":
                    return ("ptr", name)
                return ("scalar", ("c", name))
        if k == "index":
            base = e[1]
            view = None
            if base[0] == "paren":
                base = base[1]
            addr_taken = False
            if base[0] == "cast":
                view = base[1]
                base = base[2]
                if base[0] == "addr":
                    addr_taken = True
                    base = base[1]
            b = self.lval(base)
            if b[0] == "scalar" and b[1][0] == "c" and not addr_taken:
                self.ob("deref-valid", False, f"the VALUE of state->c.{b[1][1]} is converted to a pointer and indexed (missing &): access to an arbitrary address", 0)
            if b[0] == "ptr" or (b[0] == "scalar" and b[1][0] == "c"):
                name = b[1] if b[0] == "ptr" else b[1][1]
                return ("elem", name, e[2], view)
        raise OutsideSubset(f"unsupported lvalue {e!r}")

    def get(self, key, sort="int"):
        if key not in self.st.vals:
            raise OutsideSubset(f"read of untracked location {key}")
        return self.st.vals[key]

    # ----- expressions -----
    def ev(self, e, line=0):
        k = e[0]
        if k == "num":
            return z3.IntVal(e[1])
        if k == "paren":
            return self.ev(e[1], line)
        if k == "id":
            n = e[1]
            if n in self.macros:
                return z3.IntVal(self.macros[n])
            if n == "inval":
                return self.st.inval
            if n == "true":
                return z3.IntVal(1)
            if n == "false":
                return z3.IntVal(0)
            if n == "NULL":
                return ("null",)
            if n == "end":
                return ("ptr_in", self.st.end)
            if n == "start":
                if self.indirect:
                    return ("pp_start",)
                return ("ptr_in", self.st.start)
            if n in self.L.enum_values:
                return z3.IntVal(self.L.enum_values[n])
            raise OutsideSubset(f"unknown identifier {n}")
        if k == "un":
            v = self.ev(e[2], line)
            if e[1] == "!":
                return z3.Not(self.truth(v))
            if e[1] == "-":
                return -ops.b2i(v)
            if e[1] == "~":
                return ops.bnot(ops.b2i(v))
            if e[1] == "+":
                return ops.b2i(v)
        if k == "bin":
            op = e[1]
            if op == "&&":
                a = self.ev(e[2], line)
                ta = self.truth(a)
                self.pc.append(ta)      # rhs evaluated only when lhs true (for safety obligations)
                try:
                    b = self.truth(self.ev(e[3], line))
                finally:
                    self.pc.pop()
                return z3.And(ta, b)
            if op == "||":
                a = self.ev(e[2], line)
                ta = self.truth(a)
                self.pc.append(z3.Not(ta))
                try:
                    b = self.truth(self.ev(e[3], line))
                finally:
                    self.pc.pop()
                return z3.Or(ta, b)
            a = self.ev(e[2], line)
            b = self.ev(e[3], line)
            if isinstance(a, tuple) or isinstance(b, tuple):
                return self.ptr_cmp(op, a, b)
            return ops.binop(op, a, b)
        if k == "tern":
            c = self.truth(self.ev(e[1], line))
            self.pc.append(c)
            try:
                a = self.ev(e[2], line)
            finally:
                self.pc.pop()
            self.pc.append(z3.Not(c))
            try:
                b = self.ev(e[3], line)
            finally:
                self.pc.pop()
            return z3.If(c, ops.b2i(a), ops.b2i(b))
        if k == "cast":
            v = self.ev(e[2], line)
            if isinstance(v, tuple):
                return v
            inner = e[2]
            while isinstance(inner, tuple) and inner[0] == "paren":
                inner = inner[1]
            if " ".join(str(e[1]).split()) == "uint8_t" and not isinstance(v, tuple) and isinstance(inner, tuple) and inner[0] == "index":
                # (uint8_t) of a buffer element: the byte stored there - whether it was read through plain char (unspecified sign) or
                # through uint8_t / a uint8_t view (the value is the byte already)
                u = ops.un_rd_char(ops.b2i(v))
                return u if u is not None else ops.b2i(v)
            if " ".join(str(e[1]).split()) == "int" and isinstance(inner, tuple) and inner[0] == "index":
                # (int) of a string / raw element: every value of char or uint8_t is an int, the conversion preserves the value
                return ops.b2i(v)
            return ops.conv(e[1], ops.b2i(v))
        if k == "sizeof":
            lv = self.lval(e[1])
            if lv[0] == "ptr":
                info = self.L.c[lv[1]]
                if info["heap"]:
                    return z3.IntVal(8)
                return z3.IntVal(info["size"] * ops.TYPE_SIZES.get(info["ctype"], 1))
            if lv[0] == "scalar" and lv[1][0] == "c":
                ct = self.L.c[lv[1][1]]["ctype"]
                if ct not in ops.TYPE_SIZES:
                    raise OutsideSubset(f"sizeof unknown type {ct}")
                return z3.IntVal(ops.TYPE_SIZES[ct])
            raise OutsideSubset("sizeof")
        if k == "deref":
            inner = e[1]
            if inner == ("id", "start") and not self.indirect:
                return self.read_input(self.st.start, line)
            if inner == ("id", "start") and self.indirect:
                return ("ptr_in", self.st.start)
            if inner == ("deref", ("id", "start")) and self.indirect:
                return self.read_input(self.st.start, line)
            if inner[0] == "paren":
                return self.ev(("deref", inner[1]), line)
            raise OutsideSubset(f"deref {inner!r}")
        if k in ("member", "index"):
            lv = self.lval(e)
            return self.load(lv, line)
        if k == "postinc":
            lv = self.lval(e[1])
            nread = len(self.rw["read"]) if self.rw else 0
            old = self.load(lv, line)
            if self.rw is not None:
                del self.rw["read"][nread:]
                if lv[0] == "scalar":
                    self.rw["inc"].add(lv[1])
            self.store(lv, old + 1, line)
            return old
        if k == "preinc":
            lv = self.lval(e[1])
            if lv[0] in ("start", "startval"):
                if (lv[0] == "start") == self.indirect:
                    raise OutsideSubset("++ on the wrong start pointer form")
                self.st.start = self.st.start + 1
                self.consumed += 1
                self.events.append(("advance", line))
                return ("ptr_in", self.st.start)
            old = self.load(lv, line)
            self.store(lv, old + 1, line)
            return old + 1
        if k == "predec":
            lv = self.lval(e[1])
            if lv[0] in ("start", "startval"):
                if (lv[0] == "start") == self.indirect:
                    raise OutsideSubset("-- on the wrong start pointer form")
                self.st.start = self.st.start - 1
                self.consumed -= 1
                self.events.append(("retreat", line))
                return ("ptr_in", self.st.start)
            raise OutsideSubset("-- on something else than the start pointer")
        if k == "assign":
            return self.assign(e[1], e[2], line)
        if k == "call":
            return self.call(e, line)
        if k == "str":
            return ("lit", e[1])
        raise OutsideSubset(f"expression form {k}")

    def truth(self, v):
        if isinstance(v, tuple):
            if v[0] == "bufptr":
                return self.st.vals[("tag", v[1])] != NULLTAG
            if v[0] == "null":
                return z3.BoolVal(False)
            raise OutsideSubset(f"truth value of {v!r}")
        return ops.truth(v)

    def ptr_cmp(self, op, a, b):
        def off(x):
            if isinstance(x, tuple) and x[0] == "ptr_in":
                return x[1]
            return None
        if off(a) is not None and off(b) is not None:
            return ops.binop(op, off(a), off(b))
        # NULL comparisons of buffers
        for x, y in ((a, b), (b, a)):
            if isinstance(x, tuple) and x[0] == "bufptr" and isinstance(y, tuple) and y[0] == "null":
                tag = self.st.vals[("tag", x[1])]
                r = tag == NULLTAG
                return r if op == "==" else z3.Not(r)
        kinds = {x[0] if isinstance(x, tuple) else "int" for x in (a, b)}
        if kinds == {"pp_start", "ptr_in"}:
            self.ob("decl", False, "comparison of distinct pointer types: `start` (const uint8_t **) with a const uint8_t * (missing dereference)", 0)
            return z3.Bool(f"distinct_ptr_cmp_{len(self.obs)}")
        raise OutsideSubset(f"pointer comparison {a!r} {op} {b!r}")

    def read_input(self, off, line):
        self.ob("input-read-in-bounds", z3.And(off >= 0, off < self.st.end), "read of *start outside [chunk start, end)", line)
        return z3.Select(self.In, off)

    rw = None

    def load(self, lv, line):
        if lv[0] == "scalar":
            if self.rw is not None:
                self.rw["read"].append(lv[1])
            return self.get(lv[1])
        if lv[0] == "inval":
            return self.st.inval
        if lv[0] == "ptr":
            return ("bufptr", lv[1])
        if lv[0] == "startval":
            return ("ptr_in", self.st.start)
        if lv[0] == "elem":
            name, idx = lv[1], lv[2]
            i = ops.b2i(self.ev(idx, line))
            self.access(name, i, line, lv[3], write=False)
            b = z3.Select(self.st.vals[("buf", name)], i)
            info = self.L.c.get(name) or {}
            if info.get("kind") == "buf" and info.get("ctype") == "char" and (lv[3] is None or "uint8_t" not in lv[3]):
                return ops.rd_char(b)        # an element of a plain-char array: its value as an integer is not the byte (sign)
            return b
        raise OutsideSubset(f"load {lv!r}")

    def elem_bound(self, name, view):
        info = self.L.c[name]
        if info["kind"] == "buf":
            return self.st.vals[("cap", name)]
        # raw scalar viewed as bytes
        ct = info["ctype"]
        if ct not in ops.TYPE_SIZES:
            raise OutsideSubset(f"size of raw type {ct} unknown")
        return z3.IntVal(ops.TYPE_SIZES[ct])

    def access(self, name, i, line, view, write):
        info = self.L.c.get(name)
        if info is None:
            raise OutsideSubset(f"indexing undeclared {name}")
        if info["kind"] == "buf":
            tag = self.st.vals[("tag", name)]
            self.ob("deref-valid", tag == VALID, f"state->c.{name} dereferenced while NULL or freed", line)
        else:
            if view is None or "uint8_t" not in view:
                self.ob("decl", False, f"state->c.{name} indexed but it is not declared as a buffer", line)
        bound = self.elem_bound(name, view)
        self.ob("index-in-bounds", z3.And(i >= 0, i < bound), f"{'write' if write else 'read'} of state->c.{name}[{z3.simplify(i)}] outside its {z3.simplify(bound)} bytes", line)

    def store(self, lv, v, line):
        if isinstance(v, tuple):
            raise OutsideSubset("storing a pointer into a scalar")
        v = ops.b2i(v)
        if lv[0] == "scalar":
            key = lv[1]
            ctype = self.L.members.get(key[1]) if key[0] == "m" else self.L.c.get(key[1], {}).get("ctype")
            if key[0] == "m" and ctype in ops.UNSIGNED_MAX:
                self.ob("fits-type", z3.And(v >= 0, v <= ops.UNSIGNED_MAX[ctype]), f"value stored in state->{key[1]} ({ctype}) out of range", line)
            self.st.vals[key] = v
            return
        if lv[0] == "inval":
            self.st.inval = v
            return
        if lv[0] == "elem":
            name = lv[1]
            i = ops.b2i(self.ev(lv[2], line))
            self.access(name, i, line, lv[3], write=True)
            self.st.vals[("buf", name)] = z3.Store(self.st.vals[("buf", name)], i, v)
            return
        raise OutsideSubset(f"store {lv!r}")

    def assign(self, lhs, rhs, line):
        # evaluation order: emitted code has the side effect (counter++) on the left and a pure right side
        lv = self.lval(lhs)
        if lv[0] == "ptr":
            r = self.ev(rhs, line)
            name = lv[1]
            if isinstance(r, tuple) and r[0] == "null":
                self.st.vals[("tag", name)] = z3.IntVal(NULLTAG)
                self.events.append(("setnull", name, line))
                return r
            if isinstance(r, tuple) and r[0] == "malloc":
                old = self.st.vals[("tag", name)]
                self.ob("no-leak", old != VALID, f"malloc result overwrites a live allocation of state->c.{name}", line)
                self.st.vals[("tag", name)] = z3.IntVal(VALID)
                self.st.vals[("cap", name)] = r[1]
                self.st.vals[("buf", name)] = z3.K(I, z3.IntVal(0)) if False else z3.Array(f"fresh_{name}_{line}_{len(self.events)}", I, I)
                self.events.append(("malloc", name, r[1], line))
                if not self.L.c[name]["heap"]:
                    self.ob("decl", False, f"malloc assigned to in-struct array state->c.{name}", line)
                return r
            raise OutsideSubset("pointer assignment form")
        if lv[0] == "inval":
            r = self.ev(rhs, line)
            self.st.inval = ops.b2i(r)
            self.events.append(("reload", line))
            return r
        if lv[0] == "elem":
            # index side effects first (counter++), then rhs
            name = lv[1]
            i = ops.b2i(self.ev(lv[2], line))
            r = ops.b2i(self.ev(rhs, line))
            self.access(name, i, line, lv[3], write=True)
            self.st.vals[("buf", name)] = z3.Store(self.st.vals[("buf", name)], i, r)
            return r
        r = self.ev(rhs, line)
        if lv[0] == "scalar" and lv[1][0] == "c":
            ct = self.L.c.get(lv[1][1], {}).get("ctype", "?")
            r = ops.conv(ct, ops.b2i(r))
            self.st.vals[lv[1]] = r
            return r
        self.store(lv, r, line)
        return r

    def call(self, e, line):
        fn, args = e[1], e[2]
        if fn == ("id", "malloc"):
            n = ops.b2i(self.ev(args[0], line))
            return ("malloc", n)
        if fn == ("id", "free"):
            lv = self.lval(args[0])
            if lv[0] != "ptr":
                raise OutsideSubset("free of non-buffer")
            name = lv[1]
            tag = self.st.vals[("tag", name)]
            self.ob("free-valid", z3.Or(tag == VALID, tag == NULLTAG), f"free(state->c.{name}) on a pointer already freed (double free)", line)
            if not self.L.c[name]["heap"]:
                self.ob("decl", False, f"free of in-struct array state->c.{name}", line)
            self.st.vals[("tag", name)] = z3.If(tag == NULLTAG, z3.IntVal(NULLTAG), z3.IntVal(FREED))
            self.events.append(("free", name, line))
            return z3.IntVal(0)
        if fn == ("id", "memcpy"):
            lv = self.lval(args[0])
            lit = self.ev(args[1], line)
            n = self.ev(args[2], line)
            if lv[0] != "ptr" or not (isinstance(lit, tuple) and lit[0] == "lit") or not z3.is_int_value(z3.simplify(n)):
                raise OutsideSubset("memcpy form")
            n = z3.simplify(n).as_long()
            name = lv[1]
            bs = c_string_bytes(lit[1])
            tag = self.st.vals[("tag", name)]
            self.ob("deref-valid", tag == VALID, f"memcpy into state->c.{name} while NULL or freed", line)
            self.ob("memcpy-fits-dest", z3.IntVal(n) <= self.st.vals[("cap", name)], f"memcpy of {n} bytes into state->c.{name} exceeds its size", line)
            self.ob("memcpy-fits-src", z3.BoolVal(n <= len(bs) + 1), f"memcpy of {n} bytes reads past the {len(bs)+1}-byte literal", line)
            if any(isinstance(b, tuple) for b in bs):
                self.ob("literal-escape-in-range", z3.BoolVal(False), f"hex escape out of range in emitted literal {lit[1]}", line)
                bs = [b[1] & 255 if isinstance(b, tuple) else b for b in bs]
            arr = self.st.vals[("buf", name)]
            src = bs + [0]
            for i in range(min(n, len(src))):
                arr = z3.Store(arr, i, z3.IntVal(src[i]))
            self.st.vals[("buf", name)] = arr
            self.events.append(("memcpy", name, tuple(src[:n]), line))
            return z3.IntVal(0)
        # hook calls
        name = None
        if fn[0] == "id" and fn[1].startswith(self.L.prefix + "_") and fn[1].endswith("_hook"):
            name = fn[1][len(self.L.prefix) + 1:-5]
            style = "global"
        elif fn[0] == "paren" and fn[1][0] == "member" and fn[1][1] == ("id", "state") and fn[1][2].endswith("_hook"):
            name = fn[1][2][:-5]
            style = "member"
            if fn[1][2] not in self.L.members:
                self.ob("decl", False, f"hook member {fn[1][2]} not declared", line)
        if name is not None:
            if len(args) != 2 or args[0] != ("id", "state"):
                raise OutsideSubset("hook call form")
            a = ops.b2i(self.ev(args[1], line))
            self.st.trace.append(("hook", name, a, dict(self.st.vals), style))
            self.events.append(("hook", name, line))
            return z3.IntVal(0)
        raise OutsideSubset(f"call of {fn!r}")

    # ----- statements -----
    def run_block(self, stmts, start_idx=0):
        """run statement list; local forward gotos to labels inside nested blocks are resolved by the caller of run_from"""
        i = start_idx
        while i < len(stmts):
            s = stmts[i]
            try:
                self.stmt(s)
            except Goto as g:
                j = self.find_label(stmts, g.label, i + 1)
                if j is None:
                    raise
                i = j
                continue
            i += 1

    def find_label(self, stmts, label, frm):
        for j in range(frm, len(stmts)):
            if stmts[j][0] == "label" and stmts[j][1] == label:
                return j
        return None

    def stmt(self, s):
        k = s[0]
        if k in ("label", "pp", "case", "default"):
            if k == "pp":
                self.pp(s[1])
            return
        if k == "expr":
            self.rw = {"inc": set(), "read": []}
            try:
                self.ev(s[1], s[2])
                both = [k2 for k2 in self.rw["inc"] if k2 in self.rw["read"]]
                if both:
                    self.ob("unsequenced", False, f"state->{both[0][1]} is modified (++) and read in the same expression without a sequence point: undefined behaviour", s[2])
            finally:
                self.rw = None
            return
        if k == "decl":
            if s[2] != "inval":
                raise OutsideSubset(f"local variable {s[2]} (only `inval` is allowed: nothing but the state struct may carry over)")
            v = self.ev(s[3], s[4])
            self.st.inval = ops.b2i(v)
            return
        if k == "goto":
            raise Goto(s[1], s[2])
        if k == "return":
            e = s[1]
            while e and e[0] == "paren":
                e = e[1]
            if e is None or e[0] != "id":
                raise OutsideSubset("return of non-identifier")
            raise Return(e[1], s[2])
        if k == "if":
            c = self.truth(self.ev(s[1], s[4]))
            if self.decide(c):
                self.run_block(s[2])
            elif s[3] is not None:
                self.run_block(s[3])
            return
        if k == "block":
            self.run_block(s[1])
            return
        raise OutsideSubset(f"statement {k} here")

    def pp(self, text):
        parts = text.split()
        if parts[0] == "#define" and len(parts) == 3:
            self.macros[parts[1]] = int(parts[2], 0)
        elif parts[0] == "#undef":
            self.macros.pop(parts[1], None)
        else:
            raise OutsideSubset(f"preprocessor line {text!r} inside a function")


def explore_block(make_exec, stmts, start_idx=0, max_paths=400):
    """enumerate all paths through stmts. make_exec() -> fresh Exec with initial state. yields dict(outcome) per path"""
    work = [[]]
    out = []
    while work:
        prefix = work.pop()
        ex = make_exec()
        ex.oracle = Oracle(prefix)
        term = None
        try:
            ex.run_block(stmts, start_idx)
            term = ("falloff",)
        except Goto as g:
            term = ("goto", g.label, g.line)
        except Return as r:
            term = ("return", r.code, r.line)
        work.extend(ex.oracle.alts)
        out.append({"pc": list(ex.pc), "state": ex.st, "term": term, "obs": ex.obs, "consumed": ex.consumed, "events": ex.events, "ex": ex})
        if len(out) > max_paths:
            raise OutsideSubset("too many paths in one block")
    return out
