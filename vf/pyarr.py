"""pyarr - a small verification-condition generator for *integer / list* Python code with loop invariants.

Complements vf/pyvc (which unrolls loops over concrete collections): here lists have symbolic length, loops are cut at invariants
supplied by a sidecar contract, and every obligation is a z3 query.  The statements are read from the real AST of /repo/nmfu.py on
every run; nothing is re-typed.  Subset (anything else raises Unsupported -> the check reports *undecided*, never a verdict):

  x = e | x += e | if/else | for i in range(a[, b]) | for x in <list variable> | <list>.append(e) | <list>.sort(key=...) (contract)
  | <list>.remove(e) (contract) | <abstract list>.append / .extend(<generator expression>) | expression statements of those calls
  expressions: names, int/str constants, + - comparisons, and/or/not, ord(), len(), <list>[e], <list>[:], e in <list>, a if c else b,
  ProgramData.do(flag) / ProgramData.option(opt) (symbolic), self._f(...) with a contract.

Values: z3 Int / Bool, ListV (z3 array + length, value semantics with copy on slice), AbsV (an abstract value owned by the contract
side: e.g. the denotation of a list of emitted byte tests), Opaque.

Loops:  `for i in range(a, b)` with invariant Inv(env, i, ghost):
     init       : a <= b  ->  Inv(env0, a)
     preserved  : a <= i < b and Inv(envH, i)  ->  [body]  Inv(envB, i + 1)          (envH: variables assigned in the body havoced)
     after      : a <= b: envH' with Inv(envH', b);  a > b: env0
   `for x in L` is the index loop over range(0, len(L)) with x = L[k]  (L must not be modified in the body).
Safety obligations: list index within [0, len) (negative indices are not modelled: such an index is reported as undecided),
contract pre-conditions (e.g. remove(x): x is in the list -> no ValueError)."""
import ast
import z3


class Unsupported(Exception):
    pass


class ListV:
    """symbolic list: positional view (z3 array + length) and set view `mem` (callable u -> z3 Bool: u occurs in the list).
    `distinct`: the elements are known to be pairwise different (needed by the remove contract)."""
    def __init__(self, arr, n, mem=None, distinct=False):
        self.arr, self.n, self.mem, self.distinct = arr, n, mem, distinct


class AbsV:
    """abstract value: `payload` is owned by the contract side (opaque to the generator); `merge(c, a, b)` and `havoc(name)` are supplied"""
    def __init__(self, kind, payload):
        self.kind, self.payload = kind, payload


class Opaque:
    def __init__(self, tag):
        self.tag = tag


class Ob:
    def __init__(self, name, hyps, goal, kind="post"):
        self.name, self.hyps, self.goal, self.kind = name, list(hyps), goal, kind


class Gen:
    """one run over a function body"""

    def __init__(self, spec):
        self.spec = spec              # sidecar: see props/cond_proofs.py
        self.pc = []
        self.obs = []
        self.n = 0
        self.loop_ord = 0

    def fresh(self, name, sort="int"):
        self.n += 1
        nm = f"{name}!{self.n}"
        return z3.Int(nm) if sort == "int" else z3.Bool(nm) if sort == "bool" else z3.Array(nm, z3.IntSort(), z3.IntSort())

    def ob(self, name, goal, kind="post", extra=()):
        self.obs.append(Ob(name, self.pc + list(extra), goal, kind))

    # ------------------------------------------------------------ values
    def merge(self, c, a, b):
        if a is b:
            return a
        if isinstance(a, ListV) and isinstance(b, ListV):
            mem = (lambda u, a=a, b=b: z3.If(c, a.mem(u), b.mem(u))) if a.mem and b.mem else None
            return ListV(z3.If(c, a.arr, b.arr), z3.If(c, a.n, b.n), mem, a.distinct and b.distinct)
        if isinstance(a, AbsV) and isinstance(b, AbsV) and a.kind == b.kind:
            return self.spec.abs_merge(self, c, a, b)
        if z3.is_expr(a) or z3.is_expr(b) or isinstance(a, (int, bool)) or isinstance(b, (int, bool)):
            a2, b2 = self.lift(a), self.lift(b)
            if a2.sort() != b2.sort():
                raise Unsupported("merge of values of different sorts")
            return z3.If(c, a2, b2)
        if isinstance(a, Opaque) and isinstance(b, Opaque) and a.tag == b.tag:
            return a
        raise Unsupported(f"cannot merge {type(a).__name__} with {type(b).__name__}")

    def lift(self, v):
        if isinstance(v, bool):
            return z3.BoolVal(v)
        if isinstance(v, int):
            return z3.IntVal(v)
        if z3.is_expr(v):
            return v
        raise Unsupported(f"not a scalar: {v!r}")

    def havoc(self, name, v):
        if isinstance(v, ListV):
            self.n += 1
            f = z3.Function(f"{name}_mem!{self.n}", z3.IntSort(), z3.BoolSort())
            return ListV(self.fresh(name + "_arr", "arr"), self.fresh(name + "_len"), (lambda u, f=f: f(u)), v.distinct)
        if isinstance(v, AbsV):
            return self.spec.abs_havoc(self, name, v)
        v = self.lift(v)
        return self.fresh(name, "bool" if z3.is_bool(v) else "int")

    # ------------------------------------------------------------ statements
    def block(self, stmts, env):
        for st in stmts:
            self.stmt(st, env)

    def stmt(self, st, env):
        if isinstance(st, ast.Expr):
            if isinstance(st.value, ast.Constant) and isinstance(st.value.value, str):
                return                                  # docstring
            if isinstance(st.value, ast.Call):
                return self.call_stmt(st.value, env)
            raise Unsupported(f"expression statement at line {st.lineno}")
        if isinstance(st, ast.Assign):
            if len(st.targets) != 1 or not isinstance(st.targets[0], ast.Name):
                raise Unsupported(f"assignment target at line {st.lineno}")
            if isinstance(st.value, ast.List) and not st.value.elts:
                env[st.targets[0].id] = self.spec.empty_list(self, st.targets[0].id)
            else:
                env[st.targets[0].id] = self.expr(st.value, env)
            return
        if isinstance(st, ast.AugAssign) and isinstance(st.target, ast.Name) and isinstance(st.op, (ast.Add, ast.Sub)):
            cur, v = self.lift(env[st.target.id]), self.lift(self.expr(st.value, env))
            env[st.target.id] = cur + v if isinstance(st.op, ast.Add) else cur - v
            return
        if isinstance(st, ast.If):
            c = self.cond(self.expr(st.test, env))
            e1, e2 = dict(env), dict(env)
            saved = list(self.pc)
            self.pc = saved + [c]
            self.block(st.body, e1)
            learned1 = self.pc[len(saved) + 1:]
            self.pc = saved + [z3.Not(c)]
            self.block(st.orelse, e2)
            learned2 = self.pc[len(saved) + 1:]
            # facts established inside a branch (contract posts, invariants at loop exits) stay available under the branch condition
            self.pc = saved + ([z3.Implies(c, z3.And(*learned1))] if learned1 else []) + ([z3.Implies(z3.Not(c), z3.And(*learned2))] if learned2 else [])
            for k in set(e1) | set(e2):
                if k in e1 and k in e2:
                    env[k] = self.merge(c, e1[k], e2[k])
                else:
                    env.pop(k, None)            # defined on one side only: unusable afterwards
            return
        if isinstance(st, ast.For):
            return self.for_loop(st, env)
        if isinstance(st, ast.Return):
            env["$return"] = self.expr(st.value, env) if st.value is not None else None
            return
        raise Unsupported(f"statement {type(st).__name__} at line {st.lineno}")

    def assigned(self, stmts):
        names = set()
        for st in stmts:
            for x in ast.walk(st):
                if isinstance(x, (ast.Assign, ast.AugAssign)):
                    for t in (x.targets if isinstance(x, ast.Assign) else [x.target]):
                        for nm in ast.walk(t):
                            if isinstance(nm, ast.Name):
                                names.add(nm.id)
                # (targets of nested for loops are loop-local: they are removed from the environment when that loop ends)
                elif isinstance(x, ast.Call) and isinstance(x.func, ast.Attribute) and isinstance(x.func.value, ast.Name) and x.func.attr in ("append", "extend", "remove", "sort", "insert", "pop", "clear"):
                    names.add(x.func.value.id)
        return names

    def for_loop(self, st, env):
        ordinal = self.loop_ord
        self.loop_ord += 1
        inv = self.spec.invariants.get(ordinal)
        if inv is None:
            raise Unsupported(f"no invariant for loop #{ordinal} at line {st.lineno}")
        if st.orelse:
            raise Unsupported("for-else")
        # header
        listvar = None
        if isinstance(st.iter, ast.Call) and isinstance(st.iter.func, ast.Name) and st.iter.func.id == "range" and isinstance(st.target, ast.Name):
            args = [self.lift(self.expr(a, env)) for a in st.iter.args]
            if len(args) == 1:
                a, b = z3.IntVal(0), args[0]
            elif len(args) == 2:
                a, b = args
            else:
                raise Unsupported("range with step")
            ivar = st.target.id
        elif isinstance(st.iter, ast.Name) and isinstance(env.get(st.iter.id), ListV) and isinstance(st.target, ast.Name):
            listvar = st.iter.id
            if listvar in self.assigned(st.body):
                raise Unsupported(f"list {listvar} is modified while it is iterated")
            a, b = z3.IntVal(0), env[listvar].n
            ivar = "$k%d" % ordinal
        else:
            raise Unsupported(f"loop header at line {st.lineno}")
        mod = self.assigned(st.body) - {st.target.id}
        for m in mod:
            if m not in env:
                raise Unsupported(f"variable {m} assigned in loop #{ordinal} is not defined before it")
        ghost = dict(env)
        saved = list(self.pc)
        name = f"loop{ordinal}"
        # init
        self.ob(f"{name}.inv-init", inv(self, env, a, ghost), "inv-init", extra=[a <= b])
        # arbitrary iteration
        envh = dict(env)
        for m in mod:
            envh[m] = self.havoc(m, env[m])
        i = self.fresh(ivar)
        self.pc = saved + [a <= i, i < b, inv(self, envh, i, ghost)] + self.spec.wf(self, envh)
        if listvar is None:
            envh[ivar] = i
        else:
            envh[st.target.id] = self.index(envh[listvar], i, f"{name}.iter")
        self.block(st.body, envh)
        self.ob(f"{name}.inv-preserved", inv(self, envh, i + 1, ghost), "inv-preserved")
        # after the loop
        self.pc = saved
        enva = dict(env)
        for m in mod:
            enva[m] = self.havoc(m, env[m])
        post = [inv(self, enva, b, ghost)] + self.spec.wf(self, enva)
        for m in mod:
            env[m] = self.merge(a <= b, enva[m], env[m])
        self.pc = saved + [z3.Implies(a <= b, z3.And(*post))]
        env.pop(st.target.id, None)

    # ------------------------------------------------------------ calls as statements
    def call_stmt(self, call, env):
        f = call.func
        if isinstance(f, ast.Attribute) and isinstance(f.value, ast.Name) and f.value.id in env:
            tgt = env[f.value.id]
            if isinstance(tgt, ListV):
                if f.attr == "append" and len(call.args) == 1:
                    v = self.lift(self.expr(call.args[0], env))
                    mem = (lambda u, tgt=tgt, v=v: z3.Or(tgt.mem(u), u == v)) if tgt.mem else None
                    env[f.value.id] = ListV(z3.Store(tgt.arr, tgt.n, v), tgt.n + 1, mem, False)
                    return
                if f.attr in ("sort", "remove"):
                    args = [self.expr(a, env) for a in call.args]
                    env[f.value.id] = self.spec.list_method(self, f.attr, tgt, args, call, f.value.id)
                    return
                raise Unsupported(f"list method .{f.attr}")
            if isinstance(tgt, AbsV):
                if f.attr == "extend" and len(call.args) == 1 and isinstance(call.args[0], ast.GeneratorExp):
                    env[f.value.id] = self.spec.abs_extend_genexp(self, tgt, call.args[0], env)
                    return
                args = [self.expr(a, env) for a in call.args]
                env[f.value.id] = self.spec.abs_method(self, f.attr, tgt, args)
                return
        raise Unsupported(f"call statement {ast.unparse(call)[:60]}")

    # ------------------------------------------------------------ expressions
    def cond(self, v):
        if isinstance(v, bool):
            return z3.BoolVal(v)
        if z3.is_expr(v) and z3.is_bool(v):
            return v
        if z3.is_expr(v) and z3.is_int(v):
            return v != 0
        if isinstance(v, int):
            return z3.BoolVal(v != 0)
        raise Unsupported(f"truth value of {v!r}")

    def index(self, lst, e, where):
        e = self.lift(e)
        self.ob(f"{where}.index-in-range", z3.And(e >= 0, e < lst.n), "safety")
        return z3.Select(lst.arr, e)

    def expr(self, n, env):
        if isinstance(n, ast.Constant):
            if isinstance(n.value, (bool, int)):
                return n.value
            return self.spec.constant(self, n.value)
        if isinstance(n, ast.Name):
            if n.id in env:
                return env[n.id]
            return self.spec.global_name(self, n.id)
        if isinstance(n, ast.BinOp) and isinstance(n.op, (ast.Add, ast.Sub)):
            a, b = self.lift(self.expr(n.left, env)), self.lift(self.expr(n.right, env))
            return a + b if isinstance(n.op, ast.Add) else a - b
        if isinstance(n, ast.UnaryOp) and isinstance(n.op, ast.Not):
            return z3.Not(self.cond(self.expr(n.operand, env)))
        if isinstance(n, ast.BoolOp):
            vs = [self.cond(self.expr(v, env)) for v in n.values]     # operands of the subset are total: no short-circuit side effects
            return z3.And(*vs) if isinstance(n.op, ast.And) else z3.Or(*vs)
        if isinstance(n, ast.IfExp):
            c = self.cond(self.expr(n.test, env))
            return self.merge(c, self.expr(n.body, env), self.expr(n.orelse, env))
        if isinstance(n, ast.Compare) and len(n.ops) == 1:
            op = n.ops[0]
            if isinstance(op, (ast.In, ast.NotIn)):
                lst = self.expr(n.comparators[0], env)
                x = self.expr(n.left, env)
                if not isinstance(lst, ListV):
                    raise Unsupported("`in` on a non-list")
                r = self.spec.member(self, x, lst)
                return r if isinstance(op, ast.In) else z3.Not(r)
            a, b = self.expr(n.left, env), self.expr(n.comparators[0], env)
            a, b = self.lift(a), self.lift(b)
            return {ast.Eq: a == b, ast.NotEq: a != b, ast.Lt: a < b, ast.LtE: a <= b, ast.Gt: a > b, ast.GtE: a >= b}[type(op)]
        if isinstance(n, ast.Subscript):
            base = self.expr(n.value, env)
            if isinstance(base, ListV):
                if isinstance(n.slice, ast.Slice):
                    if n.slice.lower is None and n.slice.upper is None and n.slice.step is None:
                        return ListV(base.arr, base.n, base.mem, base.distinct)        # copy (value semantics)
                    raise Unsupported("list slice other than [:]")
                return self.index(base, self.expr(n.slice, env), f"line{n.lineno}")
            raise Unsupported("subscript of a non-list")
        if isinstance(n, ast.Attribute):
            base = self.expr(n.value, env)
            return self.spec.attribute(self, base, n.attr)
        if isinstance(n, ast.Call):
            f = n.func
            if isinstance(f, ast.Name) and f.id == "len" and len(n.args) == 1:
                v = self.expr(n.args[0], env)
                if isinstance(v, ListV):
                    return v.n
                raise Unsupported("len of a non-list")
            if isinstance(f, ast.Name) and f.id == "ord" and len(n.args) == 1:
                return self.spec.ord(self, self.expr(n.args[0], env))
            return self.spec.call(self, n, env)
        raise Unsupported(f"expression {type(n).__name__} at line {getattr(n, 'lineno', '?')}")


def discharge(obs, timeout_ms=30000):
    """-> list of (ob, verdict, model-or-None, seconds)"""
    import time
    out = []
    for ob in obs:
        s = z3.Solver()
        s.set("timeout", timeout_ms)
        for h in ob.hyps:
            s.add(h)
        s.add(z3.Not(ob.goal))
        t = time.time()
        r = s.check()
        dt = time.time() - t
        if r == z3.unsat:
            out.append((ob, "proved", None, dt))
        elif r == z3.sat:
            out.append((ob, "refuted", s.model(), dt))
        else:
            out.append((ob, "unknown", None, dt))
    return out
